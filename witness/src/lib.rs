//! Compiler witnesses for fast_qr's public API (engine E3).  Nothing here is ever
//! executed: the positive witnesses only have to type-check (`cargo +nightly check`),
//! the negative ones are `compile_fail` doctests, each paired with a compiling twin
//! that differs only in the offending line (`cargo +nightly test --doc`, all `no_run`).
#![allow(dead_code, unused_variables, clippy::all)]

use fast_qr::convert::image::ImageBuilder;
use fast_qr::convert::svg::SvgBuilder;
use fast_qr::convert::{Builder, ConvertError, Shape};
use fast_qr::qr::QRCodeError;
use fast_qr::{Mask, Mode, Module, ModuleType, QRBuilder, QRCode, Version, ECL};

fn assert_send_sync<T: Send + Sync>() {}

/// W-C14a: the four public state-bearing types are `Send + Sync` (no `Rc`, `Cell`, raw pointer ...).
pub fn w_c14_send_sync() {
    assert_send_sync::<QRBuilder>();
    assert_send_sync::<QRCode>();
    assert_send_sync::<SvgBuilder>();
    assert_send_sync::<ImageBuilder>();
}

/// W-C14b: building needs only a shared borrow of the builder.
pub fn w_c14_build_through_shared_ref(b: &QRBuilder) -> Result<QRCode, QRCodeError> {
    b.build()
}

/// W-C14c: every renderer takes the builder and the symbol by shared reference.
pub fn w_c14_renderers(q: &QRCode, s: &SvgBuilder, i: &ImageBuilder) {
    let _a: String = q.to_str();
    let _b: String = s.to_str(q);
    let _c = i.to_pixmap(q);
    let _d = i.to_bytes(q);
}

/// W-C05/C10: the error type has exactly the two documented variants
/// (a third variant makes this match non-exhaustive and the witness stops compiling).
pub fn w_c05_error_is_exhaustive(e: QRCodeError) -> u8 {
    match e {
        QRCodeError::EncodedData => 0,
        QRCodeError::SpecifiedVersion => 1,
    }
}

/// W-C10: `build` returns `Result<QRCode, QRCodeError>` and nothing else.
pub fn w_c10_build_type(b: &QRBuilder) {
    let _r: Result<QRCode, QRCodeError> = b.build();
}

/// W-C19: both `to_file` errors convert into the common error type with `?`.
pub fn w_c19_question_mark(s: &SvgBuilder, i: &ImageBuilder, q: &QRCode) -> Result<(), ConvertError> {
    s.to_file(q, "out.svg")?;
    i.to_file(q, "out.png")?;
    let _bytes: Vec<u8> = i.to_bytes(q)?;
    Ok(())
}

/// W-C15a: the shape callback slot is a plain `fn(usize, usize, Module) -> String`
/// (a `fn` pointer cannot capture state) and receives the module with its label.
pub fn w_c15_callback_type() {
    fn cb(y: usize, x: usize, m: Module) -> String {
        match m.module_type() {
            ModuleType::Data => format!("M{x},{y}h1v1h-1"),
            _ => String::new(),
        }
    }
    let f: fn(usize, usize, Module) -> String = cb;
    let _s = Shape::Command(f);
    let _t: fast_qr::convert::ModuleFunction = f;
}

/// W-C15b: the public label type has exactly the eight documented regions.
pub fn w_c15_module_types(t: ModuleType) -> u8 {
    match t {
        ModuleType::Data => 0,
        ModuleType::FinderPattern => 1,
        ModuleType::Alignment => 2,
        ModuleType::Timing => 3,
        ModuleType::Format => 4,
        ModuleType::Version => 5,
        ModuleType::DarkModule => 6,
        ModuleType::Empty => 7,
    }
}

/// W-C04: the reported parameters are public fields of these types.
pub fn w_c04_reported_fields(q: &QRCode) -> (usize, Option<Version>, Option<ECL>, Option<Mask>, Option<Mode>) {
    (q.size, q.version, q.ecl, q.mask, q.mode)
}

/// W-C14d: option setters are chainable on `&mut` and do not consume the builder.
pub fn w_c14_setters(b: &mut QRBuilder, s: &mut SvgBuilder, i: &mut ImageBuilder) {
    b.ecl(ECL::L).version(Version::V05).mask(Mask::Fields).mode(Mode::Byte);
    s.margin(2).module_color([0u8, 0, 0, 255]).background_color([255u8; 4]).shape(Shape::Square);
    i.fit_width(10).fit_height(10).margin(1);
}

/// Mutating the symbol through a shared reference must not type-check.
/// ```compile_fail,E0594
/// fn f(q: &fast_qr::QRCode) {
///     q.size = 3;
/// }
/// ```
/// Compiling twin (differs only by the borrow):
/// ```no_run
/// fn f(q: &mut fast_qr::QRCode) {
///     q.size = 3;
/// }
/// ```
pub struct NoMutationThroughSharedSymbol;

/// Calling a setter through a shared builder reference must not type-check.
/// ```compile_fail,E0596
/// fn f(b: &fast_qr::QRBuilder) {
///     b.ecl(fast_qr::ECL::L);
/// }
/// ```
/// Compiling twin:
/// ```no_run
/// fn f(b: &mut fast_qr::QRBuilder) {
///     b.ecl(fast_qr::ECL::L);
/// }
/// ```
pub struct NoSetterThroughSharedBuilder;

/// A match that omits a documented error must be rejected as non-exhaustive
/// (so the exhaustive witness above really enumerates the variants).
/// ```compile_fail,E0004
/// fn f(e: fast_qr::qr::QRCodeError) -> u8 {
///     match e {
///         fast_qr::qr::QRCodeError::EncodedData => 0,
///     }
/// }
/// ```
/// Compiling twin:
/// ```no_run
/// fn f(e: fast_qr::qr::QRCodeError) -> u8 {
///     match e {
///         fast_qr::qr::QRCodeError::EncodedData => 0,
///         fast_qr::qr::QRCodeError::SpecifiedVersion => 1,
///     }
/// }
/// ```
pub struct ErrorMatchMustBeExhaustive;

/// A closure that captures state cannot be installed as a shape callback.
/// ```compile_fail,E0308
/// let mut n = 0usize;
/// let _s = fast_qr::convert::Shape::Command(move |y, x, m| { n += 1; String::new() });
/// ```
/// Compiling twin (non-capturing closure coerces to a fn pointer):
/// ```no_run
/// let _s = fast_qr::convert::Shape::Command(|y, x, m| String::new());
/// ```
pub struct CallbackCannotCaptureState;
