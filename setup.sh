#!/bin/sh
# MANIFEST.setup_cmd: build the framework offline from files on disk only.
set -e
cd "$(dirname "$0")"
export CARGO_NET_OFFLINE=true
(cd driver && cargo +nightly build --release --offline 2>&1 | tail -3)
test -x driver/target/release/fqr-facts
if [ -d witness ]; then
  cp /repo/Cargo.lock witness/Cargo.lock 2>/dev/null || true
fi
python3 -m fqrlint.reference
echo "setup ok"
