#!/usr/bin/env python3
"""Generate selftest/corpus.json from /verif/seeded/*/meta.json (what each kept change is reported by) and /verif/refactors."""
import glob, json, os
HERE = os.path.dirname(os.path.dirname(os.path.abspath(__file__)))
AREA = {
    "R1": ["C01", "C03", "C04", "C05", "C08", "C10", "C11", "C15"],
    "R2": ["C01", "C02", "C05", "C06", "C07", "C09", "C10"],
    "R3": ["C01", "C02", "C03", "C04", "C05", "C06", "C07", "C10", "C15"],
    "R4": ["C01", "C08", "C11", "C16"],
    "R5": ["C12", "C13", "C14", "C15", "C17", "C18", "C19"],
}
out = []
for d in sorted(glob.glob(os.path.join(HERE, "seeded", "*"))):
    mp = os.path.join(d, "meta.json")
    if not os.path.exists(mp):
        continue
    m = json.load(open(mp))
    # only the pairing confirmed by the last full pass of tools/seedrecheck.py: a kept change and the check of the property it was
    # written against (what other properties' checks say about it is recorded in meta.json but not re-confirmed on every pass)
    for prop in ([m["property"]] if m.get("detected_by_target_property") else []):
        rules = (m["checks"].get(prop) or {}).get("rules") or []
        out.append({"patch": "../seeded/%s/patch.diff" % os.path.basename(d), "kind": "mutant", "properties": [prop],
                    "expect": rules[0] if rules else "", "breaks": m["property"]})
for d in sorted(glob.glob(os.path.join(HERE, "refactors", "R*-r*"))):
    name = os.path.basename(d)
    k = int(name.split("-")[0][1:])
    out.append({"patch": "../refactors/%s/patch.diff" % name, "kind": "refactor", "properties": AREA["R%d" % ((k - 1) % 5 + 1)]})
os.makedirs(os.path.join(HERE, "selftest"), exist_ok=True)
json.dump(out, open(os.path.join(HERE, "selftest", "corpus.json"), "w"), indent=1)
print("corpus: %d mutant entries, %d refactor entries" % (sum(1 for e in out if e["kind"] == "mutant"), sum(1 for e in out if e["kind"] == "refactor")))
