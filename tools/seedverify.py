#!/usr/bin/env python3
"""Confirm a seeded change myself: fresh scratch worktree of /repo HEAD; demo passes on pristine; with the patch the
crate builds, the pinned 174-test suite passes, and the demo fails.  Then run all checks against the patched tree.
Writes /verif/seeded/<id>/{patch.diff,demo/,meta.json} when everything is confirmed (or --force-keep).
usage: seedverify.py <Cxx> <mN> [--features image|svg] [--wasm] [--demo-cmd "..."]"""
import glob, json, os, re, shutil, subprocess, sys, time
prop, m = sys.argv[1], sys.argv[2]
ROOT = os.environ.get("SEED_ROOT", "/tmp/seed")
src = "%s/%s-out/%s" % (ROOT, prop, m)
sid = "%s-%s" % (prop, m.replace("m", os.environ.get("SEED_TAG", "m")))
wt = "/tmp/sv/%s" % sid
tgt = "/tmp/sv/target-%s" % prop
os.makedirs("/tmp/sv", exist_ok=True)
patch = os.path.join(src, "patch.diff")
ptxt = open(patch).read()
feat = []
if "--features" in sys.argv: feat = ["--features", sys.argv[sys.argv.index("--features") + 1]]
elif "src/convert/" in ptxt: feat = ["--features", "image"]
elif "src/wasm.rs" in ptxt: feat = ["--features", "svg"]
env = dict(os.environ, CARGO_NET_OFFLINE="true", CARGO_TARGET_DIR=tgt)
if "--wasm" in sys.argv or "src/wasm.rs" in ptxt: env["RUSTFLAGS"] = "--cfg fast_qr_verif"
meta = {"id": sid, "property": prop, "source": "independent sub-agent given only the property text and a scratch worktree", "features": feat}
def run(cmd, **kw):
    t = time.time()
    r = subprocess.run(cmd, capture_output=True, text=True, **kw)
    return r, round(time.time() - t, 1)
subprocess.run(["git", "-C", "/repo", "worktree", "remove", "--force", wt], capture_output=True)
subprocess.run(["git", "-C", "/repo", "worktree", "add", "--detach", "-q", wt, "HEAD"], check=True)
try:
    demos = glob.glob(os.path.join(src, "demo", "*.rs"))
    os.makedirs(os.path.join(wt, "tests"), exist_ok=True)
    names = []
    for d in demos:
        shutil.copy(d, os.path.join(wt, "tests"))
        names.append(os.path.basename(d)[:-3])
    if "--demo-cmd" in sys.argv:
        demo_cmd = sys.argv[sys.argv.index("--demo-cmd") + 1].split()
    elif names:
        demo_cmd = ["cargo", "test", "--offline"] + feat + sum([["--test", n] for n in names], [])
    else:
        print("no demo .rs found; pass --demo-cmd"); sys.exit(3)
    def summ(r):
        ms = re.findall(r"test result: (\w+)\. (\d+) passed; (\d+) failed", r.stdout)
        return ms if ms else ("NO RESULT: " + (r.stderr[-400:] or r.stdout[-400:]))
    r, t = run(demo_cmd, cwd=wt, env=env)
    meta["demo_pristine"] = {"cmd": " ".join(demo_cmd), "exit": r.returncode, "result": summ(r), "s": t}
    a = subprocess.run(["git", "-C", wt, "apply", patch], capture_output=True, text=True)
    if a.returncode: print("PATCH DOES NOT APPLY", a.stderr); sys.exit(3)
    r, t = run(["cargo", "test", "--lib", "--offline"], cwd=wt, env=dict(env, RUSTFLAGS=""))
    meta["suite_with_change"] = {"cmd": "cargo test --lib --offline", "exit": r.returncode, "result": summ(r), "s": t}
    if feat:
        r, t = run(["cargo", "test", "--lib", "--offline"] + feat, cwd=wt, env=env)
        meta["suite_with_change_features"] = {"cmd": "cargo test --lib --offline " + " ".join(feat), "exit": r.returncode, "result": summ(r), "s": t}
    r, t = run(demo_cmd, cwd=wt, env=env)
    fails = re.findall(r"^test (\S+) \.\.\. FAILED", r.stdout, re.M)
    meta["demo_with_change"] = {"exit": r.returncode, "result": summ(r), "failed_tests": fails[:6], "s": t}
    # checks
    subprocess.run(["git", "-C", wt, "checkout", "--", "."], capture_output=True)  # keep tests/ out of the way: they are untracked
    shutil.rmtree(os.path.join(wt, "tests"), ignore_errors=True)
    subprocess.run(["git", "-C", wt, "apply", patch], check=True)
    fired = {}
    if os.environ.get("SEED_LIGHT"):
        # own property only, ordinary quick tier (what a user of the check would run)
        c = subprocess.run(["/verif/check", "ALL", "--repo", wt, "--only", prop], capture_output=True, text=True, cwd="/verif")
    else:
        c = subprocess.run(["/verif/check", "ALL", "--repo", wt], capture_output=True, text=True, cwd="/verif", env=dict(os.environ, FQR_GEOM_ALL="1"))
    for mm in re.finditer(r"^==== (C\d\d)\n(.*?)^==== \1 exit=(\d)", c.stdout, re.S | re.M):
        pr, body, rc = mm.group(1), mm.group(2), int(mm.group(3))
        keys = re.findall(r"VIOLATION property=\S+ replay=\S+/replay/[A-Z0-9]+-(\S+)\.json", body)
        rules = sorted(set(re.findall(r"^  rule=(\S+)", body, re.M)))
        und = re.findall(r"UNDECIDED rule=(\S+)", body)
        if keys or rc:
            fired[pr] = {"exit": rc, "rules": rules, "violations": keys[:6], "undecided": sorted(set(und))[:3]}
    meta["checks"] = fired
    ok = (meta["demo_pristine"]["exit"] == 0 and meta["suite_with_change"]["exit"] == 0 and meta["demo_with_change"]["exit"] != 0
          and (not feat or meta["suite_with_change_features"]["exit"] == 0))
    meta["confirmed"] = ok
    meta["detected_by_target_property"] = bool(fired.get(prop, {}).get("violations"))
    meta["detected_by"] = sorted(p for p, v in fired.items() if v["violations"])
    notes = os.path.join(src, "NOTES.txt")
    meta["needs_to_manifest"] = open(notes).read()[:1500] if os.path.exists(notes) else ""
    print(json.dumps({k: meta[k] for k in ("id", "confirmed", "demo_pristine", "suite_with_change", "demo_with_change", "detected_by_target_property", "detected_by")}, indent=1))
    for p_, v in fired.items(): print(" ", p_, v["rules"], v["violations"][:3], v["undecided"])
    if ok or "--force-keep" in sys.argv:
        out = "/verif/seeded/%s" % sid
        shutil.rmtree(out, ignore_errors=True)
        os.makedirs(out)
        shutil.copy(patch, out)
        shutil.copytree(os.path.join(src, "demo"), os.path.join(out, "demo"))
        json.dump(meta, open(os.path.join(out, "meta.json"), "w"), indent=1)
finally:
    subprocess.run(["git", "-C", "/repo", "worktree", "remove", "--force", wt], capture_output=True)
    subprocess.run(["git", "-C", "/repo", "worktree", "prune"], capture_output=True)
