#!/usr/bin/env python3
"""Run every check against behaviour-preserving refactorings: any VIOLATION is a false alarm to fix.
usage: refaccheck.py <dir-with-rN/patch.diff> [...]   (results appended to /tmp/refac/results.jsonl)"""
import glob, json, os, re, subprocess, sys, tempfile, shutil
from concurrent.futures import ThreadPoolExecutor


def run_all(wt, only=None):
    """all 19 properties in one process (shared facts and partial-evaluation results); -> {prop: (rc, keys, rules, undecided)}"""
    import os, re, subprocess
    env = dict(os.environ) if not os.environ.get("SEED_GEOM_ALL") else dict(os.environ, FQR_GEOM_ALL="1")
    cmd = ["/verif/check", "ALL", "--repo", wt] + (["--only", ",".join(sorted(only))] if only else [])
    c = subprocess.run(cmd, capture_output=True, text=True, cwd="/verif", env=env)
    out = {}
    for m in re.finditer(r"^==== (C\d\d)\n(.*?)^==== \1 exit=(\d)", c.stdout, re.S | re.M):
        pr, body, rc = m.group(1), m.group(2), int(m.group(3))
        keys = re.findall(r"VIOLATION property=\S+ replay=\S+/replay/[A-Z0-9]+-(\S+)\.json", body)
        rules = sorted(set(re.findall(r"^  rule=(\S+)", body, re.M)))
        und = re.findall(r"UNDECIDED rule=(\S+) (.*)", body)
        mach = re.findall(r"MACHINERY-ERROR.*", body)
        out[pr] = (rc, keys, rules, und, mach)
    if len(out) != (len(only) if only else 19):
        out["_error"] = (2, [], [], [], [c.stdout[-300:] + c.stderr[-300:]])
    return out


AREA = {
    "R1": ["C01", "C03", "C04", "C05", "C08", "C10", "C11", "C15"],
    "R2": ["C01", "C02", "C05", "C06", "C07", "C09", "C10"],
    "R3": ["C01", "C02", "C03", "C04", "C05", "C06", "C07", "C10", "C15"],
    "R4": ["C01", "C08", "C11", "C16"],
    "R5": ["C12", "C13", "C14", "C15", "C17", "C18", "C19"],
}


def one(patch):
    name = "/".join(patch.split("/")[-3:-1])
    d = tempfile.mkdtemp(prefix="fqr-refac-")
    wt = os.path.join(d, "repo")
    try:
        subprocess.run(["git", "-C", "/repo", "worktree", "add", "--detach", "-q", wt, "HEAD"], check=True)
        a = subprocess.run(["git", "-C", wt, "apply", patch], capture_output=True, text=True)
        if a.returncode:
            return name + " PATCH DOES NOT APPLY " + a.stderr[:200]
        out = {"patch": name, "alarms": {}, "undecided": {}, "machinery": {}}
        mk = re.search(r"R(\d+)", name)
        area = AREA.get("R%d" % ((int(mk.group(1)) - 1) % 5 + 1)) if mk and not os.environ.get("REFAC_ALL_PROPS") else None
        for pr, (rc, keys, rules, und, mach) in sorted(run_all(wt, area).items()):
            if keys:
                out["alarms"][pr] = keys[:6]
            if und:
                out["undecided"][pr] = [u[0] + " " + u[1][:100] for u in und[:4]]
            if mach or rc == 2:
                out["machinery"][pr] = mach[:2] or ["exit 2"]
        with open("/tmp/refac/results.jsonl", "a") as f:
            f.write(json.dumps(out) + "\n")
        return "%s %s %s %s undecided: %s" % (name, "ALARMS" if out["alarms"] or out["machinery"] else "silent", json.dumps(out["alarms"]),
                                              json.dumps(out["machinery"])[:300], sorted(out["undecided"]))
    finally:
        subprocess.run(["git", "-C", "/repo", "worktree", "remove", "--force", wt], capture_output=True)
        subprocess.run(["git", "-C", "/repo", "worktree", "prune"], capture_output=True)
        shutil.rmtree(d, ignore_errors=True)


def main():
    dirs = []
    for a in sys.argv[1:]:
        dirs += sorted(glob.glob(os.path.join(a, "r*", "patch.diff"))) + sorted(glob.glob(os.path.join(a, "R*-r*", "patch.diff")))
    with ThreadPoolExecutor(4) as ex:
        for line in ex.map(one, dirs):
            print(line)
            sys.stdout.flush()


main()
