#!/usr/bin/env python3
"""Run every check against behaviour-preserving refactorings: any VIOLATION is a false alarm to fix.
usage: refaccheck.py <dir-with-rN/patch.diff> [...]   (results appended to /tmp/refac/results.jsonl)"""
import glob, json, os, re, subprocess, sys, tempfile, shutil
from concurrent.futures import ThreadPoolExecutor


def run_check(pr, wt):
    c = subprocess.run(["/verif/check", pr, "--repo", wt], capture_output=True, text=True, cwd="/verif")
    keys = re.findall(r"VIOLATION property=\S+ replay=\S+/replay/[A-Z0-9]+-(\S+)\.json", c.stdout)
    und = re.findall(r"UNDECIDED rule=(\S+) (.*)", c.stdout)
    mach = (c.stderr[-400:] if c.returncode == 2 else None)
    return pr, c.returncode, keys, und, mach


def main():
    dirs = []
    for a in sys.argv[1:]:
        dirs += sorted(glob.glob(os.path.join(a, "r*", "patch.diff")))
    for patch in dirs:
        name = "/".join(patch.split("/")[-3:-1])
        d = tempfile.mkdtemp(prefix="fqr-refac-")
        wt = os.path.join(d, "repo")
        try:
            subprocess.run(["git", "-C", "/repo", "worktree", "add", "--detach", "-q", wt, "HEAD"], check=True)
            a = subprocess.run(["git", "-C", wt, "apply", patch], capture_output=True, text=True)
            if a.returncode:
                print(name, "PATCH DOES NOT APPLY", a.stderr[:200])
                continue
            with ThreadPoolExecutor(8) as ex:
                res = list(ex.map(lambda p: run_check(p, wt), ["C%02d" % i for i in range(1, 20)]))
            out = {"patch": name, "alarms": {}, "undecided": {}, "machinery": {}}
            for pr, rc, keys, und, mach in res:
                if keys:
                    out["alarms"][pr] = keys[:6]
                if und:
                    out["undecided"][pr] = [u[0] + " " + u[1][:100] for u in und[:4]]
                if mach:
                    out["machinery"][pr] = mach
            print(name, "ALARMS" if out["alarms"] or out["machinery"] else "silent", json.dumps(out["alarms"]), json.dumps(out["machinery"])[:300],
                  "undecided:", sorted(out["undecided"]))
            sys.stdout.flush()
            with open("/tmp/refac/results.jsonl", "a") as f:
                f.write(json.dumps(out) + "\n")
        finally:
            subprocess.run(["git", "-C", "/repo", "worktree", "remove", "--force", wt], capture_output=True)
            subprocess.run(["git", "-C", "/repo", "worktree", "prune"], capture_output=True)
            shutil.rmtree(d, ignore_errors=True)


main()
