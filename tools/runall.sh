#!/bin/sh
# run every quick (or $1=thorough) check in parallel; print one line each
tier=${1:-quick}
cd /verif
for i in $(seq -w 1 19); do ( ./check C$i --tier $tier > /tmp/q_C$i.log 2>&1; echo "C$i exit=$? $(tail -1 /tmp/q_C$i.log)" ) & done; wait
