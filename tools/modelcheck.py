#!/usr/bin/env python3
"""Development tool (not a registered check): conformance of the partial evaluator's std models.

tools/modelcheck/ is a small crate whose functions c_<name>() exercise the std APIs that fqrlint/peval.py models, on constant
inputs.  This script (1) builds and runs the crate natively to get the values rustc's own std produces, (2) extracts the crate's
MIR with the fact driver and evaluates every c_<name>() with the partial evaluator, and (3) compares the two renderings.
A difference is a wrong model (to be fixed in peval.py); `top` means a case uses something not modelled (no verdict).
usage: tools/modelcheck.py [case-substring]"""
import os, subprocess, sys, tempfile, shutil
HERE = os.path.dirname(os.path.dirname(os.path.abspath(__file__)))
sys.path.insert(0, HERE)
from fqrlint import facts as factsmod, peval
from fqrlint.fold import TOP

CRATE = os.path.join(HERE, "tools", "modelcheck")


def native():
    tgt = tempfile.mkdtemp(prefix="fqr-mc-")
    try:
        env = dict(os.environ, CARGO_NET_OFFLINE="true", CARGO_TARGET_DIR=tgt, RUSTFLAGS="-Awarnings")
        p = subprocess.run(["cargo", "run", "--offline", "-q", "--bin", "native"], cwd=CRATE, env=env, capture_output=True, text=True)
        if p.returncode:
            raise SystemExit("native build failed:\n" + p.stderr[-2000:])
        return dict(l.split("\t", 1) for l in p.stdout.splitlines() if "\t" in l)
    finally:
        shutil.rmtree(tgt, ignore_errors=True)


def rust_str(s):
    out = '"'
    for c in s:
        out += {'"': '\\"', "\\": "\\\\", "\n": "\\n"}.get(c, c)
    return out + '"'


def render(pe, v):
    if v == TOP:
        raise ValueError("top")
    k = v[0]
    if k == "int":
        if v[1] == "char":
            return "'%s'" % chr(v[2])
        return str(v[2])
    if k == "bool":
        return "true" if v[1] else "false"
    if k == "char":
        return "'%s'" % chr(v[1])
    if k == "float":
        x = float(v[1])
        return repr(x) if x != int(x) or abs(x) >= 1e16 else "%.1f" % x
    if k in ("string", "str"):
        s = peval._pystr(pe, None, v)
        if s is None:
            raise ValueError("unrendered string")
        return rust_str(s)
    if k == "tuple":
        return "(" + ", ".join(render(pe, x) for x in v[1]) + ("," if len(v[1]) == 1 else "") + ")"
    if k in ("array", "harr", "hview"):
        return "[" + ", ".join(render(pe, x) for x in peval._seq_items(pe, v)) + "]"
    if k == "ref":
        return render(pe, peval._deref_all(pe, None, v))
    if k == "adt":
        name = v[3]
        if not v[4]:
            return name
        return "%s(%s)" % (name, ", ".join(render(pe, x) for x in v[4]))
    if k == "enum":
        return v[2]
    raise ValueError("cannot render %s" % str(v)[:60])


def main():
    want = native()
    raw = factsmod.run_driver("default", repo=CRATE, crate="fqr_modelcheck", manifest_dir=CRATE)
    f = factsmod.Facts(raw)
    sel = sys.argv[1] if len(sys.argv) > 1 else ""
    bad = und = ok = 0
    for name in sorted(want):
        if sel not in name:
            continue
        pe = peval.PEval(f, max_steps=2_000_000)
        if name.startswith("p:"):
            r = pe.call("p_" + name[2:], [])
            if r.kind == "diverge":
                got = "PANIC"
            elif r.kind == "ret":
                try:
                    got = render(pe, r.value)
                except ValueError as e:
                    got = "UNRENDERED %s" % e
            else:
                print("%-28s %-8s %s" % (name, r.kind.upper(), (r.why or "")[:110]))
                und += 1
                continue
            if got == want[name]:
                ok += 1
            else:
                bad += 1
                print("%-28s MISMATCH  rustc: %s   model: %s %s" % (name, want[name], got, (r.why or "")[:80]))
            continue
        r = pe.call("c_" + name, [])
        if r.kind != "ret":
            print("%-28s %-8s %s" % (name, r.kind.upper(), (r.why or "")[:110]))
            und += 1 if r.kind == "top" else 0
            bad += 1 if r.kind != "top" else 0
            continue
        try:
            got = render(pe, r.value)
        except ValueError as e:
            print("%-28s UNRENDERED %s  value=%s" % (name, e, str(r.value)[:100]))
            und += 1
            continue
        if got == want[name]:
            ok += 1
        else:
            bad += 1
            print("%-28s MISMATCH  rustc: %s   model: %s" % (name, want[name], got))
    print("model conformance: %d agree, %d differ, %d not evaluated (of %d cases)" % (ok, bad, und, ok + bad + und))
    return 1 if bad else 0


if __name__ == "__main__":
    sys.exit(main())
