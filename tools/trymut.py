#!/usr/bin/env python3
"""dev helper: apply one textual edit (or a patch file) to a scratch worktree of /repo and run checks on it.
usage: trymut.py <props,comma> <file> <old> <new>      |  trymut.py <props> --patch <file.diff>"""
import os, subprocess, sys, tempfile, shutil
props = sys.argv[1].split(",")
d = tempfile.mkdtemp(prefix="fqr-mut-")
wt = os.path.join(d, "repo")
try:
    subprocess.run(["git", "-C", "/repo", "worktree", "add", "--detach", "-q", wt, "HEAD"], check=True)
    if sys.argv[2] == "--patch":
        r = subprocess.run(["git", "-C", wt, "apply", sys.argv[3]], capture_output=True, text=True)
        if r.returncode: print("PATCH DOES NOT APPLY", r.stderr); sys.exit(3)
    else:
        f, old, new = sys.argv[2:5]
        p = os.path.join(wt, f); s = open(p).read()
        if s.count(old) < 1: print("OLD TEXT NOT FOUND"); sys.exit(3)
        open(p, "w").write(s.replace(old, new, 1))
    for pr in props:
        r = subprocess.run(["/verif/check", pr, "--repo", wt], capture_output=True, text=True, cwd="/verif")
        lines = [l for l in (r.stdout + r.stderr).split("\n") if l.startswith(("VIOLATION", "  rule=", "  instance=", "  expected", "UNDECIDED", "PASS", "FAIL", "MACHINERY", "KNOWN"))]
        print("\n".join(l[:400] for l in lines[:int(os.environ.get("N", "14"))]))
finally:
    subprocess.run(["git", "-C", "/repo", "worktree", "remove", "--force", wt], capture_output=True)
    subprocess.run(["git", "-C", "/repo", "worktree", "prune"], capture_output=True)
    shutil.rmtree(d, ignore_errors=True)
    # evidence of the real tree must not be left overwritten by a scratch run
