fn main() {
    for (name, value) in fqr_modelcheck::all() {
        println!("{name}\t{value}");
    }
    std::panic::set_hook(Box::new(|_| {}));
    for (name, f) in fqr_modelcheck::all_panicking() {
        match std::panic::catch_unwind(f) {
            Ok(v) => println!("p:{name}\t{v}"),
            Err(_) => println!("p:{name}\tPANIC"),
        }
    }
}
