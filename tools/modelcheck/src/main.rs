fn main() {
    for (name, value) in fqr_modelcheck::all() {
        println!("{name}\t{value}");
    }
}
