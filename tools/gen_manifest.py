#!/usr/bin/env python3
"""Regenerate /verif/MANIFEST.json from the property table below (keeps it in sync with fqrlint/props.py)."""
import json, os, subprocess, sys
HERE = os.path.dirname(os.path.dirname(os.path.abspath(__file__)))
sys.path.insert(0, HERE)
from fqrlint import props

NOTE_COMMON = ("Trusted: rustc's front end, MIR construction, trait resolution and constant evaluator; std behaving as documented; "
               "the ISO reference transcription (self-checked, cross-audited against qrcode 0.12); the rule engine (self-tested both ways). ")

P = {
 "C01": ("other", "DESIGN.md 3/C01", "MIR constant folding of all ISO tables + def-use/dominance rules over pipeline hand-offs + index polynomial algebra",
         "Decides necessary structural clauses (every table cell, every hand-off, guarded writes), not round-trip equality itself; bit packing shifts, zig-zag order and GF division loops are not decided."),
 "C02": ("other", "DESIGN.md 3/C02", "MIR constant folding of block/generator tables vs ISO Table 9 + dataflow over structure()",
         "All 160 layouts, counts, degrees and 13 generators are exact; the division loop and the corruption corollary are not decided."),
 "C03": ("other", "DESIGN.md 3/C03", "table folding (geometry, Annex E) + edge-dominance guard rule + who-may-write rule",
         "Function patterns cannot be altered after blank-symbol construction on any path; the drawing loops' coordinates are decided only as far as the rules name."),
 "C04": ("other", "DESIGN.md 3/C04", "BCH recomputation of 32+34 words from folded tables + single-source (reaching-definition) rule for the mask + origin analysis of reported fields",
         "Word values and value provenance are exact; bit-to-coordinate placement of the words only as far as the rules name."),
 "C05": ("proof", "DESIGN.md 3/C05", "decision-tree extraction (interval path enumeration) of Version::get over all usize + dominance/edge rules for the gate + compile witness",
         "Exact for all lengths x 12 (mode, level) and all forced versions, relative to the encoders emitting the bit counts the capacity formula assumes (widths decided by C06 rules)."),
 "C06": ("other", "DESIGN.md 3/C06", "table folding + call-site constant extraction + polynomial normal form of pushed values + stage-order dominance",
         "Constants, widths, value formulas and stage order are exact; push_bits shift arithmetic and the remainder-digit loop are decided only as far as the rules name."),
 "C07": ("other", "DESIGN.md 3/C07", "GF(256) table and generator recomputation from the definition + buffer obligations over 160 cells",
         "Tables and generators exact; the long-division loop is not decided as an algorithm."),
 "C08": ("other", "DESIGN.md 3/C08", "edge-dominance guard rule on canonical places + dispatcher folding + offset-table comparison",
         "Function patterns identical under all masks on every path; each sweep's exact toggle set only as far as the rules name."),
 "C09": ("other", "DESIGN.md 3/C09", "exhaustive folding of classifier and value tables over 256 bytes + origin analysis of the mode",
         "Classifier and its agreement with the encoder exact for all byte values; the scan loops only as far as the rules name."),
 "C10": ("other", "DESIGN.md 3/C10", "capacity decision tree + gate dominance + buffer-size obligations + compile witness; panic inventory",
         "Decides the anchored mechanisms (gate, buffers, error type); value-range proofs of compiler-inserted asserts are declined."),
 "C11": ("other", "DESIGN.md 3/C11", "data-dependence slices, control-dependence (edge dominance) and origin analysis over the selection loop",
         "Reports the known finding D1 (column penalties computed on an unmasked copy); scorers' arithmetic only as far as the rules name."),
 "C12": ("other", "DESIGN.md 3/C12", "forward taint with decision-table-recognised sanitiser + format-template decoding + dominance/polynomial rules",
         "RGBA colours and the image string; free-form colour strings are outside the property; usvg/XML parsers are not run."),
 "C13": ("other", "DESIGN.md 3/C13", "sibling-agreement rule over 11 forwarding methods + decision-table folding of the FitTo match + origin analysis",
         "Option plumbing only: pixel values come from resvg/tiny-skia whose bodies are not local MIR."),
 "C14": ("proof", "DESIGN.md 3/C14", "crate-wide fact enumeration (statics, unsafe, type graph, signatures, call-graph deny-list, setter effects) + Send/Sync and borrow witnesses",
         "Proof modulo: std deterministic, resvg without global state; zero-count rules are exercised on a positive fixture every run."),
 "C15": ("other", "DESIGN.md 3/C15", "exhaustive folding of the label encoding + one-constructor-per-writer rule + guarded-write rule + witnesses",
         "Label encoding and immutability exact; coordinates of each region only as far as the rules name."),
 "C16": ("other", "DESIGN.md 3/C16", "decision-table extraction of the glyph match + push-sequence recognition + trip-count algebra over 40 sizes",
         "Decide-or-abstain on the loop shape; no string is produced or compared."),
 "C17": ("other", "DESIGN.md 3/C17", "host-compiled MIR of wasm.rs under a cfg hook: trap-call scan, same-vector length-guard dominance, field-length invariant, forwarding table",
         "wasm-bindgen glue and the wasm32 target are not compiled here; equality with native output follows from forwarding, not from comparing strings."),
 "C18": ("other", "DESIGN.md 3/C18", "folding of image_placement over 3x40 + x/y symmetry of canonical expressions",
         "Default-frame table clauses exact; floating-point rounding not decided."),
 "C19": ("other", "DESIGN.md 3/C19", "error-discipline rule (consumer classification of every io::Result) + dominance of Ok + provenance of written bytes + witness",
         "No fault is injected; the guarantee is that no path drops an I/O error or reports Ok early."),
}

def main():
    repo_commits = subprocess.run(["git", "-C", "/repo", "log", "--format=%h %s", "93889b3..HEAD"], capture_output=True, text=True).stdout.strip().split("\n")
    hooks = [c.split()[0] for c in repo_commits if "verif hook" in c]
    checks = []
    for pid in sorted(props.PROPS):
        if pid == "DBG":
            continue
        level, dref, tech, note = P[pid]
        doc = props.PROPS[pid].__doc__
        checks.append({
            "property_id": pid,
            "quick_cmd": "./check %s --tier quick" % pid,
            "thorough_cmd": "./check %s --tier thorough" % pid,
            "evidence_file": "/verif/evidence/%s.json" % pid,
            "replay_cmd_template": "./check %s --replay {path}" % pid,
            "engine": "fqr-facts + fqrlint" + (" + witness" if pid in ("C04", "C05", "C10", "C14", "C15", "C19") else ""),
            "level_claimed": {"category": level, "text": note, "design_ref": dref},
            "level_note": NOTE_COMMON + note,
            "technique": "static analysis: " + tech,
        })
    m = {
        "version": 1,
        "setup_cmd": "./setup.sh",
        "hooks": {
            "guard": "fast_qr_verif",
            "enable": "RUSTFLAGS=\"--cfg fast_qr_verif\" cargo +nightly check --features svg (configuration `wasm` of fqrlint/facts.py); all other configurations build without the guard",
            "baseline_off_cmd": "cd /repo && cargo nextest run --workspace --no-fail-fast --offline || cargo test --workspace --lib --no-fail-fast --offline",
            "source_commits": hooks,
            "add_only": True,
        },
        "engines": [
            {"name": "fqr-facts", "path": "driver/", "serves_properties": sorted(P), "kind_free_text": "rustc_private driver: dumps resolved MIR, evaluated constants, ADTs, statics, impls, user-written unsafe as JSON per configuration"},
            {"name": "fqrlint", "path": "fqrlint/", "serves_properties": sorted(P), "kind_free_text": "Python rule engine over the facts: CFG/dominators/edge-dominance, reaching definitions, origins, canonical expressions, polynomial normal form, forward taint, finite-domain folding, decision-tree extraction"},
            {"name": "witness", "path": "witness/", "serves_properties": ["C04", "C05", "C10", "C14", "C15", "C19"], "kind_free_text": "compile-pass witnesses and compile_fail doctests with compiling twins against the public API"},
            {"name": "fixture", "path": "fixture/", "serves_properties": ["C14", "C17"], "kind_free_text": "positive fixture crate on which the zero-count rules must fire on every run"},
        ],
        "checks": checks,
        "notes": "All checks are static: none builds a test binary or runs fast_qr. Known findings are listed in known_findings.json (one known: C11 D1; three fixed by fix: commits). Exit 2 = machinery error (tree does not compile, driver missing).",
        "not_applicable": [],
    }
    with open(os.path.join(HERE, "MANIFEST.json"), "w") as f:
        json.dump(m, f, indent=1)
    print("wrote MANIFEST.json with %d checks, hooks %s" % (len(checks), hooks))

main()
