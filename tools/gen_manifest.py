#!/usr/bin/env python3
"""Regenerate /verif/MANIFEST.json from the property table below (keeps it in sync with fqrlint/props.py)."""
import json, os, subprocess, sys
HERE = os.path.dirname(os.path.dirname(os.path.abspath(__file__)))
sys.path.insert(0, HERE)
from fqrlint import props

NOTE_COMMON = ("Trusted: rustc's front end, MIR construction, trait resolution and constant evaluator; std behaving as documented; "
               "the ISO reference transcription (self-checked, cross-audited against qrcode 0.12); the rule engine (self-tested both ways). ")

PE = "partial evaluation of configuration-determined MIR (engine E4: constant propagation with loops unrolled over the finite configuration space; payload symbolic)"
P = {
 "C01": ("other", "DESIGN.md 3/C01 + 7", "MIR constant folding of all ISO tables + def-use/dominance rules over pipeline hand-offs + " + PE + " of blank symbol, format writer, mask sweeps, interleaving and codeword placement (symbolic codeword bits)",
         "Every table, hand-off, the interleave, the zig-zag placement (bit i -> i-th data module, 14 versions incl. V40 quick / 40 thorough), the mask sets and the format positions are decided exactly for every payload; the GF division is decided for every block content (C07.R4) and the segment encoders bit for bit on the cells of C06.R2 (every payload length on V01-V03 and V05-L, long payloads, the capacity of V40); the encoders at other lengths of larger symbols are not enumerated, so round-trip equality as a whole is not claimed."),
 "C02": ("other", "DESIGN.md 3/C02 + 7", "MIR constant folding of block/generator tables vs ISO Table 9 + " + PE + " of polynomials::structure with symbolic data codewords and an opaque division + " + PE + " of polynomials::division over GF(2^8)-linear forms of free block bytes (zero syndromes for every block content)",
         "All 160 layouts, counts, degrees, 13 generators and the complete interleaved sequence (data then EC, zero tail) are exact for all 160 cells; each block's EC codewords are the remainder for every block content of every block length in use (C07.R4); the corruption corollary (a textbook consequence) is not mechanised."),
 "C03": ("other", "DESIGN.md 3/C03 + 7", PE + " of default::create_matrix for all 40 versions against an ISO region map + table folding (geometry, Annex E) + edge-dominance guard rule",
         "Every module of the blank symbol (label and fixed value) for all 40 versions, nothing outside size x size, the format writer touching format positions only (so function patterns are level/mask independent), guarded writes after construction."),
 "C04": ("other", "DESIGN.md 3/C04 + 7", "BCH recomputation of 32+34 words + " + PE + " of the format writer (30 ISO positions, bit k at both copies) and of the version blocks + single-source rule for the mask + outcome table of QRCode::new + " + PE + " of QRCode::new end to end with every stage a token and the penalties from an oracle (C04.R5: the symbol is masked(format(placed, level, m), m) and the reported mask/level/version/mode are the values in effect; 46 scenarios)",
         "Word values, their bit-to-coordinate placement (quick: 168 (version, level, mask) cells on a blank, a dark and a chequered encoding region; thorough: 1280) and the reported fields of the value QRCode::new returns are exact; internal hand-offs (the out-parameter of place_on_matrix, which stage fills in a field) are not constrained."),
 "C05": ("proof", "DESIGN.md 3/C05 + 7", "decision-tree extraction of Version::get over all usize (an interval behind a narrowing cast is probed at concrete lengths) + " + PE + " of QRCode::new into an outcome table (24 600 cells around every capacity threshold x forced versions x given/defaulted mode and level) + compile witness",
         "Exact for all lengths x 12 (mode, level) and forced versions, relative to the encoders emitting the bit counts the capacity formula assumes (widths decided by C06 rules)."),
 "C06": ("other", "DESIGN.md 3/C06", PE + " of push_bits/push_u8 on symbolic words (bit-vector domain) and of encode() with a symbolic payload (affine value expressions with ranges): data codewords = ISO 7.4 stream bit for bit + table folding of count widths and value tables",
         "Exact for the stated (mode, version, level, length) cells and all payload contents in the mode's alphabet: every length 0..capacity on V01-V03 at every level and V05-L (quick; V01-V08 thorough), lengths around 2^8..2^12, the capacity of every level of V40 and of the count-width class boundaries (quick ~2 100 cells); the other lengths of larger symbols follow from the uniform loop body, which is not separately proved."),
 "C07": ("other", "DESIGN.md 3/C07 + 7.2/7.3", "GF(256) table and generator recomputation from the definition + " + PE + " of polynomials::division with the block bytes as free symbols over a GF(2^8)-linear-form domain (zero-coefficient branch evaluated both ways and merged, log/antilog tables recognised by content, every assert decided) for all 13 degrees x every block length in use + the same routine on concrete contents: the single-nonzero-byte basis (all 255 values at the last position, spread values at first/middle), zero-run and fixed dense blocks + buffer obligations over 160 cells + skip-set of the step over all 256 byte values + one-step polynomial algebra + exact placement of the remainder in the codeword sequence (C02.R4)",
         "Tables, generators and the division for every block content of every block length in use are exact (C07.R4); the concrete basis and samples (C07.R3) are a cross-check and the fallback when a rewritten division leaves the linear-form domain (then additivity rests on the step algebra of C07.R2)."),
 "C08": ("other", "DESIGN.md 3/C08 + 7", PE + " of the eight sweeps on symbolic module values (toggled set = ISO Table 10 at every coordinate, value-independent by construction; quick V01-V10, V25, V40 - every coordinate up to 177; thorough all 40) + edge-dominance guard rule + single-source rule for the mask",
         "Exact toggle sets and untouched function modules for every payload; the mask applied is the mask recorded."),
 "C09": ("other", "DESIGN.md 3/C09", "exhaustive folding of classifier and value tables over 256 bytes + " + PE + " of best_encoding over every class pattern up to length 7/8 and on ~6 500 concrete inputs (every byte value alone, beside and between members of each class, triples over class representatives and their aliases modulo 128, inputs up to 7 090 bytes with one deviating byte) + origin analysis of the mode",
         "Classifier and its agreement with the encoder exact for all byte values (when the private classifier is inlined or replaced, through best_encoding on the concrete inputs); the scan exact for all class patterns of short inputs (the property's own quantifier) and on the stated long inputs; other long inputs follow from the uniform loop."),
 "C10": ("other", "DESIGN.md 3/C10", "capacity decision tree + QRCode::new outcome table + buffer-size obligations + accounted panic sites + panic-freedom of the configuration-determined code by " + PE + " + compile witness",
         "Decides the anchored mechanisms (gate, buffers, error type) and that drawing, masking, placement, interleaving and format writing cannot panic for any of the configurations, the GF division for any block content (C07.R4, every assert decided), the encoders on the evaluated length cells; the scorers on arbitrary symbols and the encoders at other lengths are not decided."),
 "C11": ("other", "DESIGN.md 3/C11 + 7.2", PE + " of place_on_matrix with summarised stages and an oracle for the penalties (selection semantics) + " + PE + " of the four penalty terms on complete small domains (every line of up to 11 data modules and every mixed-label line up to 6, every 2x2 symbol and 3x3 families, every dark percentage 0..99, totals on 60 8x8 symbol pairs; beyond the complete domains 147 fixed lines of widths 21..177 and symbols of real sizes with the ISO function-pattern layout) against a model written from the property (a scorer that takes a bound may cut at it: C11.R8 then also plays every scenario with a scorer cutting as low as that contract allows) + data-dependence slices, edge dominance, reaching definitions across the loop back edge (candidate freshness) + scorer constants",
         "Reports the known finding D1 (column penalties computed on an unmasked copy). Selection exact; penalty terms exact on the stated small domains, longer lines and larger symbols follow from the uniform loop bodies (not separately proved)."),
 "C12": ("other", "DESIGN.md 3/C12 + 7.2", "forward taint with decision-table-recognised sanitiser + format-template decoding + " + PE + " of SvgBuilder::to_str with symbolic module values (one sub-path slot per module, taken iff dark, anchored in the cell, per layer) + " + PE + " of every colour conversion over every value of every channel + " + PE + " of to_str with the image option set to each of 116 probe strings, the result parsed as XML (one <image>, href decodes to the probe) + dominance/must-pass-through rules",
         "Exact for every matrix content on 40 (version, margin, layer program) configurations (160 thorough); RGBA colours for every channel value and the image string; free-form colour strings are outside the property; XML parsers are not run."),
 "C13": ("other", "DESIGN.md 3/C13", "sibling-agreement rule over 11 forwarding methods + " + PE + " of the fit setters and of the FitTo decision (11 setter programs) + origin analysis + the SVG document and colour rules of C12 evaluated on the image configuration",
         "Option plumbing, the fit request, the rasterised document and its colours only: pixel values come from resvg/tiny-skia whose bodies are not local MIR."),
 "C14": ("proof", "DESIGN.md 3/C14 + 7.2", "crate-wide fact enumeration (statics, unsafe, type graph through local and dependency type definitions, signatures, call-graph deny-list) + setter algebra by " + PE + " (last value wins, pairwise commutation, build hands on the final values) + Send/Sync and borrow witnesses",
         "Proof modulo: std deterministic, resvg without global state; zero-count rules are exercised on a positive fixture every run; the setter identities are evaluated with two to four values per parameter (including zero, negative and empty ones), every ordered pair for last-value-wins."),
 "C15": ("other", "DESIGN.md 3/C15 + 7", "exhaustive folding of the label encoding + " + PE + " of blank symbol, format writer and placement against the ISO region map + guarded-write rule + callback-argument rule + witnesses",
         "Every module's label for all 40 versions, preserved by every later writer; the module handed to shape callbacks is the one at (row, column)."),
 "C16": ("other", "DESIGN.md 3/C16 + 7", PE + " of the terminal renderer with symbolic module values and symbolic-branch merging (every glyph as a decision table over the two modules in place; quick 8 sizes incl. V39/V40, thorough 40) + no-static rule",
         "The produced text is decided glyph by glyph for every matrix content; a renderer outside the evaluator's language is an abstention."),
 "C17": ("other", "DESIGN.md 3/C17 + 7.2", "host-compiled MIR of wasm.rs under a cfg hook: " + PE + " of SvgOptions::new, 97 setter programs and qr_svg/qr with QRCode::new and to_str summarised, compared field by field with the native builder evaluated by the same engine + the image frame of the renderer on ordinary and degenerate option values (no panic) + trap-call scan, same-vector length-guard dominance, field-length invariant, forwarding table (all inputs)",
         "wasm-bindgen glue and the wasm32 target are not compiled here; option values are a stated list of well-formed, malformed and partial programs, not all strings; the all-input clauses (no trap call, guarded indexing, field lengths) are shape rules."),
 "C18": ("other", "DESIGN.md 3/C18 + 7", PE + " of SvgBuilder::image: frame and image rectangles as numbers for 40 versions x 3 shapes x margins 0..16 (exhaustive for defaults) and a lattice of size/gap/position overrides + degenerate option values (NaN, infinities, larger than the drawing, zero, negative) under a no-panic clause + the setter algebra of the builder (size/gap/position in any order) + folding of image_placement + x/y symmetry",
         "Default placement exact on the property's own finite domain; real-valued overrides are decided on a stated lattice only."),
 "C19": ("other", "DESIGN.md 3/C19 + 7.2", PE + " of both to_file writers with std::fs/std::io modelled under every single-fault schedule (no fault: Ok, one truncating file holding the complete output once, nothing buffered; fault at step k: Err; repeated with long and non-ASCII paths) + error-discipline rule (consumer classification of every io::Result) + dominance of Ok + provenance of written bytes + buffered-writer flush rule + witness",
         "No fault is injected into a running program; the fault schedules are evaluated over the MIR with the I/O API modelled (create/open, write as a partial write, write_all, write_fmt, BufWriter, flush, into_inner, sync, fs::write, save_png, encode_png). Faults inside tiny-skia's save_png are one step of the model."),
}

def main():
    repo_commits = subprocess.run(["git", "-C", "/repo", "log", "--format=%h %s", "93889b3..HEAD"], capture_output=True, text=True).stdout.strip().split("\n")
    hooks = [c.split()[0] for c in repo_commits if "verif hook" in c]
    checks = []
    for pid in sorted(props.PROPS):
        if pid == "DBG":
            continue
        level, dref, tech, note = P[pid]
        doc = props.PROPS[pid].__doc__
        checks.append({
            "property_id": pid,
            "quick_cmd": "./check %s --tier quick" % pid,
            "thorough_cmd": "./check %s --tier thorough" % pid,
            "evidence_file": "/verif/evidence/%s.json" % pid,
            "replay_cmd_template": "./check %s --replay {path}" % pid,
            "engine": "fqr-facts + fqrlint" + (" + witness" if pid in ("C04", "C05", "C10", "C14", "C15", "C19") else ""),
            "level_claimed": {"category": level, "text": note, "design_ref": dref},
            "level_note": NOTE_COMMON + note,
            "technique": "static analysis: " + tech,
        })
    m = {
        "version": 1,
        "setup_cmd": "./setup.sh",
        "hooks": {
            "guard": "fast_qr_verif",
            "enable": "RUSTFLAGS=\"--cfg fast_qr_verif\" cargo +nightly check --features svg (configuration `wasm` of fqrlint/facts.py); all other configurations build without the guard",
            "baseline_off_cmd": "cd /repo && cargo nextest run --workspace --no-fail-fast --offline || cargo test --workspace --lib --no-fail-fast --offline",
            "source_commits": hooks,
            "add_only": True,
        },
        "engines": [
            {"name": "fqr-facts", "path": "driver/", "serves_properties": sorted(P), "kind_free_text": "rustc_private driver: dumps resolved MIR, evaluated constants, ADTs, statics, impls, user-written unsafe as JSON per configuration"},
            {"name": "fqrlint", "path": "fqrlint/", "serves_properties": sorted(P), "kind_free_text": "Python rule engine over the facts: CFG/dominators/edge-dominance, reaching definitions, origins, canonical expressions, polynomial normal form, forward taint, finite-domain folding, decision-tree extraction"},
            {"name": "peval", "path": "fqrlint/peval.py", "serves_properties": ["C01", "C02", "C03", "C04", "C05", "C06", "C07", "C08", "C09", "C10", "C11", "C12", "C13", "C14", "C15", "C16", "C17", "C18"], "kind_free_text": "partial evaluator over MIR for configuration-determined code: constant propagation with loops unrolled, heap arrays, iterator/Option/Result/String models, closures, symbolic payload bits and bytes, symbolic-branch merging at post-dominators; a branch on anything unknown aborts (abstention)"},
            {"name": "witness", "path": "witness/", "serves_properties": ["C04", "C05", "C10", "C14", "C15", "C19"], "kind_free_text": "compile-pass witnesses and compile_fail doctests with compiling twins against the public API"},
            {"name": "fixture", "path": "fixture/", "serves_properties": ["C14", "C17"], "kind_free_text": "positive fixture crate on which the zero-count rules must fire on every run"},
        ],
        "checks": checks,
        "notes": "All checks are static: none builds a test binary or runs compiled fast_qr code (engine E4 evaluates MIR abstractly over the finite configuration space with the payload symbolic, see DESIGN.md 7). Known findings are listed in known_findings.json (one known: C11 D1; three fixed by fix: commits). Exit 2 = machinery error (tree does not compile, driver missing).",
        "not_applicable": [],
    }
    with open(os.path.join(HERE, "MANIFEST.json"), "w") as f:
        json.dump(m, f, indent=1)
    print("wrote MANIFEST.json with %d checks, hooks %s" % (len(checks), hooks))

main()
