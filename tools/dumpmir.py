#!/usr/bin/env python3
"""debug helper: print a function's MIR as extracted by the driver"""
import sys, os, json
sys.path.insert(0, os.path.dirname(os.path.dirname(os.path.abspath(__file__))))
from fqrlint import facts
from fqrlint.mir import place_str, op_str
def rv_str(rv):
    k=rv['k']
    if k=='use': return op_str(rv['op'])
    if k=='ref': return ('&mut ' if rv['mut'] else '&')+place_str(rv['p'])
    if k=='bin': return '%s(%s, %s)'%(rv['op'],op_str(rv['a']),op_str(rv['b']))
    if k=='un': return '%s(%s)'%(rv['op'],op_str(rv['a']))
    if k=='cast': return '%s as %s [%s]'%(op_str(rv['op']),rv['ty'],rv['kind'])
    if k=='discr': return 'discr(%s)'%place_str(rv['p'])
    if k=='agg': return '%s %s%s(%s)'%(rv['agg'],rv.get('path',''),('::'+rv['variant']) if rv.get('variant') else '',', '.join(op_str(o) for o in rv['ops']))
    if k=='copyforderef': return 'deref_copy '+place_str(rv['p'])
    if k=='repeat': return '[%s; %s]'%(op_str(rv['op']),rv['len'])
    return json.dumps(rv)[:120]
def main():
    cfg, pat = sys.argv[1], sys.argv[2]
    f = facts.get(cfg)
    for p, fn in f.fns.items():
        if pat not in p: continue
        print('fn', p, fn.get('inputs'), '->', fn.get('output'))
        for l in fn['locals']:
            if l['kind'] != 'temp' or '-l' in sys.argv: print('   _%d %s %s: %s' % (l['id'], l['kind'], l['name'], l['ty']))
        for b in fn['blocks']:
            if b['cleanup']: continue
            print(' bb%d:' % b['id'])
            for s in b['stmts']:
                if s['k']=='assign': print('    %s = %s   // %s' % (place_str(s['p']), rv_str(s['rv'])[:160], s['line']))
                else: print('    ', s['k'])
            t = b['term']
            if t['k']=='call':
                print('    %s = CALL %s(%s) -> bb%s   // %s %s' % (place_str(t['dest']), t.get('callee') or ('?'+str(t.get('declared'))), ', '.join(op_str(a)[:60] for a in t['args']), t.get('target'), t['line'], ','.join(t.get('macros') or [])))
            elif t['k']=='switch':
                print('    switch %s [%s] else bb%d   // %s' % (op_str(t['op']), ', '.join('%d->bb%d'%(a,b) for a,b in t['arms']), t['otherwise'], t['line']))
            elif t['k']=='assert':
                print('    assert(%s == %s, %s) -> bb%d' % (op_str(t['cond']), t['expected'], t['kind'], t['target']))
            else:
                print('    %s %s' % (t['k'], t.get('target','')))
main()
