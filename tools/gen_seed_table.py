#!/usr/bin/env python3
"""Rewrite the seeded-change table of DESIGN.md (between the SEED-TABLE markers) from /verif/seeded/*/meta.json."""
import glob, json, os, re
HERE = os.path.dirname(os.path.dirname(os.path.abspath(__file__)))
rows = []
tot = hit = 0
for d in sorted(glob.glob(os.path.join(HERE, "seeded", "*"))):
    mp = os.path.join(d, "meta.json")
    if not os.path.exists(mp):
        continue
    m = json.load(open(mp))
    need = (m.get("needs_to_manifest") or "").strip().split("\n")
    what = need[0][:150].replace("|", "/") if need else ""
    prop = m["property"]
    rules = []
    for p in m.get("detected_by", []):
        for r in m["checks"][p].get("rules", []):
            if r not in rules:
                rules.append(r)
    own = m["checks"].get(prop, {}).get("rules", [])
    tot += 1
    hit += 1 if m.get("detected_by_target_property") else 0
    rows.append("| %s | %s | %s | %s | %s |" % (m["id"], what, "yes: " + ", ".join(own[:3]) if m.get("detected_by_target_property") else "**no**",
                                              ", ".join(m.get("detected_by", [])) or "-", ", ".join(rules[:4])))
table = "| id | change (first line of the author's note) | reported by its own property's check | reported by | rules |\n|---|---|---|---|---|\n" + "\n".join(rows)
table += "\n\n%d of %d kept changes are reported by the check of the property they were written against; %d by at least one check.\n" % (
    hit, tot, sum(1 for r in rows if "| - |" not in r))
p = os.path.join(HERE, "DESIGN.md")
s = open(p).read()
s = re.sub(r"<!-- SEED-TABLE-BEGIN -->.*<!-- SEED-TABLE-END -->", "<!-- SEED-TABLE-BEGIN -->\n" + table + "<!-- SEED-TABLE-END -->", s, flags=re.S)
open(p, "w").write(s)
print("seed table: %d rows, %d by own property" % (tot, hit))
