#!/usr/bin/env python3
"""Process one seeded change: apply it to a fresh scratch worktree, confirm it builds and the pinned
174-test suite passes, run every check against it, print which rules fire.  The demonstration is run
separately (tools/seeddemo.sh) because its form differs per change.
usage: seedproc.py <patch.diff> [--props C01,C02] [--keep]"""
import json, os, re, shutil, subprocess, sys, tempfile
patch = os.path.abspath(sys.argv[1])
props = None
if "--props" in sys.argv:
    props = sys.argv[sys.argv.index("--props") + 1].split(",")
keep = "--keep" in sys.argv
d = tempfile.mkdtemp(prefix="fqr-seed-")
wt = os.path.join(d, "repo")
res = {"patch": patch}
try:
    subprocess.run(["git", "-C", "/repo", "worktree", "add", "--detach", "-q", wt, "HEAD"], check=True)
    r = subprocess.run(["git", "-C", wt, "apply", patch], capture_output=True, text=True)
    if r.returncode:
        print("PATCH DOES NOT APPLY:", r.stderr); sys.exit(3)
    files = subprocess.run(["git", "-C", wt, "diff", "--stat"], capture_output=True, text=True).stdout
    res["files"] = files.strip().split("\n")[:-1]
    env = dict(os.environ, CARGO_NET_OFFLINE="true", CARGO_TARGET_DIR=os.path.join(d, "target"))
    feat = []
    if "convert/" in files: feat = ["--features", "image"]
    elif "wasm.rs" in files: feat = ["--features", "svg"]
    if not "--nobuild" in sys.argv:
        t = subprocess.run(["cargo", "test", "--lib", "--offline"], cwd=wt, env=env, capture_output=True, text=True)
        m = re.search(r"test result: (\w+)\. (\d+) passed; (\d+) failed", t.stdout)
        res["tests_default"] = m.group(0) if m else ("BUILD FAILED: " + t.stderr[-600:])
        if feat:
            e2 = dict(env)
            if "wasm.rs" in files: e2["RUSTFLAGS"] = "--cfg fast_qr_verif"
            t = subprocess.run(["cargo", "test", "--lib", "--offline"] + feat, cwd=wt, env=e2, capture_output=True, text=True)
            m = re.search(r"test result: (\w+)\. (\d+) passed; (\d+) failed", t.stdout)
            res["tests_features"] = m.group(0) if m else ("BUILD FAILED: " + t.stderr[-600:])
    fired = {}
    allp = props or ["C%02d" % i for i in range(1, 20)]
    for pr in allp:
        c = subprocess.run(["/verif/check", pr, "--repo", wt], capture_output=True, text=True, cwd="/verif")
        keys = re.findall(r"VIOLATION property=\S+ replay=\S+/replay/[A-Z0-9]+-(\S+)\.json", c.stdout)
        und = re.findall(r"UNDECIDED rule=(\S+)", c.stdout)
        mach = "MACHINERY" in (c.stdout + c.stderr)
        if keys or und or mach or c.returncode not in (0,):
            fired[pr] = {"exit": c.returncode, "violations": keys[:8], "n": len(keys), "undecided": und[:4], "machinery": (c.stderr[-300:] if mach else None)}
    res["fired"] = fired
    print(json.dumps(res, indent=1))
finally:
    if not keep:
        subprocess.run(["git", "-C", "/repo", "worktree", "remove", "--force", wt], capture_output=True)
        subprocess.run(["git", "-C", "/repo", "worktree", "prune"], capture_output=True)
        shutil.rmtree(d, ignore_errors=True)
    else:
        print("kept", wt)
