#!/usr/bin/env python3
"""Re-run every check against every kept seeded change (patch only; the demonstrations were confirmed when the change was kept)
and refresh the `checks` / `detected_by` fields of its meta.json.
usage: seedrecheck.py [id-prefix ...]"""
import glob, json, os, re, subprocess, sys, tempfile, shutil
from concurrent.futures import ThreadPoolExecutor


def run_all(wt, only=None):
    """all 19 properties in one process (shared facts and partial-evaluation results); -> {prop: (rc, keys, rules, undecided)}"""
    import os, re, subprocess
    env = dict(os.environ) if not os.environ.get("SEED_GEOM_ALL") else dict(os.environ, FQR_GEOM_ALL="1")
    cmd = ["/verif/check", "ALL", "--repo", wt] + (["--only", ",".join(sorted(only))] if only else [])
    c = subprocess.run(cmd, capture_output=True, text=True, cwd="/verif", env=env)
    out = {}
    for m in re.finditer(r"^==== (C\d\d)\n(.*?)^==== \1 exit=(\d)", c.stdout, re.S | re.M):
        pr, body, rc = m.group(1), m.group(2), int(m.group(3))
        keys = re.findall(r"VIOLATION property=\S+ replay=\S+/replay/[A-Z0-9]+-(\S+)\.json", body)
        rules = sorted(set(re.findall(r"^  rule=(\S+)", body, re.M)))
        und = re.findall(r"UNDECIDED rule=(\S+) (.*)", body)
        mach = re.findall(r"MACHINERY-ERROR.*", body)
        out[pr] = (rc, keys, rules, und, mach)
    if len(out) != (len(only) if only else 19):
        out["_error"] = (2, [], [], [], [c.stdout[-300:] + c.stderr[-300:]])
    return out


def one(d):
    sid = os.path.basename(d)
    patch = os.path.join(d, "patch.diff")
    meta = json.load(open(os.path.join(d, "meta.json")))
    tmp = tempfile.mkdtemp(prefix="fqr-seedre-")
    wt = os.path.join(tmp, "repo")
    try:
        for attempt in range(6):
            a_ = subprocess.run(["git", "-C", "/repo", "worktree", "add", "--detach", "-q", wt, "HEAD"], capture_output=True, text=True)
            if a_.returncode == 0:
                break
            import time as _t
            _t.sleep(1 + attempt)  # another thread holds the worktree lock (add / prune)
        else:
            return sid, "WORKTREE ERROR " + a_.stderr[:120]
        a = subprocess.run(["git", "-C", wt, "apply", patch], capture_output=True, text=True)
        if a.returncode:
            return sid, "PATCH DOES NOT APPLY"
        fired = {}
        only = None
        if os.environ.get("SEED_OWN_ONLY"):
            only = {meta["property"]}
        elif not os.environ.get("SEED_ALL_PROPS"):
            only = set(meta.get("detected_by", [])) | {meta["property"]}
        res = run_all(wt, only)
        for pr, (rc, keys, rules, und, mach) in sorted(res.items()):
            if keys or rc:
                fired[pr] = {"exit": rc, "rules": rules, "violations": keys[:6], "undecided": sorted({u[0] for u in und})[:4]}
        if os.environ.get("SEED_OWN_ONLY"):
            # keep what earlier runs recorded for the properties not re-run
            for pr, v in (meta.get("checks") or {}).items():
                if pr not in res:
                    fired.setdefault(pr, v)
        meta["checks"] = fired
        meta["detected_by"] = sorted(p for p, v in fired.items() if v["violations"])
        meta["detected_by_target_property"] = meta["property"] in meta["detected_by"]
        meta["machinery_errors"] = sorted(p for p, v in fired.items() if v["exit"] == 2)
        json.dump(meta, open(os.path.join(d, "meta.json"), "w"), indent=1)
        return sid, "%s target=%s by=%s%s" % ("ok", meta["detected_by_target_property"], meta["detected_by"],
                                             (" MACHINERY " + str(meta["machinery_errors"])) if meta["machinery_errors"] else "")
    finally:
        subprocess.run(["git", "-C", "/repo", "worktree", "remove", "--force", wt], capture_output=True)
        subprocess.run(["git", "-C", "/repo", "worktree", "prune"], capture_output=True)
        shutil.rmtree(tmp, ignore_errors=True)


def main():
    pref = sys.argv[1:]
    dirs = sorted(d for d in glob.glob("/verif/seeded/*") if os.path.isdir(d) and (not pref or any(os.path.basename(d).startswith(p) for p in pref)))
    with ThreadPoolExecutor(int(os.environ.get("SEED_THREADS", "4"))) as ex:
        for sid, res in ex.map(one, dirs):
            print(sid, res)
            sys.stdout.flush()


main()
