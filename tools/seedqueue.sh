#!/bin/sh
# process every delivered seeded change not yet verified, 4 properties at a time; log to /tmp/sv/queue.log
mkdir -p /tmp/sv
ls -d ${SEED_ROOT:-/tmp/seed}/C*-out | sed 's#.*/##; s/-out//' | xargs -P 4 -I{} sh -c '
  p={}
  for d in ${SEED_ROOT:-/tmp/seed}/$p-out/m*; do
    [ -f "$d/patch.diff" ] || continue
    m=$(basename $d)
    [ -f "/tmp/sv/${SEED_TAG:-m}-$p-$m.json" ] && continue
    python3 /verif/tools/seedverify.py $p $m > /tmp/sv/${SEED_TAG:-m}-$p-$m.json 2>&1
    { echo "=== $p $m $(date +%T)"; tail -25 /tmp/sv/${SEED_TAG:-m}-$p-$m.json | grep -E "confirmed|detected|^  C"; } >> /tmp/sv/queue.log
  done'
echo "=== queue pass done $(date +%T)" >> /tmp/sv/queue.log
