#!/bin/sh
# process every delivered seeded change not yet verified; log to /tmp/sv/queue.log
mkdir -p /tmp/sv
for d in /tmp/seed/C*-out/m*; do
  [ -f "$d/patch.diff" ] || continue
  p=$(basename $(dirname $d) | sed 's/-out//'); m=$(basename $d)
  [ -f "/tmp/sv/$p-$m.json" ] && continue
  echo "=== $p $m $(date +%T)" >> /tmp/sv/queue.log
  python3 /verif/tools/seedverify.py $p $m > /tmp/sv/$p-$m.json 2>&1
  tail -25 /tmp/sv/$p-$m.json | grep -E "confirmed|detected|^  C" >> /tmp/sv/queue.log
done
echo "=== queue pass done $(date +%T)" >> /tmp/sv/queue.log
