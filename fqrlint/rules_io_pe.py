"""C19.R4: file output under every single-fault schedule, by partial evaluation (engine E4).

The writers are evaluated with the document / pixmap producers summarised (a fixed byte string, an opaque pixmap token) and with a
small model of std::fs / std::io in which the k-th fallible operation fails (k = 0: none fails):

  File::create / OpenOptions::open / fs::write / write_all / write_fmt / flush / sync_all / BufWriter::into_inner / save_png

A BufWriter keeps what was written to it until it is flushed (what a drop would write is lost if that write fails, so bytes still
buffered when the function returns count as not written).  Required:
  * no fault            -> Ok(()), exactly one file, opened so that old content cannot survive (create/truncate), holding exactly the
                           producer's bytes once and in order, nothing left in a buffer;
  * fault at step k     -> Err(_), for every k.
"""
from .fold import TOP, mk_int, mk_bool
from . import peval
from .peval import _deref_all, _seq_items, NONE, some, UNIT
from .rules_tables import anchor_fn, where_fn

RESULT = "std::result::Result"
DOC = "<svg viewBox=\"0 0 3 3\">DOC&amp;é</svg>"


class _IO:
    def __init__(self, fail_at):
        self.fail_at = fail_at
        self.count = 0
        self.files = {}
        self.bufs = {}
        self.opts = {}
        self.ops = []

    def step(self, what):
        """-> True when this fallible operation succeeds"""
        self.count += 1
        self.ops.append(what)
        return self.count != self.fail_at


def _ok(v):
    return ("adt", RESULT, 0, "Ok", (v,))


def _err():
    return ("adt", RESULT, 1, "Err", (("tok", "io::Error"),))


def _install(pe, io):
    def path_of(pe_, st, a):
        return peval._pystr(pe_, st, a) or "?"

    def new_file(path, truncated):
        fid = len(io.files) + 1
        io.files[fid] = {"path": path, "truncated": truncated, "content": []}
        return ("tok", ("file", fid))

    def s_create(pe_, st, args, t):
        if not io.step("File::create"):
            return _err()
        return _ok(new_file(path_of(pe_, st, args[0]), True))

    def s_oo_new(pe_, st, args, t):
        oid = len(io.opts) + 1
        io.opts[oid] = {}
        return ("tok", ("oo", oid))

    def s_oo_set(pe_, st, args, t):
        nm = (t.get("callee") or "").rsplit("::", 1)[1]
        o = _deref_all(pe_, st, args[0])
        b = args[1]
        if o == TOP or o[0] != "tok" or o[1][0] != "oo" or b == TOP or b[0] != "bool":
            raise peval._Abort("top", "OpenOptions with unknown settings")
        io.opts[o[1][1]][nm] = b[1]
        return args[0]

    def s_oo_open(pe_, st, args, t):
        o = _deref_all(pe_, st, args[0])
        if o == TOP or o[0] != "tok" or o[1][0] != "oo":
            raise peval._Abort("top", "open() on unknown OpenOptions")
        if not io.step("OpenOptions::open"):
            return _err()
        od = io.opts[o[1][1]]
        if not (od.get("write") or od.get("append")):
            raise peval._Abort("top", "file opened without write access")
        return _ok(new_file(path_of(pe_, st, args[1]), bool(od.get("truncate") or od.get("create_new")) and not od.get("append")))

    def sink(pe_, st, w):
        w = _deref_all(pe_, st, w)
        if w != TOP and w[0] == "tok" and w[1][0] in ("file", "bufw"):
            return w[1]
        raise peval._Abort("top", "write to something that is not a modelled file or buffered writer")

    def put(kind_id, data):
        if kind_id[0] == "file":
            io.files[kind_id[1]]["content"] += data
        else:
            io.bufs[kind_id[1]]["buf"] += data

    def s_write_all(pe_, st, args, t):
        k = sink(pe_, st, args[0])
        items = _seq_items(pe_, _deref_all(pe_, st, args[1]))
        if items is None or any(x == TOP or x[0] != "int" for x in items):
            raise peval._Abort("top", "write_all of unknown bytes")
        data = [x[2] for x in items]
        if k[0] == "file":
            if not io.step("write_all"):
                put(k, data[:len(data) // 2])  # a failed write may have written a part
                return _err()
        put(k, data)
        return _ok(UNIT)

    def s_write(pe_, st, args, t):
        # Write::write may write only a part of the buffer: the model writes half (at least one byte) and says so
        k = sink(pe_, st, args[0])
        items = _seq_items(pe_, _deref_all(pe_, st, args[1]))
        if items is None or any(x == TOP or x[0] != "int" for x in items):
            raise peval._Abort("top", "write of unknown bytes")
        data = [x[2] for x in items]
        if k[0] == "file" and not io.step("write"):
            return _err()
        n = (len(data) + 1) // 2
        put(k, data[:n])
        return _ok(mk_int("usize", n))

    def s_write_fmt(pe_, st, args, t):
        k = sink(pe_, st, args[0])
        a = args[1]
        txt = None
        if a != TOP and a[0] == "fmtargs":
            try:
                r = peval._fmt_format(pe_, st, [a], t)
                txt = peval._pystr(pe_, st, r)
            except peval._Abort:
                txt = None
        if txt is None:
            raise peval._Abort("top", "write! of unknown text")
        data = list(txt.encode())
        if k[0] == "file":
            if not io.step("write_fmt"):
                return _err()
        put(k, data)
        return _ok(UNIT)

    def s_bufw_new(pe_, st, args, t):
        inner = args[-1]
        if inner == TOP or inner[0] != "tok" or inner[1][0] != "file":
            raise peval._Abort("top", "BufWriter over something that is not a modelled file")
        bid = len(io.bufs) + 1
        io.bufs[bid] = {"inner": inner[1][1], "buf": []}
        return ("tok", ("bufw", bid))

    def s_flush(pe_, st, args, t):
        k = sink(pe_, st, args[0])
        if not io.step("flush"):
            return _err()
        if k[0] == "bufw":
            b = io.bufs[k[1]]
            io.files[b["inner"]]["content"] += b["buf"]
            b["buf"] = []
        return _ok(UNIT)

    def s_into_inner(pe_, st, args, t):
        k = sink(pe_, st, args[0])
        if k[0] != "bufw":
            raise peval._Abort("top", "into_inner on a file")
        if not io.step("into_inner"):
            return _err()
        b = io.bufs[k[1]]
        io.files[b["inner"]]["content"] += b["buf"]
        b["buf"] = []
        return _ok(("tok", ("file", b["inner"])))

    def s_sync(pe_, st, args, t):
        sink(pe_, st, args[0])
        return _ok(UNIT) if io.step("sync") else _err()

    def s_fs_write(pe_, st, args, t):
        items = _seq_items(pe_, _deref_all(pe_, st, args[1]))
        if items is None:
            s_ = peval._pystr(pe_, st, args[1])
            items = [mk_int("u8", b) for b in s_.encode()] if s_ is not None else None
        if items is None or any(x == TOP or x[0] != "int" for x in items):
            raise peval._Abort("top", "fs::write of unknown bytes")
        if not io.step("fs::write(create)"):
            return _err()
        f_ = new_file(path_of(pe_, st, args[0]), True)
        if not io.step("fs::write(write)"):
            return _err()
        io.files[f_[1][1]]["content"] += [x[2] for x in items]
        return _ok(UNIT)

    def s_save_png(pe_, st, args, t):
        px = _deref_all(pe_, st, args[0])
        if not io.step("save_png"):
            return ("adt", RESULT, 1, "Err", (("tok", "png::EncodingError"),))
        f_ = new_file(path_of(pe_, st, args[1]), True)
        io.files[f_[1][1]]["content"] += [("png", px)]
        return _ok(UNIT)

    def s_encode_png(pe_, st, args, t):
        px = _deref_all(pe_, st, args[0])
        if not io.step("encode_png"):
            return ("adt", RESULT, 1, "Err", (("tok", "png::EncodingError"),))
        return _ok(peval._vec_of(pe_, [mk_int("u8", b) for b in b"\x89PNG-of-the-pixmap"]))

    S = pe.summaries
    S["std::fs::File::create"] = s_create
    S["std::fs::OpenOptions::new"] = s_oo_new
    S["std::fs::File::options"] = s_oo_new
    for nm in ("write", "create", "truncate", "append", "create_new", "read"):
        S["std::fs::OpenOptions::" + nm] = s_oo_set
    S["std::fs::OpenOptions::open"] = s_oo_open
    for nm in ("std::io::Write::write_all", "<std::fs::File as std::io::Write>::write_all", "<std::io::BufWriter<W> as std::io::Write>::write_all"):
        S[nm] = s_write_all
    for nm in ("std::io::Write::write", "<std::fs::File as std::io::Write>::write", "<std::io::BufWriter<W> as std::io::Write>::write"):
        S[nm] = s_write
    for nm in ("std::io::Write::write_fmt", "<std::fs::File as std::io::Write>::write_fmt", "<std::io::BufWriter<W> as std::io::Write>::write_fmt"):
        S[nm] = s_write_fmt
    S["std::io::BufWriter::<W>::new"] = s_bufw_new
    S["std::io::BufWriter::<W>::with_capacity"] = s_bufw_new
    for nm in ("std::io::Write::flush", "<std::fs::File as std::io::Write>::flush", "<std::io::BufWriter<W> as std::io::Write>::flush"):
        S[nm] = s_flush
    S["std::io::BufWriter::<W>::into_inner"] = s_into_inner
    S["std::fs::File::sync_all"] = s_sync
    S["std::fs::File::sync_data"] = s_sync
    S["std::fs::write"] = s_fs_write
    S["resvg::tiny_skia::Pixmap::save_png"] = s_save_png
    S["resvg::tiny_skia::Pixmap::encode_png"] = s_encode_png


LONG_PATHS = ["d/" + "\u00e9" * 60 + ".x", "d/a" + "\u00e9" * 60 + ".x", "\u65e5" * 45, "a" + "\u65e5" * 45, "ab" + "\u65e5" * 45,
              "dir/" + "n" * 300 + ".ext", "\U0001f600" * 30 + "/f", "x" + "\U0001f600" * 30, "xy" + "\U0001f600" * 30, "xyz" + "\U0001f600" * 30]


def _run(f, path, fail_at, builder_ctor, produce, want_doc=False, configured=False, file_path="out/file.ext"):
    """-> (result, io model, expected document bytes | None)"""
    pe = peval.PEval(f, max_steps=30_000_000)
    b = pe.call(builder_ctor, [])
    q = pe.call("qr::QRCode::default", [mk_int("usize", 21)])
    if b.kind != "ret" or b.value == TOP or q.kind != "ret" or q.value == TOP:
        return None, None, None
    if configured:
        # a builder with an embedded image, a margin and two layers: the option-dependent parts of the document are written too
        adt = b.value[1]
        shape = "convert::Shape"
        names = [v["name"] for v in f.adts[shape]["variants"]] if shape in f.adts else []
        calls = [("margin", [mk_int("usize", 2)]), ("image", [("string", tuple(ord(c) for c in "logo \"a\"&b.png"))])]
        for nm in ("Circle", "Diamond"):
            if nm in names:
                v = ("enum", shape, nm) if all(not x["fields"] for x in f.adts[shape]["variants"]) else ("adt", shape, names.index(nm), nm, ())
                calls.append(("shape", [v]))
        cur = b.value
        for nm, args in calls:
            r = pe.call("<%s as convert::Builder>::%s" % (adt, nm), [("cell", 0)] + args, cells=[cur])
            if r.kind != "ret" or not r.cells or r.cells[0] == TOP:
                return None, None, None
            cur = r.cells[0]
        b = type("R", (), {"value": cur})()
    doc = None
    if want_doc:
        # the document the same builder renders for the same symbol: what the file must hold
        d = pe.call("convert::svg::SvgBuilder::to_str", [("ref", ("const", b.value)), ("ref", ("const", q.value))])
        s_ = peval._pystr(pe, None, d.value) if d.kind == "ret" and d.value != TOP else None
        if s_ is None:
            return None, None, None
        doc = list(s_.encode())
    pe.lenient = True  # error values are built by external constructors (io::Error::new, to_string): opaque
    io = _IO(fail_at)
    _install(pe, io)
    for name, model in produce.items():
        pe.summaries[name] = model
    pe.memo = {}
    r = pe.call(path, [("ref", ("const", b.value)), ("ref", ("const", q.value)), ("ref", ("const", ("str", file_path)))])
    return r, io, doc


def c19_r4(ctx, f, rid="C19.R4"):
    ctx.rule(rid, "file writers under every single-fault schedule, by partial evaluation with std::fs/std::io modelled: without a fault "
                  "Ok and exactly one truncating file holding the producer's bytes once, nothing left in a buffer; with the k-th fallible "
                  "operation failing, Err")
    targets = []
    if f.fn("convert::svg::SvgBuilder::to_file"):
        targets.append(("convert::svg::SvgBuilder::to_file", "<convert::svg::SvgBuilder as std::default::Default>::default", {}, True))
    if f.fn("convert::image::ImageBuilder::to_file"):
        targets.append(("convert::image::ImageBuilder::to_file", "<convert::image::ImageBuilder as std::default::Default>::default",
                        {"convert::image::ImageBuilder::to_pixmap": lambda pe, st, a, t: ("tok", "PIXMAP")}, False))
    if not targets:
        ctx.abstain(rid, "no to_file in this configuration")
        return None
    decided = True
    for path, ctor, produce, is_doc, configured in [t + (c,) for t in targets for c in (False, True)]:
        fn = f.fn(path)
        ctx.analysed(fn)
        cfgname = "configured builder" if configured else "default builder"
        r0, io0, want = _run(f, path, 0, ctor, produce, is_doc, configured)
        if r0 is None:
            ctx.abstain(rid, "%s: the builder's default value / the document does not fold" % path, where_fn(fn))
            decided = False
            continue
        if r0.kind == "diverge":
            ctx.fail(rid, path + "/panics", where_fn(fn), path, "no fault", "the writer panics", found=r0.why)
            continue
        if r0.kind != "ret" or r0.value == TOP or r0.value[0] != "adt" or r0.value[1] != RESULT:
            ctx.abstain(rid, "%s does not fold: %s" % (path, r0.why or "result is not a known Result"), where_fn(fn))
            decided = False
            continue
        nops = io0.count
        ok = True
        if r0.value[3] != "Ok":
            ctx.fail(rid, path + "/no-fault-err", where_fn(fn), path, "no fault", "the writer reports an error although nothing failed",
                     found=str(r0.value)[:120])
            ok = False
        files = io0.files
        if len(files) != 1:
            ctx.fail(rid, path + "/files", where_fn(fn), path, "no fault", "the writer does not produce exactly one file", expected=1, found=len(files))
            ok = False
        else:
            fl = list(files.values())[0]
            if not fl["truncated"]:
                ctx.fail(rid, path + "/truncate", where_fn(fn), path, "open mode",
                         "the file is opened without truncation: a longer file already at that path keeps its tail after the new content",
                         expected="File::create / truncate(true)", found=io0.ops)
                ok = False
            if fl["path"] != "out/file.ext":
                ctx.fail(rid, path + "/path", where_fn(fn), path, "path", "the file written is not the path requested", expected="out/file.ext", found=fl["path"])
                ok = False
            exp = want if want is not None else [("png", ("tok", "PIXMAP"))]
            alt = list(b"\x89PNG-of-the-pixmap") if want is None else None
            if fl["content"] != exp and fl["content"] != alt and not sum(len(b["buf"]) for b in io0.bufs.values()):
                ctx.fail(rid, path + "/content", where_fn(fn), path, "file content",
                         "the bytes in the file when Ok is returned are not the producer's output, complete, once, in order",
                         expected="%d bytes" % len(alt if (alt and fl["content"] and isinstance(fl["content"][0], int)) else exp),
                         found="%d bytes%s" % (len(fl["content"]), " (a prefix)" if fl["content"] in (exp[:len(fl["content"])], (alt or [])[:len(fl["content"])]) else ""))
                ok = False
        left = sum(len(b["buf"]) for b in io0.bufs.values())
        if left:
            ctx.fail(rid, path + "/flush", where_fn(fn), path, "buffered writer",
                     "bytes are still in a BufWriter when Ok is returned: the write that happens on drop cannot report its failure",
                     expected="flush()/into_inner() checked before Ok", found="%d bytes buffered" % left)
            ok = False
        if ok:
            ctx.ok(rid, "%s (%s): no fault -> Ok, one truncating file with the complete output (%d fallible operations)" % (path.split("::")[-2], cfgname, nops))
        for k in range(1, nops + 1):
            r, io, _ = _run(f, path, k, ctor, produce, False, configured)
            what = io.ops[k - 1] if len(io.ops) >= k else "?"
            if r.kind == "diverge":
                ctx.fail(rid, "%s/fault/%s/panics" % (path, what), where_fn(fn), path, "fault at step %d (%s)" % (k, what), "the writer panics on an I/O error", found=r.why)
            elif r.kind != "ret" or r.value == TOP or r.value[0] != "adt" or r.value[1] != RESULT:
                ctx.abstain(rid, "%s with a fault at step %d (%s) does not fold: %s" % (path, k, what, r.why), where_fn(fn))
                decided = False
            elif r.value[3] != "Err":
                ctx.fail(rid, "%s/fault/%s/ok" % (path, what), where_fn(fn), path, "fault at step %d (%s)" % (k, what),
                         "the writer returns Ok although an I/O operation failed", expected="Err(_)", found="Ok")
            else:
                ctx.ok(rid, "%s: fault at %s -> Err" % (path.split("::")[-2], what))
        # long and non-ASCII paths (every alignment of 2-, 3- and 4-byte characters against any byte offset): the same outcomes
        if not configured:
            for lp in LONG_PATHS:
                shown = lp[:6] + "...(%d bytes)" % len(lp.encode())
                for k in range(0, nops + 1):
                    r, io, _ = _run(f, path, k, ctor, produce, False, False, file_path=lp)
                    what = "no fault" if k == 0 else (io.ops[k - 1] if len(io.ops) >= k else "?")
                    if r is None:
                        continue
                    if r.kind == "diverge":
                        ctx.fail(rid, "%s/long-path/%s/panics" % (path, "fault" if k else "no-fault"), where_fn(fn), path,
                                 "path %s, %s" % (shown, what), "the writer panics for a long or non-ASCII path", found=r.why)
                        break
                    if r.kind != "ret" or r.value == TOP or r.value[0] != "adt" or r.value[1] != RESULT:
                        continue  # no verdict for this path
                    want_v = "Ok" if k == 0 else "Err"
                    if r.value[3] != want_v:
                        ctx.fail(rid, "%s/long-path/%s" % (path, want_v.lower()), where_fn(fn), path, "path %s, %s" % (shown, what),
                                 "the outcome depends on the path's length or characters", expected=want_v, found=r.value[3])
                        break
                    if k == 0 and (len(io.files) != 1 or list(io.files.values())[0]["path"] != lp):
                        ctx.fail(rid, "%s/long-path/path" % path, where_fn(fn), path, "path %s" % shown, "the file written is not the path requested",
                                 expected=lp[:40], found=[x["path"][:40] for x in io.files.values()])
                        break
                else:
                    ctx.ok(rid, "%s: path %s behaves as the short one under every schedule" % (path.split("::")[-2], shown))
    return decided
