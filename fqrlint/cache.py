"""Content-addressed memo of the heavy partial-evaluation job pools.

Several properties share the same exact rules (the geometry of C01/C03/C04/C08/C10/C15, the encoders of C01/C06/C10, the gate of
C04/C05/C10, the division of C01/C02/C07/C10 ...).  The outcome of such a job pool is a pure function of
  * the facts extracted from /repo's working tree by THIS run of the driver (hashed without the run's nonce and timing),
  * the rule engine's own source,
  * the job list and the parameters of the rule.
Every check still runs the driver on the current tree first; only when the facts are byte-for-byte those of an earlier run (same
sources, same configuration, same compiler) is a stored pool result reused.  Any change to the crate's source or to the engine gives
a different key.  FQR_NO_CACHE=1 disables reuse.
"""
import glob
import hashlib
import json
import multiprocessing
import os
import pickle
import time

HERE = os.path.dirname(os.path.abspath(__file__))
DIR = os.path.join(os.path.dirname(HERE), ".cache", "memo")
_code_hash = None
KEEP = 60  # entries
EVENTS = {}  # kind -> how this run obtained the pool's result (reported in the evidence file)


def code_hash():
    global _code_hash
    if _code_hash is None:
        h = hashlib.sha256()
        for p in sorted(glob.glob(os.path.join(HERE, "*.py"))):
            with open(p, "rb") as fh:
                h.update(p.encode() + b"\0" + fh.read())
        drv = os.path.join(os.path.dirname(HERE), "driver", "src", "main.rs")
        if os.path.exists(drv):
            with open(drv, "rb") as fh:
                h.update(fh.read())
        _code_hash = h.hexdigest()
    return _code_hash


def facts_hash(f):
    hh = getattr(f, "_content_hash", None)
    if hh is None:
        raw = getattr(f, "raw", None)
        if raw is None:
            return None
        meta = {k: v for k, v in raw.get("meta", {}).items() if k not in ("nonce", "extract_s")}
        h = hashlib.sha256()
        h.update(json.dumps(meta, sort_keys=True, default=str).encode())
        for k in sorted(raw):
            if k == "meta":
                continue
            h.update(k.encode())
            h.update(json.dumps(raw[k], sort_keys=True, default=str).encode())
        hh = f._content_hash = h.hexdigest()
    return hh


def memo(f, kind, params, compute):
    fh = None if os.environ.get("FQR_NO_CACHE") else facts_hash(f)
    if fh is None:
        return compute()
    key = hashlib.sha256(("%s|%s|%s|%s" % (fh, code_hash(), kind, repr(params))).encode()).hexdigest()[:40]
    path = os.path.join(DIR, "%s-%s.pkl" % (kind, key))
    if os.path.exists(path):
        try:
            with open(path, "rb") as fhd:
                val = pickle.load(fhd)
            os.utime(path, None)
            EVENTS[kind] = "reused: facts identical (content hash %s) to an earlier run of this engine, whose job-pool result is taken" % fh[:12]
            return val
        except Exception:  # noqa: BLE001  (a torn or foreign file: recompute)
            pass
    val = compute()
    EVENTS[kind] = "evaluated in this run (facts content hash %s)" % fh[:12]
    try:
        os.makedirs(DIR, exist_ok=True)
        tmp = "%s.%d.tmp" % (path, os.getpid())
        with open(tmp, "wb") as fhd:
            pickle.dump(val, fhd, protocol=pickle.HIGHEST_PROTOCOL)
        os.replace(tmp, path)
        ents = sorted(glob.glob(os.path.join(DIR, "*.pkl")), key=os.path.getmtime)
        for old in ents[:-KEEP]:
            try:
                os.remove(old)
            except OSError:
                pass
        for stale in glob.glob(os.path.join(DIR, "*.tmp")):
            if time.time() - os.path.getmtime(stale) > 3600:
                try:
                    os.remove(stale)
                except OSError:
                    pass
    except Exception:  # noqa: BLE001  (the memo is an optimisation only)
        pass
    return val


def pmap(f, kind, job_fn, jobs, params=None, chunksize=1, procs=16):
    """pool.map(job_fn, jobs) in forked workers, memoised on (facts, engine, kind, jobs, params)"""
    jobs = list(jobs)

    def compute():
        n = min(procs, len(jobs) or 1, os.cpu_count() or 1)
        if n <= 1:
            return [job_fn(j) for j in jobs]
        mp = multiprocessing.get_context("fork")
        with mp.Pool(n) as pool:
            return pool.map(job_fn, jobs, chunksize=chunksize)
    return memo(f, kind, (jobs, params), compute)


def pmap_each(f, kind, job_fn, jobs, procs=16):
    """as pmap, but every job is memoised on its own (one bundle file per kind): rules that need different subsets of the same job
    family share what they have in common"""
    jobs = list(jobs)
    fh = None if os.environ.get("FQR_NO_CACHE") else facts_hash(f)

    def run(js):
        n = min(procs, len(js) or 1, os.cpu_count() or 1)
        if n <= 1:
            return [job_fn(j) for j in js]
        mp = multiprocessing.get_context("fork")
        with mp.Pool(n) as pool:
            return pool.map(job_fn, js, chunksize=1)
    if fh is None:
        return run(jobs)
    key = hashlib.sha256(("%s|%s|%s" % (fh, code_hash(), kind)).encode()).hexdigest()[:40]
    path = os.path.join(DIR, "%s-each-%s.pkl" % (kind, key))
    have = {}
    if os.path.exists(path):
        try:
            with open(path, "rb") as fhd:
                have = pickle.load(fhd)
        except Exception:  # noqa: BLE001
            have = {}
    miss = [j for j in jobs if repr(j) not in have]
    if miss:
        for j, r in zip(miss, run(miss)):
            have[repr(j)] = r
        try:
            os.makedirs(DIR, exist_ok=True)
            tmp = "%s.%d.tmp" % (path, os.getpid())
            with open(tmp, "wb") as fhd:
                pickle.dump(have, fhd, protocol=pickle.HIGHEST_PROTOCOL)
            os.replace(tmp, path)
        except Exception:  # noqa: BLE001
            pass
    EVENTS[kind] = "%d of %d jobs evaluated in this run, %d reused from an earlier run of this engine on identical facts (content hash %s)" % (
        len(miss), len(jobs), len(jobs) - len(miss), fh[:12])
    return [have[repr(j)] for j in jobs]
