"""C12 (SVG output), C18 (image frame), C19 (file output) rules."""
import re

from .mir import subexprs, expr_str, place_str, unname
from .rules_tables import anchor_fn, where_fn, args_for, retval
from .rules_flow import contains, ret_points, strip_refs, call_name_of_def, def_of
from . import fold, poly, reference as ref, strflow
from .fold import TOP, mk_enum, mk_int, to_py

SVGB = "convert::svg::SvgBuilder"
SHAPE = "convert::Shape"
IBS = "convert::ImageBackgroundShape"
ZERO_PAD = 1 << 24

TRANSPARENT = {
    "std::option::Option::<T>::as_ref", "std::option::Option::<T>::unwrap", "std::option::Option::<T>::expect",
    "std::option::Option::<T>::unwrap_or", "<std::string::String as std::ops::Deref>::deref",
    "core::fmt::rt::Argument::<'_>::new_display", "core::fmt::rt::Argument::<'_>::new_debug",
    "std::fmt::Arguments::<'a>::new", "std::fmt::format", "std::hint::must_use",
    "std::string::String::push_str", "std::string::String::as_str", "<std::string::String as std::clone::Clone>::clone",
    "<T as std::string::ToString>::to_string", "<str as std::string::ToString>::to_string", "std::string::String::len",
    "core::str::<impl str>::len", "std::string::String::with_capacity", "<std::string::String as std::fmt::Display>::fmt",
    "std::option::Option::<T>::is_none", "std::option::Option::<T>::is_some", "std::string::String::is_empty",
}


def K(e):
    return e[1] if isinstance(e, tuple) and e and e[0] == "K" else None


# ---------------------------------------------------------------------------
# sanitiser recognition
# ---------------------------------------------------------------------------

def escaper_table(f, path):
    """decision table of a crate fn (&str) -> String over the XML-special characters: {char: emitted} or None"""
    raw = f.fns.get(path)
    if not raw or raw.get("inputs") != ["&str"] or raw.get("output") not in ("std::string::String",):
        return None
    fn = f.fn(path)
    sw = [b["id"] for b in fn.blocks if not b["cleanup"] and b["term"] and b["term"]["k"] == "switch" and b["term"]["ty"] == "char"]
    if not sw:
        return None
    chars = [l["id"] for l in fn.locals if l["ty"] == "char"]
    F = fold.Folder(f)

    def outcome(c):
        env = {l: ("char", ord(c)) for l in chars}
        r = F.run(path, [], start=(sw[0], len(fn.blocks[sw[0]]["stmts"])), env=env,
                  stop=lambda e: e["callee"] in ("std::string::String::push_str", "std::string::String::push"))
        if r.kind != "stop":
            return None
        return to_py(r.value["args"][1])

    return {c: outcome(c) for c in "&<\">'a/"}


REQUIRED_ENTITIES = {"&": "&amp;", "<": "&lt;", '"': "&quot;"}
OPTIONAL_ENTITIES = {">": ("&gt;", ord(">")), "'": ("&apos;", ord("'"), "&#39;", "&#x27;")}


ESC_PROBES = [chr(c) for c in range(32, 127)] + ["", "\u00e9", "\u65e5\u672c", "a&b<c>\"d'e", "&&", "x\"", "\"x", "<<>>", "a/b?c=d&e=f",
              "\u00e9&\u65e5<", "&amp;", "data:image/svg+xml;utf8,<svg xmlns=\"x\">&</svg>", "''", "tail&",
              # the documented uses of the image option: base64 data URIs (with quoted media-type parameters and with text after
              # the payload), http(s) URLs with query strings, file paths
              "data:image/png;base64,iVBORw0KGgo=", "data:image/svg+xml;charset=\"utf-8\";base64,PHN2Zz4=",
              "data:image/png;name=\"a&b <c>.png\";base64,AAAA", "data:image/png;base64,AAAA\"/><image href=\"x",
              "https://example.com/logo.png?a=1&b=\"2\"", "http://x/<y>", "C:\\dir\\a&b.png", "./img/\"quoted\".svg"]


def _xml_unescape_strict(out):
    """decode the five predefined entities and numeric references; None if a raw & < \" remains"""
    import re
    res = []
    i = 0
    while i < len(out):
        ch = out[i]
        if ch in '<"':
            return None
        if ch == "&":
            m = re.match(r"&(amp|lt|gt|quot|apos|#\d+|#x[0-9a-fA-F]+);", out[i:])
            if not m:
                return None
            e = m.group(1)
            res.append({"amp": "&", "lt": "<", "gt": ">", "quot": '"', "apos": "'"}.get(e) or (
                chr(int(e[2:], 16)) if e.startswith("#x") else chr(int(e[1:]))))
            i += len(m.group(0))
            continue
        res.append(ch)
        i += 1
    return "".join(res)


def pe_classify_escaper(f, path):
    """semantic recognition by partial evaluation on probe strings (every printable ASCII character alone, plus mixed strings):
    the result must decode back to the input and contain no raw & < ".  -> ('ok' | 'broken' | None, detail)"""
    from . import peval
    raw = f.fns.get(path)
    if not raw or raw.get("inputs") != ["&str"] or raw.get("output") not in ("std::string::String", "std::borrow::Cow<'_, str>", "&str"):
        return None, None
    bad = {}
    entities = 0
    for probe in ESC_PROBES:
        pe = peval.PEval(f, max_steps=200000)
        r = pe.run(path, [("ref", ("const", ("str", probe)))])
        out = peval._pystr(pe, None, r.value) if r.kind == "ret" and r.value != TOP else None
        if out is None:
            return None, "%s on %r" % (r.why or r.kind, probe)
        if "&" in out and out != probe:
            entities += 1
        if _xml_unescape_strict(out) != probe:
            bad[probe] = out
    if entities == 0:
        return None, None  # not an escaper at all (identity, trimming, ...)
    return ("broken" if bad else "ok"), (bad or "decodes back on %d probes" % len(ESC_PROBES))


def classify_escaper(f, path):
    """('ok' | 'broken' | None, detail)"""
    t = escaper_table(f, path)
    if t is None:
        k, d = pe_classify_escaper(f, path)
        return k, d
    looks = sum(1 for c, e in t.items() if isinstance(e, str) and e.startswith("&") and e.endswith(";"))
    if looks == 0:
        return None, None
    bad = {}
    for c, ent in REQUIRED_ENTITIES.items():
        if t.get(c) != ent and t.get(c) not in ("&#%d;" % ord(c), "&#x%x;" % ord(c), "&#x%X;" % ord(c)):
            bad[c] = t.get(c)
    for c, oks in OPTIONAL_ENTITIES.items():
        if t.get(c) not in oks:
            bad[c] = t.get(c)
    if t.get("a") != ord("a") or t.get("/") != ord("/"):
        bad["ordinary"] = (t.get("a"), t.get("/"))
    return ("broken" if bad else "ok"), (bad or t)


def is_xml_attr_escaper(f, path):
    return classify_escaper(f, path)[0] == "ok"


def sanitisers(f):
    return {p for p in f.fns if is_xml_attr_escaper(f, p)}


def broken_sanitisers(f):
    out = {}
    for p in f.fns:
        k, d = classify_escaper(f, p)
        if k == "broken":
            out[p] = d
    return out


# ---------------------------------------------------------------------------
# C12.R1 injection
# ---------------------------------------------------------------------------

def c12_r1(ctx, f):
    rid = "C12.R1"
    ctx.rule(rid, "the embedded image string reaches the document only through an XML attribute escaper")
    fn = anchor_fn(ctx, rid, f, SVGB + "::image")
    if not fn:
        return
    san = sanitisers(f)
    ctx.inventory["xml_attribute_escapers"] = sorted(san)

    def is_source(st, pt):
        if st.get("k") != "assign":
            return False
        rv = st["rv"]
        p = rv.get("p") or (rv["op"].get("p") if rv["k"] in ("use", "cast", "repeat") and isinstance(rv.get("op"), dict) else None)
        if not p:
            return False
        return any(isinstance(e, dict) and e.get("name") == "image" for e in p["proj"]) and _base_is(fn, p, SVGB)

    nsrc = 0
    for b in fn.blocks:
        if b["cleanup"]:
            continue
        for i, st in enumerate(b["stmts"]):
            if is_source(st, (b["id"], i)):
                nsrc += 1
    ctx.floor(rid, "reads of SvgBuilder.image", nsrc, 1)
    broken = broken_sanitisers(f)
    for c in fn.calls():
        if c.callee in broken:
            probes = {k: v for k, v in broken[c.callee].items() if isinstance(k, str) and len(k) > 1 and k != "ordinary"}
            if probes:
                # found by evaluating the escaper on whole probe strings: one report, first probe shown
                k0 = sorted(probes)[0]
                ctx.fail(rid, "%s/escaper/probe-strings" % c.callee, c.where(), c.callee,
                         "%d probe string(s), e.g. %r" % (len(probes), k0),
                         "the attribute escaper returns text that does not decode back to its input or still holds a raw \" < &: an image "
                         "string of this form yields an ill-formed document or injected markup",
                         expected="every & < \" (and ' >) replaced by its entity", found=probes[k0])
            for ch, got in sorted(broken[c.callee].items(), key=str):
                if ch in probes:
                    continue
                ctx.fail(rid, "%s/escaper/%s" % (c.callee, "ordinary" if ch == "ordinary" else "U+%04X" % ord(ch)), c.where(), c.callee,
                         "character %r" % ch,
                         "the attribute escaper maps this character to %r: not a predefined XML entity / not the character itself, so an image "
                         "string containing it yields an ill-formed or altered document" % (got,),
                         expected=REQUIRED_ENTITIES.get(ch) or "entity or unchanged", found=got)
    tainted, through = fn.taint(is_source, sanitiser=lambda t: (t.get("callee") in san or t.get("callee") in broken))
    ctx.analysed(fn, len(through))
    unknown = [t for t, pt in through if (t.get("callee") or t.get("declared")) not in TRANSPARENT]
    reached = 0 in tainted
    if reached and not unknown:
        pt, why = tainted[0]
        chain = sorted({(t.get("callee") or t.get("declared") or "?").split("::")[-1] + "@%s" % t.get("line") for t, p in through})
        ctx.fail(rid, fn.path + "/href", fn.where(pt), fn.path, "image string -> returned markup",
                 "the image reference is interpolated without XML attribute escaping: a URL or path containing \" < & breaks the "
                 "document or injects markup", expected="value passes through an attribute escaper (& < \" -> entities)",
                 found="raw flow through " + ", ".join(chain))
    elif reached and unknown:
        ctx.abstain(rid, "image string passes through unrecognised string function(s) %s before reaching the document" %
                    sorted({(t.get("callee") or t.get("declared")) for t in unknown}), where_fn(fn))
    else:
        used = [c for c in fn.calls() if c.callee in san or c.callee in broken]
        ctx.check(rid, bool(used), fn.path + "/href", where_fn(fn), fn.path, "image string -> returned markup",
                  "the image string no longer reaches the document at all (image would be dropped)",
                  sample="image -> %s -> href" % (used[0].callee if used else "?"))
    # the escaped value lands in the href attribute of one <image> element
    sites = strflow.format_sites(fn)
    img = [s for s in sites if "<image" in s.literal_text()]
    ctx.check(rid, len(img) == 1, fn.path + "/image-element", where_fn(fn), fn.path, "<image> element",
              "the image is not emitted as exactly one <image> element", found=[s.skeleton() for s in img],
              sample=img[0].skeleton() if img else None)
    if len(img) == 1:
        s = img[0]
        attr = hole_attrs(s.pieces)
        hi = [i for i, a in attr.items() if a == "href"]
        ok = False
        src = None
        if len(hi) == 1 and hi[0] < len(s.args):
            src = strflow.string_source(fn, s.args[hi[0]]["operand"], s.args[hi[0]]["point"])
            ok = src["kind"] == "call" and src["callee"] in san
        if not ok and src is not None and src["kind"] == "call" and f.fn(src.get("callee") or "") is not None:
            # filled by a function of the crate that was not classified as an escaper (nor as anything else): not evidence of a raw flow
            ctx.abstain(rid, "href is filled by %s, which the escaper classification could not read" % src["callee"], fn.where(s.new_call.point))
        else:
          ctx.check(rid, ok, fn.path + "/href-hole", fn.where(s.new_call.point), fn.path, "href attribute",
                  "the href attribute is not filled with the escaped image string", found=attr,
                  sample="href=\"{escaped image}\"")


def _base_is(fn, p, adt):
    t = fn.locals[p["l"]]["tyt"] if p["l"] > 0 else None
    if t is None:
        return False
    for e in p["proj"]:
        if e == "deref" and t["k"] in ("ref", "ptr"):
            t = t["inner"]
        elif isinstance(e, dict) and "f" in e:
            return t["k"] == "adt" and t["path"] == adt
        else:
            return False
    return False


def hole_attrs(pieces):
    """for each placeholder: the attribute whose double-quoted value it sits in (by scanning the literal text)"""
    out = {}
    text = ""
    for p in pieces:
        if p[0] == "lit":
            text += p[1]
        else:
            # inside a quoted value iff the last quote before the hole opens an attribute (name=")
            m = re.search(r'([A-Za-z_:][\w:.-]*)\s*=\s*"[^"]*$', text)
            out.setdefault(p[1], m.group(1) if m else None)
            text += "X"
    return out


def hole_attr_list(pieces):
    """ordered list of (arg index, attribute name|None) per placeholder occurrence"""
    out = []
    text = ""
    for p in pieces:
        if p[0] == "lit":
            text += p[1]
        else:
            m = re.search(r'([A-Za-z_:][\w:.-]*)\s*=\s*"[^"]*$', text)
            out.append((p[1], m.group(1) if m else None))
            text += "X"
    return out


# ---------------------------------------------------------------------------
# C12.R2 dark modules only
# ---------------------------------------------------------------------------

def c12_r2(ctx, f):
    rid = "C12.R2"
    ctx.rule(rid, "one sub-path per dark module per layer, anchored at (column+margin, row+margin)")
    fn = anchor_fn(ctx, rid, f, SVGB + "::path")
    if not fn:
        return
    ind = [c for c in fn.calls() if c.indirect is not None]
    ctx.analysed(fn, len(ind))
    if len(ind) != 1:
        ctx.abstain(rid, "expected one indirect shape-callback call in path(), found %d" % len(ind), where_fn(fn))
        return
    c = ind[0]
    pq = fn.params_of_type("&qr::QRCode")
    ps = fn.params_of_type("&" + SVGB)
    cell = fn.canon(c.args[2], c.point)
    # guard
    g = [(cond, pol) for cond, pol, s in fn.guards_of(c.block)]
    val = ("call", "module::Module::value", (cell,))
    ok = any(cond == val and pol is True for cond, pol in g)
    wrong_pol = any(cond == val and pol is False for cond, pol in g)
    other = [cond for cond, pol in g if cond[0] == "call" and cond[1] == "module::Module::value" and cond != val]
    if not ok and other:
        # positive evidence: the call IS guarded by a dark test - of another module than the one handed to the callback
        ctx.fail(rid, fn.path + "/cell", c.where(), fn.path, "module passed to the callback",
                 "the module whose value is tested is not the module handed to the shape callback",
                 expected=expr_str(other[0][2][0], fn), found=expr_str(cell, fn))
        return
    if not ok and not wrong_pol:
        # no branch on value(cell) around the call: the dark test may live in an iterator adaptor (filter) or a helper this rule
        # does not read - positive evidence only (the exact rule C12.R7 decides the clause)
        ctx.abstain(rid, "the shape callback is not called under a branch on value(cell) in path() itself (a filter adaptor or helper?): "
                         "dark-only drawing not read here", c.where())
        ok = None
    if ok is not None:
      ctx.check(rid, ok, fn.path + "/dark-only", c.where(), fn.path, "shape callback call",
              "the shape callback is not invoked exactly under `cell.value()` being true: light modules (or no modules) would be drawn",
              expected="true edge of value(cell)", found=["%s is %s" % (expr_str(cd, fn), p) for cd, p in g],
              sample="callback called under value(cell) == true")
    # cell is element x of row y of the symbol; coordinates (y+margin, x+margin)
    loops = {}

    def ren(x):
        if x[0] == "field" and x[3] == "margin" and len(ps) == 1 and contains(x, ("param", ps[0])):
            return "margin"
        if x[0] == "field" and x[1][0] in ("field", "downcast"):
            # loop payloads
            for d in subexprs(x):
                if d[0] == "def":
                    nm = call_name_of_def(fn, d[1]) or ""
                    if nm.endswith("::next"):
                        kind = loop_kind(fn, d[1])
                        if x[1][0] == "downcast":  # Some.0 of a Range loop
                            loops[("range", d[1])] = kind
                            return ("loopvar", d[1])
                        if x[1][0] == "field":  # Some.0.k of enumerate
                            loops[("enum", d[1], x[2])] = kind
                            return ("enum%d" % x[2], d[1])
        return None

    a0 = poly.normalise(fn.canon(c.args[0], c.point), ren)
    a1 = poly.normalise(fn.canon(c.args[1], c.point), ren)
    # expected: a0 = y + margin where y is a Range(0, qr.size) loop var; a1 = x + margin where x = enumerate index over the row
    ydefs = [k[1] for k, v in loops.items() if k[0] == "range" and v and v[0] == "range0" and contains(v[1], ("param", pq[0])) and "size" in repr(v[1])]
    xdefs = [k[1] for k, v in loops.items() if k[0] == "enum" and k[2] == 0]
    oky = len(ydefs) >= 1 and a0 == poly.A(("loopvar", ydefs[0])) + poly.A("margin")
    okx = len(xdefs) >= 1 and a1 == poly.A(("enum0", xdefs[0])) + poly.A("margin")
    plain = bool(xdefs and ydefs) and (loop_kind(fn, xdefs[0]) or (None,))[0] == "enumerate" and (loop_kind(fn, xdefs[0])[1] or (None,))[0] == "iter"
    if not plain:
        # two index loops: the callback's coordinates are loopvar + margin and the module is qr[row var][column var]
        ra = [a for a in a0.atoms() if isinstance(a, tuple) and a[0] == "loopvar"]
        ca = [a for a in a1.atoms() if isinstance(a, tuple) and a[0] == "loopvar"]
        sc = strip_refs(cell)
        if len(ra) == 1 and len(ca) == 1 and a0 == poly.A(ra[0]) + poly.A("margin") and a1 == poly.A(ca[0]) + poly.A("margin") and \
                sc[0] == "index" and strip_refs(sc[1])[0] == "call" and strip_refs(sc[1])[1] == "qr_row":
            rowi = poly.normalise(strip_refs(sc[1])[2][1], ren)
            coli = poly.normalise(sc[2], ren)
            ctx.check(rid, rowi == poly.A(ra[0]) and coli == poly.A(ca[0]), fn.path + "/cell", c.where(), fn.path, "module passed to the callback",
                      "the module handed to the callback is not the one at the (row, column) it is drawn at", expected="qr[row][column]",
                      found="qr[%s][%s] drawn at row %s column %s" % (rowi.show(), coli.show(), a0.show(), a1.show()), sample="cell = qr[y][x]")
            return
        ctx.abstain(rid, "the row/column loops of path() are not `for y in 0..size` / `for (x, cell) in qr[y].iter().enumerate()`: the "
                         "coordinates and the module handed to the callback are not read here", c.where())
        return
    ctx.check(rid, oky, fn.path + "/anchor-y", c.where(), fn.path, "arg#0 (row) of the callback",
              "the row coordinate is not row + margin with row ranging over 0..size", expected="y + margin", found=a0.show(),
              sample="callback row = y + margin")
    ctx.check(rid, okx, fn.path + "/anchor-x", c.where(), fn.path, "arg#1 (column) of the callback",
              "the column coordinate is not column + margin", expected="x + margin", found=a1.show(), sample="callback column = x + margin")
    # cell = *(enumerate payload .1) of the same enumerate whose source is iter(&qr[y])
    okc = False
    if xdefs and ydefs:
        exp_cell_root = ("field", ("field", ("downcast", ("def", xdefs[0]), "Some"), 0), 1)
        okc = unname(strip_refs(cell)) == exp_cell_root
        kind = loop_kind(fn, xdefs[0])
        # kind = ('enumerate', ('iter', canon of slice))
        okc = okc and kind and kind[0] == "enumerate" and kind[1][0] == "iter" and any(
            s[0] == "call" and s[1] == "qr_row" and contains(s, ("param", pq[0])) and
            poly.normalise(s[2][1], ren) == poly.A(("loopvar", ydefs[0])) for s in subexprs(kind[1][1]))
    ctx.check(rid, bool(okc), fn.path + "/cell", c.where(), fn.path, "module passed to the callback",
              "the module tested and drawn is not element x of row y of the symbol", found=expr_str(cell, fn),
              sample="cell = qr[y][x]")
    # every layer: the callee comes from a loop over the whole command slice, pushed to paths[same index]
    callee = fn.canon(c.indirect, c.point)
    cdefs = [d[1] for d in subexprs(callee) if d[0] == "def" and (call_name_of_def(fn, d[1]) or "").endswith("::next")]
    okl = False
    if len(cdefs) == 1:
        kind = loop_kind(fn, cdefs[0])
        okl = bool(kind) and kind[0] == "enumerate" and kind[1][0] == "iter"
        if okl:
            # push target
            ps_ = [p for p in strflow.pushes(fn) if p[2].get("kind") in ("indirect",) or (p[2].get("kind") == "call" and p[2].get("call") is c.term)]
            tgt_ok = False
            for pc, tgt, src in strflow.pushes(fn):
                if src.get("kind") == "indirect" and src["call"] is c.term:
                    e = fn.canon(pc.args[0], pc.point)
                    idx = [s for s in subexprs(e) if s[0] == "call" and s[1] == "vec_index"]
                    tgt_ok = bool(idx) and poly.normalise(idx[0][2][1], ren) == poly.A(("enum0", cdefs[0]))
            okl = tgt_ok
            _ = ps_
    if okl:
        ctx.ok(rid, "for (i, command) in commands.iter().enumerate(): paths[i] += command(..)")
    else:
        ctx.abstain(rid, "layer loop is not `for (i, command) in commands.iter().enumerate()` with `paths[i]` as target: %s" % expr_str(callee, fn)[:80], c.where())


def loop_kind(fn, next_def_id):
    """describe the iterator a `next()` call draws from: ('range0', hi) | ('enumerate', inner) | ('iter', slice) | ('other', name)"""
    d = def_of(fn, next_def_id)
    it = fn.origins(d.call["args"][0], d.point)
    if len(it) != 1 or it[0].kind != "ref":
        return None
    l = it[0].info.rv["p"]["l"]
    src = fn.origins({"k": "copy", "p": {"l": l, "proj": []}}, d.point, hide_weak=True)
    if len(src) != 1 or src[0].kind != "call":
        return None
    return _iter_expr(fn, src[0])


def _iter_expr(fn, o, depth=0):
    if depth > 6:
        return ("other", "deep")
    if o.kind == "agg" and o.info.rv.get("path") == "std::ops::Range":
        lo = fn.canon(o.info.rv["ops"][0], o.point)
        hi = fn.canon(o.info.rv["ops"][1], o.point)
        if K(lo) == 0:
            return ("range0", hi)
        return ("range", lo, hi)
    if o.kind != "call":
        return ("other", o.kind)
    t = o.info.call
    name = (t.get("callee") or t.get("declared") or "")
    if name.endswith("IntoIterator::into_iter") or name.endswith("::into_iter"):
        a = fn.origins(t["args"][0], o.point, hide_weak=True)
        if len(a) == 1:
            if a[0].kind in ("call", "agg"):
                return _iter_expr(fn, a[0], depth + 1)
            return ("into_iter", fn.canon(t["args"][0], o.point))
        return ("other", "into_iter?")
    last = name.split("::")[-1]
    if last in ("enumerate", "rev", "step_by", "skip", "take", "chain", "filter", "map"):
        a = fn.origins(t["args"][0], o.point, hide_weak=True)
        inner = _iter_expr(fn, a[0], depth + 1) if len(a) == 1 and a[0].kind in ("call", "agg") else ("other", "?")
        if last == "step_by":
            return ("step_by", inner, fn.canon(t["args"][1], o.point))
        return (last, inner)
    if last in ("iter", "iter_mut"):
        return ("iter", fn.canon(t["args"][0], o.point))
    if last == "chunks_exact":
        return ("chunks_exact", fn.canon(t["args"][0], o.point), fn.canon(t["args"][1], o.point))
    return ("other", name)


# ---------------------------------------------------------------------------
# C12.R3 pairing
# ---------------------------------------------------------------------------

def c12_r3(ctx, f):
    rid = "C12.R3"
    ctx.rule(rid, "every push to `commands` is paired with one push to `command_colors` on the same path")
    n = 0
    for fn in f.all_fns():
        counts = {"commands": [], "command_colors": []}
        for c in fn.calls("std::vec::Vec::<T, A>::push"):
            o = fn.origins(c.args[0], c.point)
            for x in o:
                if x.kind == "ref":
                    p = x.info.rv["p"]
                    for e in p["proj"]:
                        if isinstance(e, dict) and e.get("name") in counts and _base_is(fn, p, SVGB):
                            counts[e["name"]].append(c)
        if not counts["commands"] and not counts["command_colors"]:
            continue
        n += 1
        ctx.analysed(fn, len(counts["commands"]) + len(counts["command_colors"]))
        rets = [p[0] for p in ret_points(fn)]
        uncond = all(all(fn.dominates(c.block, r) for r in rets) for lst in counts.values() for c in lst)
        ctx.check(rid, len(counts["commands"]) == len(counts["command_colors"]) and uncond, fn.path + "/pairing", where_fn(fn), fn.path,
                  "pushes to commands / command_colors",
                  "the two per-layer vectors do not grow together: a layer without colour entry makes rendering index out of bounds, "
                  "an extra colour shifts every later layer's colour",
                  expected="equal, unconditional", found={k: len(v) for k, v in counts.items()},
                  sample="%s: commands+%d colours+%d" % (fn.path.split("::")[-1], len(counts["commands"]), len(counts["command_colors"])))
    ctx.floor(rid, "functions growing the layer vectors", n, 2)


# ---------------------------------------------------------------------------
# C12.R4 / R6 skeleton holes
# ---------------------------------------------------------------------------

def c12_r4(ctx, f, image_decided=False):
    """image_decided: the embedded image is decided end to end by C12.R9 - what to_str hands to its private image() helper, and
    whether that part is pushed under a condition on the option, is then an internal matter"""
    rid = "C12.R4"
    ctx.rule(rid, "square viewBox and background of side size + 2*margin in the background colour; defaults")
    fn = anchor_fn(ctx, rid, f, SVGB + "::to_str")
    if not fn:
        return
    ps = fn.params_of_type("&" + SVGB)
    pq = fn.params_of_type("&qr::QRCode")
    sites = strflow.format_sites(fn)
    ctx.analysed(fn, len(sites))

    def ren(x):
        if x[0] == "field" and x[3] == "margin" and contains(x, ("param", ps[0])):
            return "margin"
        if x[0] == "field" and x[3] == "size" and contains(x, ("param", pq[0])):
            return "size"
        return None

    side = poly.C(2) * poly.A("margin") + poly.A("size")
    svg = [s for s in sites if "<svg" in s.literal_text()]
    rect = [s for s in sites if "<rect" in s.literal_text()]
    if len(svg) != 1 or len(rect) != 1:
        ctx.abstain(rid, "document head is not built from one <svg ..> and one <rect ..> format!", where_fn(fn))
        return
    for s, wanted in ((svg[0], {"viewBox": 2}), (rect[0], {"width": 1, "height": 1})):
        hl = hole_attr_list(s.pieces)
        for attr, cnt in wanted.items():
            hs = [i for i, a in hl if a == attr]
            ok = len(hs) == cnt
            for i in hs:
                if i >= len(s.args):
                    ok = False
                    continue
                a = s.args[i]
                e = fn.canon(a["operand"], a["point"])
                got = poly.normalise(strip_refs(e), ren)
                ok = ok and got == side and a["kind"] == "new_display"
            ctx.check(rid, ok, "%s/%s" % (fn.path, attr), fn.where(s.new_call.point), fn.path, attr + " attribute",
                      "%s is not the square side size + 2*margin" % attr, expected=side.show(),
                      found=[poly.normalise(strip_refs(fn.canon(s.args[i]["operand"], s.args[i]["point"])), ren).show() for i in hs if i < len(s.args)],
                      sample="%s = %s" % (attr, side.show()))
    # viewBox origin "0 0"
    ctx.check(rid, 'viewBox="0 0 ' in svg[0].literal_text().replace("X", ""), fn.path + "/viewBox-origin", fn.where(svg[0].new_call.point), fn.path,
              "viewBox origin", "the viewBox does not start at 0 0", found=svg[0].skeleton(), sample=svg[0].skeleton())
    # background fill
    hl = hole_attrs(rect[0].pieces)
    fi = [i for i, a in hl.items() if a == "fill"]
    ok = False
    found = None
    if len(fi) == 1 and fi[0] < len(rect[0].args):
        a = rect[0].args[fi[0]]
        e = strip_refs(fn.canon(a["operand"], a["point"]))
        found = expr_str(e, fn)
        ok = e[0] == "call" and e[1] == "convert::Color::to_str" and any(
            x[0] == "field" and x[3] == "background_color" for x in subexprs(e)) and not any(
            x[0] == "field" and x[3] in ("dot_color", "image_background_color") for x in subexprs(e))
    ctx.check("C12.R4", ok, fn.path + "/background-fill", fn.where(rect[0].new_call.point), fn.path, "background rectangle fill",
              "the background rectangle is not filled with the configured background colour", expected="background_color.to_str()",
              found=found, sample="rect fill = background_color")
    # order of the document: head, rect, path(qr), image(n), </svg>
    seq = []
    for pc, tgt, src in sorted(strflow.pushes(fn), key=lambda p: (fn.rpo().index(p[0].block))):
        if src["kind"] == "fmt":
            seq.append("fmt:" + ("svg" if src["site"] is svg[0] or "<svg" in src["site"].literal_text() else "rect" if "<rect" in src["site"].literal_text() else "?"))
        elif src["kind"] == "call":
            seq.append("call:" + src["callee"].split("::")[-1])
        elif src["kind"] == "lit":
            seq.append("lit:" + src["text"])
        else:
            seq.append(src["kind"])
    seq_cmp = [x for x in seq if not (image_decided and x not in ("fmt:svg", "fmt:rect", "call:path", "lit:</svg>"))]
    want_seq = ["fmt:svg", "fmt:rect", "call:path", "lit:</svg>"] if image_decided else ["fmt:svg", "fmt:rect", "call:path", "call:image", "lit:</svg>"]
    ctx.check(rid, seq_cmp == want_seq, fn.path + "/document-order", where_fn(fn), fn.path,
              "document assembly", "the document is not <svg> + background + paths + image + </svg> in this order", found=seq,
              sample=" + ".join(seq))
    # every part is emitted on every path: removing its block must cut every path from entry to a return
    rets = [b["id"] for b in fn.blocks if not b["cleanup"] and b["term"]["k"] == "ret"]
    cond = []
    for pc, tgt, src in strflow.pushes(fn):
        reach = fn.reachable(removed_blocks=(pc.block,))
        if any(r in reach for r in rets):
            what = src["site"].skeleton()[:40] if src["kind"] == "fmt" else src.get("callee") or src.get("text") or src["kind"]
            if image_decided and str(what).endswith("::image"):
                continue  # the image element is optional by nature (nothing is emitted without an image option)
            cond.append("%s (line %s)" % (what, pc.line))
    ctx.check(rid, not cond, fn.path + "/document-unconditional", where_fn(fn), fn.path, "document assembly",
              "a part of the document skeleton (head, background rectangle, paths, image, closing tag) is emitted only on some paths",
              found=cond, sample="all %d document parts are emitted on every path" % len(seq))
    # path(self, qr) and image(self, n = qr.size) are called on the same builder and symbol
    for c in fn.calls(SVGB + "::path", SVGB + "::image"):
        if image_decided and c.name.endswith("::image"):
            continue
        for i, a in enumerate(c.args):
            o = fn.origins(a, c.point)
            ty = a.get("ty")
            if ty in ("&" + SVGB, "&qr::QRCode"):
                ok = len(o) == 1 and o[0].kind == "param"
            else:
                e = fn.canon(a, c.point)
                ok = poly.normalise(e, ren) == poly.A("size")
            ctx.check(rid, ok, "%s/%s/arg%d" % (fn.path, c.name.split("::")[-1], i), c.where(), fn.path, "arg#%d of %s" % (i, c.name),
                      "a sub-renderer works on a different builder / symbol / size", found=[x.describe(fn) for x in o],
                      sample="%s(arg%d) = own parameter" % (c.name.split("::")[-1], i))
    # defaults
    d = anchor_fn(ctx, rid, f, "<%s as std::default::Default>::default" % SVGB)
    if d:
        aggs = [(st, (b["id"], i)) for b in d.blocks if not b["cleanup"] for i, st in enumerate(b["stmts"])
                if st["k"] == "assign" and st["rv"]["k"] == "agg" and st["rv"].get("path") == SVGB]
        if len(aggs) != 1:
            ctx.abstain(rid, "SvgBuilder::default is not a single struct literal", where_fn(d))
        else:
            st, pt = aggs[0]
            rv = st["rv"]
            vals = {}
            for j, fld in enumerate(rv["fields"]):
                vals[fld] = _const_color_or_value(d, rv["ops"][j], pt)
            want = {"margin": 4, "background_color": [255, 255, 255, 255], "dot_color": [0, 0, 0, 255]}
            for k, w in want.items():
                ctx.check(rid, vals.get(k) == w, "%s/default/%s" % (d.path, k), d.where(pt), d.path, "default " + k,
                          "documented default changed", expected=w, found=vals.get(k), sample="default %s = %s" % (k, w))


def _const_color_or_value(fn, op, pt):
    o = fn.origins(op, pt)
    if len(o) != 1:
        return None
    o = o[0]
    if o.kind == "const":
        return o.info.get("val")
    if o.kind == "call":
        # Into::into(array literal)
        a = fn.origins(o.info.call["args"][0], o.point) if o.info.call["args"] else []
        if len(a) == 1 and a[0].kind == "agg" and a[0].info.rv.get("agg") == "array":
            return [K(fn.canon(x, a[0].point)) for x in a[0].info.rv["ops"]]
        if len(a) == 1 and a[0].kind == "expr" and a[0].info.rv["k"] == "repeat":
            r = a[0].info.rv
            return [K(fn.canon(r["op"], a[0].point))] * (r.get("len") or 0)
        if len(a) == 1 and a[0].kind == "const":
            return a[0].info.get("val")
    return None


def c12_r6(ctx, f):
    rid = "C12.R6"
    ctx.rule(rid, "a layer is filled (and stroked) with its own colour, else the module colour")
    fn = anchor_fn(ctx, rid, f, SVGB + "::path")
    if not fn:
        return
    sites = strflow.format_sites(fn)
    n = 0
    for s in sites:
        for idx, attr in hole_attrs(s.pieces).items():
            if attr not in ("fill", "stroke") or idx >= len(s.args):
                continue
            n += 1
            a = s.args[idx]
            e = strip_refs(fn.canon(a["operand"], a["point"]))
            ok = e[0] == "call" and e[1] == "convert::Color::to_str"
            src = None
            if ok:
                inner = [x for x in subexprs(e) if x[0] == "def"]
                ok = False
                for x in inner:
                    d = def_of(fn, x[1])
                    if d.call is not None and (d.call.get("callee") or "") == "std::option::Option::<T>::unwrap_or":
                        a0 = fn.canon(d.call["args"][0], d.point)
                        a1 = fn.canon(d.call["args"][1], d.point)
                        src = "%s.unwrap_or(%s)" % (expr_str(a0, fn), expr_str(a1, fn))
                        dflt = any(y[0] == "field" and y[3] == "dot_color" for y in subexprs(a1)) and not any(
                            y[0] == "field" and y[3] in ("background_color", "image_background_color") for y in subexprs(a1))
                        own = a0[0] == "call" and a0[1] == "as_ref" and any(y[0] == "index" for y in subexprs(a0))
                        # index = the layer's enumerate index
                        ok = dflt and own
            if not ok and src is not None and "dot_color" in src and "background_color" not in src:
                # an unwrap_or(dot_color) whose first operand is not in the `command_colors[i].as_ref()` shape (zip, iterator item..)
                ctx.abstain(rid, "%s of a layer: own-colour operand not recognised: %s" % (attr, src[:100]), fn.where(s.new_call.point))
                continue
            ctx.check(rid, ok, "%s/%s" % (fn.path, attr), fn.where(s.new_call.point), fn.path, attr + " attribute of a layer",
                      "the layer's %s is not `its own colour, else the module colour`" % attr, expected="command_colors[i].unwrap_or(dot_color)",
                      found=src or expr_str(e, fn), sample="%s = command_colors[i] or dot_color" % attr)
    ctx.floor(rid, "fill/stroke holes", n, 2)
    # command_colors slice follows the commands slice (both own or both default)
    # (checked structurally: both selections are guarded by the same emptiness test of `commands`)
    sel = {}
    for b in fn.blocks:
        if b["cleanup"]:
            continue
        for i, st in enumerate(b["stmts"]):
            if st["k"] == "assign" and not st["p"]["proj"] and fn.locals[st["p"]["l"]]["kind"] == "var":
                nm = fn.local_name(st["p"]["l"])
                if nm in ("commands", "command_colors"):
                    e = fn.canon_rv(st["rv"], (b["id"], i), 0, None)
                    own = any(x[0] == "field" and x[3] == nm for x in subexprs(e))
                    gs = [(expr_str(c, fn), p) for c, p, s in fn.guards_of(b["id"])]
                    sel.setdefault(nm, []).append((own, tuple(gs)))
    if set(sel) == {"commands", "command_colors"}:
        a = sorted(sel["commands"])
        b_ = sorted(sel["command_colors"])
        ctx.check(rid, a == b_, fn.path + "/slices-agree", where_fn(fn), fn.path, "layer slices",
                  "commands and command_colors are not selected under the same condition", found=sel,
                  sample="both slices chosen by the same emptiness test")


# ---------------------------------------------------------------------------
# C12.R5 colour formatting
# ---------------------------------------------------------------------------

def c12_r5(ctx, f):
    rid = "C12.R5"
    ctx.rule(rid, "RGBA arrays render as #rrggbb, plus aa exactly when alpha != 255 (two lower-hex digits each)")
    fn = anchor_fn(ctx, rid, f, "convert::rgba2hex", ["[u8; 4]"], "std::string::String")
    if not fn:
        return
    pushes = sorted(strflow.pushes(fn), key=lambda p: fn.rpo().index(p[0].block))
    ctx.analysed(fn, len(pushes))
    seq = []
    for pc, tgt, src in pushes:
        if src["kind"] == "const" and src.get("value") == ord("#"):
            seq.append(("#", pc))
        elif src["kind"] == "lit":
            seq.append(("lit:" + src["text"], pc))
        elif src["kind"] == "fmt":
            s = src["site"]
            comp = None
            good = False
            if len(s.args) == 1 and len(s.pieces) == 1 and s.pieces[0][0] == "arg":
                _, idx, flags, width, prec = s.pieces[0]
                e = strip_refs(fn.canon(s.args[0]["operand"], s.args[0]["point"]))
                if e[0] == "index" and e[1] == ("param", 1):
                    comp = K(e[2])
                good = s.args[0]["kind"] == "new_lower_hex" and width == 2 and flags is not None and (flags & ZERO_PAD)
            seq.append(("hex%s%s" % (comp, "" if good else "!badformat"), pc))
        else:
            seq.append((src["kind"], pc))
    names = [s[0] for s in seq]
    if any("None" in n_ for n_ in names) or any(n_ not in ("#", "hex0", "hex1", "hex2", "hex3") and "badformat" not in n_ for n_ in names):
        # components pushed in a loop / through another idiom: which component goes where is not recognised
        ctx.abstain(rid, "colour components are not pushed as four separate format!() of color[k]: %s" % names, where_fn(fn))
        return
    if len([n_ for n_ in names if n_.startswith("hex")]) < 3:
        # fewer than three component pushes recognised: the components are emitted through another idiom (a loop, write!)
        ctx.abstain(rid, "colour components are not pushed as separate format!() pieces: %s" % names, where_fn(fn))
        return
    ctx.check(rid, names == ["#", "hex0", "hex1", "hex2", "hex3"], fn.path + "/sequence", where_fn(fn), fn.path, "pushed pieces",
              "the colour string is not '#' followed by the components 0,1,2,(3), each as two zero-padded lower-case hex digits",
              expected=["#", "hex0", "hex1", "hex2", "hex3"], found=names, sample=" ".join(names))
    rets = [p[0] for p in ret_points(fn)]
    for name, pc in seq:
        if name in ("#", "hex0", "hex1", "hex2"):
            ctx.check(rid, all(fn.dominates(pc.block, r) for r in rets), "%s/unconditional/%s" % (fn.path, name), pc.where(), fn.path, name,
                      "a mandatory colour component is only emitted conditionally", sample="%s unconditional" % name)
        elif name == "hex3":
            g = [(c, p) for c, p, s in fn.guards_of(pc.block)]
            alpha = ("index", ("param", 1), ("K", 3, "usize"))
            ok = any(c[0] == "bin" and ((c[1] == "Ne" and p is True) or (c[1] == "Eq" and p is False)) and
                     {strip_refs(c[2]), strip_refs(c[3])} == {alpha, ("K", 255, "u8")} for c, p in g)
            ctx.check(rid, ok and len(g) == 1, fn.path + "/alpha-guard", pc.where(), fn.path, "alpha component",
                      "alpha is not emitted exactly when it differs from 255", expected="color[3] != 255",
                      found=["%s is %s" % (expr_str(c, fn), p) for c, p in g], sample="aa emitted iff color[3] != 255")
    # the result is the built string
    # Color::from([u8;4]) uses rgba2hex; [u8;3] appends 255
    g4 = f.fn("<convert::Color as std::convert::From<[u8; 4]>>::from")
    if g4:
        ctx.analysed(g4)
        cs = g4.calls("convert::rgba2hex")
        ok = len(cs) == 1 and g4.origins(cs[0].args[0], cs[0].point)[0].kind == "param"
        ctx.check(rid, ok, g4.path + "/uses-rgba2hex", where_fn(g4), g4.path, "Color::from([u8;4])", "RGBA arrays are not rendered through rgba2hex",
                  sample="Color::from([u8;4]) = rgba2hex(color)")
    g3 = f.fn("<convert::Color as std::convert::From<[u8; 3]>>::from")
    if g3:
        ctx.analysed(g3)
        aggs = [st for b in g3.blocks if not b["cleanup"] for st in b["stmts"] if st["k"] == "assign" and st["rv"]["k"] == "agg" and st["rv"]["agg"] == "array"]
        ok = False
        if len(aggs) == 1:
            ops = aggs[0]["rv"]["ops"]
            pt = [(b["id"], i) for b in g3.blocks for i, st in enumerate(b["stmts"]) if st is aggs[0]][0]
            e = [strip_refs(g3.canon(o, pt)) for o in ops]
            ok = len(e) == 4 and all(e[i] == ("index", ("param", 1), ("K", i, "usize")) for i in range(3)) and K(e[3]) == 255
        ctx.check(rid, ok, g3.path + "/opaque", where_fn(g3), g3.path, "Color::from([u8;3])", "RGB arrays are not rendered as [r, g, b, 255]",
                  sample="Color::from([r,g,b]) = [r,g,b,255]")


# ---------------------------------------------------------------------------
# C12.R8 colour conversions by partial evaluation, every value of every channel
# ---------------------------------------------------------------------------

def c12_r8(ctx, f, rid="C12.R8"):
    ctx.rule(rid, "colour conversions by partial evaluation: rgba2hex and Color::from([u8;4] / [u8;3] / &[u8] / Vec<u8>) give #rrggbb "
                  "(two lower-case hex digits per channel, in order), plus aa exactly when alpha != 255, for every value of every channel")
    from . import peval
    from .fold import mk_int, TOP as _TOP
    fn = f.fn("convert::rgba2hex")
    targets = []
    if fn is not None:
        targets.append(("convert::rgba2hex", 4, "array", lambda v: v))
    for path, n, kind in (("<convert::Color as std::convert::From<[u8; 4]>>::from", 4, "array"),
                          ("<convert::Color as std::convert::From<[u8; 3]>>::from", 3, "array"),
                          ("<convert::Color as std::convert::From<&[u8]>>::from", 4, "slice"),
                          ("<convert::Color as std::convert::From<&[u8]>>::from", 3, "slice"),
                          ("<convert::Color as std::convert::From<std::vec::Vec<u8>>>::from", 4, "vec")):
        if f.fn(path) is not None:
            targets.append((path, n, kind, None))
    if not targets:
        ctx.abstain(rid, "no colour conversion found")
        return None
    decided = True
    for path, n, kind, _ in targets:
        g = f.fn(path)
        pe = peval.PEval(f, max_steps=20_000_000)
        bad = {}
        und = None
        n_ok = 0
        cases = []
        for ch in range(n):
            for base in ((0x12, 0xab, 0x07, 0xff), (0xf0, 0x05, 0xc3, 0x80)):
                for v in range(256):
                    c = list(base[:n])
                    c[ch] = v
                    cases.append(tuple(c))
        for c in sorted(set(cases)):
            arr = ("array", tuple(mk_int("u8", x) for x in c))
            if kind == "array":
                arg = arr
            elif kind == "slice":
                arg = ("ref", ("const", arr))
            else:
                arg = peval._vec_of(pe, arr[1])
            pe.memo = {}
            r = pe.call(path, [arg])
            if r.kind == "diverge":
                bad.setdefault("panics", []).append((c, r.why))
                continue
            v = r.value if r.kind == "ret" else _TOP
            if v != _TOP and v[0] == "adt" and v[1] == "convert::Color" and v[4]:
                v = v[4][0]
            s_ = peval._pystr(pe, None, v) if v != _TOP and v[0] in ("string", "str") else None
            if s_ is None:
                und = r.why or "result is not a known string"
                break
            rgba = tuple(c) + ((255,) if n == 3 else ())
            want = "#%02x%02x%02x" % rgba[:3] + ("%02x" % rgba[3] if rgba[3] != 255 else "")
            if s_ != want:
                k = "alpha" if s_[:7] == want[:7] else "digits"
                bad.setdefault(k, []).append((c, (want, s_)))
            else:
                n_ok += 1
        short = path.split("::")[-2] + "::" + path.split("::")[-1] if "From" in path else path
        if und:
            ctx.abstain(rid, "%s (%s of %d bytes) does not fold: %s" % (path, kind, n, und), where_fn(g))
            decided = False
            continue
        for k, lst in sorted(bad.items()):
            c0, info = lst[0]
            ctx.fail(rid, "%s/%s%d/%s" % (path, kind, n, k), where_fn(g), path, "%s on %d colour(s), e.g. %s" % (k, len(lst), list(c0)),
                     "the colour string is not #rrggbb[aa] of the channels", expected=info[0] if k != "panics" else "a colour string",
                     found=info[1] if k != "panics" else info)
        if n_ok:
            ctx.ok(rid, "%s (%s, %d channels): %d colours" % (short, kind, n, n_ok), n=n_ok)
    return decided


# ---------------------------------------------------------------------------
# C12.T1 / T2 shapes
# ---------------------------------------------------------------------------

SNAKE = {"Square": "square", "Circle": "circle", "RoundedSquare": "rounded_square", "Vertical": "vertical",
         "Horizontal": "horizontal", "Diamond": "diamond"}


def c12_t1(ctx, f):
    rid = "C12.T1"
    ctx.rule(rid, "built-in shapes dispatch to their own generator; sub-paths start at M{column},{row}")
    fn = anchor_fn(ctx, rid, f, "<convert::Shape as std::ops::Deref>::deref")
    vs = f.enum_variants(SHAPE)
    if not fn or not vs:
        return
    F = fold.Folder(f)
    seen = {}
    for vi, (name, d) in enumerate(vs):
        if name not in SNAKE:
            continue
        val = ("adt", SHAPE, vi, name, ())
        r = F.run(fn.path, [("ref", ("const", val))])
        got = to_py(r.value) if r.kind == "ret" else None
        tgt = got[3:] if isinstance(got, str) and got.startswith("fn:") else None
        last = tgt.split("::")[-1] if tgt else None
        seen[name] = tgt
        ok = tgt is not None
        if ok and last in SNAKE.values() and last != SNAKE[name]:
            ctx.fail(rid, "%s/swap/%s" % (fn.path, name), where_fn(fn), fn.path, name,
                     "shape is rendered by the generator named after a different shape", expected=SNAKE[name], found=last)
        else:
            ctx.check(rid, ok, "%s/%s" % (fn.path, name), where_fn(fn), fn.path, name, "shape does not resolve to a generator function",
                      found=str(r), sample="Shape::%s -> %s" % (name, last))
    ctx.check(rid, len(set(seen.values())) == len(seen), fn.path + "/injective", where_fn(fn), fn.path, "dispatch",
              "two shapes share a generator", found=seen)
    # generators
    n = 0
    for name, tgt in seen.items():
        g = f.fn(tgt) if tgt else None
        if not g:
            continue
        ctx.analysed(g)
        sites = strflow.format_sites(g)
        if len(sites) != 1:
            ctx.abstain(rid, "%s is not a single format!" % tgt, where_fn(g))
            continue
        s = sites[0]
        n += 1
        lit = s.literal_text()
        holes = [p for p in s.pieces if p[0] == "arg"]
        first_two = holes[:2]
        okm = s.pieces and s.pieces[0] == ("lit", "M")
        deps = []
        for h in first_two:
            a = s.args[h[1]] if h[1] < len(s.args) else None
            e = strip_refs(g.canon(a["operand"], a["point"])) if a else None
            ps_ = sorted({x[1] for x in subexprs(e) if x[0] == "param"}) if e else []
            deps.append(ps_)
        # fn(y, x, module): the first coordinate after M is the column (param 2), the second the row (param 1)
        ctx.check(rid, bool(okm) and deps == [[2], [1]], g.path + "/anchor", where_fn(g), g.path, "sub-path start",
                  "the sub-path does not start with M{column},{row}", expected="M{x..},{y..}", found=s.skeleton(),
                  sample="%s: %s" % (name, s.skeleton()))
        ctx.check(rid, re.fullmatch(r"[A-Za-z0-9 .,\-]*", lit) is not None, g.path + "/charset", where_fn(g), g.path, "literal text",
                  "path data contain characters that are not safe inside a double-quoted attribute", found=lit,
                  sample="%s literal charset ok" % name)
        # all holes are integers (usize Display)
        okh = all(a["kind"] == "new_display" for a in s.args)
        ctx.check(rid, okh, g.path + "/holes", where_fn(g), g.path, "placeholders", "a placeholder is not a plain integer", sample="integer holes")
    ctx.floor(rid, "built-in shape generators", n, 6)


# ---------------------------------------------------------------------------
# C18
# ---------------------------------------------------------------------------

def c18_t1(ctx, f):
    rid = "C18.T1"
    ctx.rule(rid, "default frame: odd, non-decreasing, < 40% of the side, clear of finders; image <= frame (3 x 40)")
    fn = anchor_fn(ctx, rid, f, SVGB + "::image_placement", [IBS, "usize"], "(f64, f64)", private=True)
    vs = f.enum_variants(IBS)
    if not fn or not vs:
        return
    if (fn.raw.get("inputs") or []) != [IBS, "usize"] or fn.raw.get("output") != "(f64, f64)":
        # a private helper with another contract (what the integer means, what it returns): decided through image() by C18.R2
        ctx.abstain(rid, "image_placement is not (shape, symbol side) -> (frame side, image side): its table is read through "
                         "SvgBuilder::image by C18.R2 only", where_fn(fn))
        return
    from . import peval as _pe
    F = _pe.PEval(f, max_steps=1_000_000)
    unfold = []
    for name, d in vs:
        prev = None
        for v in range(1, 41):
            n = ref.side(v)
            r = F.run(fn.path, args_for(fn, {IBS: mk_enum(IBS, name), "usize": mk_int("usize", n)}))
            got = to_py(r.value) if r.kind == "ret" else None
            inst = "%s/V%02d" % (name, v)
            if not (isinstance(got, list) and len(got) == 2 and all(isinstance(x, float) for x in got)):
                if r.kind != "ret" or "top" in str(r.value):
                    # not evaluated (an unmodelled call, an unknown value): no verdict on the numbers
                    unfold.append((inst, r.why or str(r.value)[:80]))
                    continue
                ctx.fail(rid, "%s/%s" % (fn.path, inst), where_fn(fn), fn.path, inst, "default placement does not fold to two numbers", found=str(r))
                continue
            b, im = got
            odd = b == int(b) and int(b) % 2 == 1
            ctx.check(rid, odd, "%s/%s/odd" % (fn.path, inst), where_fn(fn), fn.path, inst,
                      "frame side is not an odd integer: with the odd symbol side the frame cannot be centred on module boundaries",
                      found=b, sample="%s frame %s image %s" % (inst, b, im))
            ctx.check(rid, prev is None or b >= prev, "%s/%s/monotone" % (fn.path, inst), where_fn(fn), fn.path, inst,
                      "frame side shrinks as the version grows", expected=">= %s" % prev, found=b)
            ctx.check(rid, b < 0.4 * n, "%s/%s/ratio" % (fn.path, inst), where_fn(fn), fn.path, inst,
                      "frame side reaches 40%% of the symbol side (%d)" % n, expected="< %.1f" % (0.4 * n), found=b)
            ctx.check(rid, (n - b) / 2 >= 8, "%s/%s/finder" % (fn.path, inst), where_fn(fn), fn.path, inst,
                      "centred frame touches the finder pattern zone", expected="(n - b)/2 >= 8", found=(n - b) / 2)
            ctx.check(rid, 1 <= im <= b, "%s/%s/image" % (fn.path, inst), where_fn(fn), fn.path, inst,
                      "default image side is not within 1..frame side", found=(b, im))
            prev = b
    if unfold:
        ctx.abstain(rid, "image_placement does not fold for %d (shape, version) cell(s), e.g. %s: %s" % (len(unfold), unfold[0][0], unfold[0][1]),
                    where_fn(fn))


def c18_r1(ctx, f):
    rid = "C18.R1"
    ctx.rule(rid, "x/y symmetry of frame and image placement; width = height")
    fn = anchor_fn(ctx, rid, f, SVGB + "::image")
    if not fn:
        return

    def swap(e):
        if not isinstance(e, tuple):
            return e
        if e[0] == "field" and e[2] in (0, 1) and _pair_base(fn, e[1]):
            return ("field", swap(e[1]), 1 - e[2], str(1 - e[2]) if e[3] is not None else None)
        return tuple(swap(x) for x in e)

    def norm(e):
        return poly.normalise(e).key()

    pairs = []
    # (1) every definition of a (f64, f64) local from a tuple literal
    for b in fn.blocks:
        if b["cleanup"]:
            continue
        for i, st in enumerate(b["stmts"]):
            if st["k"] == "assign" and st["rv"]["k"] == "agg" and st["rv"]["agg"] == "tuple" and st.get("pty") == "(f64, f64)":
                o = st["rv"]["ops"]
                pairs.append(("coordinate pair at line %s" % st.get("line"), fn.canon(o[0], (b["id"], i)), fn.canon(o[1], (b["id"], i)), (b["id"], i)))
    # (2) holes x / y of each element
    sites = strflow.format_sites(fn)
    for s in sites:
        at = hole_attrs(s.pieces)
        xs = [i for i, a in at.items() if a == "x"]
        ys = [i for i, a in at.items() if a == "y"]
        if len(xs) == 1 and len(ys) == 1 and max(xs[0], ys[0]) < len(s.args):
            ex = strip_refs(fn.canon(s.args[xs[0]]["operand"], s.args[xs[0]]["point"]))
            ey = strip_refs(fn.canon(s.args[ys[0]]["operand"], s.args[ys[0]]["point"]))
            pairs.append(("x/y attributes of %s" % s.skeleton()[:24], ex, ey, s.new_call.point))
        ws = [i for i, a in hole_attr_list(s.pieces) if a in ("width", "height")]
        if len(ws) == 2:
            ctx.check(rid, ws[0] == ws[1], fn.path + "/square/" + s.skeleton()[:12], fn.where(s.new_call.point), fn.path,
                      "width/height of " + s.skeleton()[:24], "width and height are filled from different values", found=ws,
                      sample="width = height (same argument)")
    # (3) the replace()-built rectangle: {0} <- .0, {1} <- .1, {2} once for both
    reps = {}
    for c in fn.calls("std::str::<impl str>::replace"):
        pat = strflow.string_source(fn, c.args[1], c.point)
        if pat["kind"] == "lit":
            src = strflow.string_source(fn, c.args[2], c.point)
            val = None
            if src["kind"] == "call" and src["callee"].endswith("to_string"):
                val = strip_refs(fn.canon(src["call"]["args"][0], src["point"]))
            reps[pat["text"]] = (val, c)
    if "{0}" in reps and "{1}" in reps and reps["{0}"][0] is not None and reps["{1}"][0] is not None:
        pairs.append(("frame x/y substitution", reps["{0}"][0], reps["{1}"][0], reps["{0}"][1].point))
    n = 0
    for what, ex, ey, pt in pairs:
        n += 1
        ok = norm(swap(ex)) == norm(ey)
        ctx.check(rid, ok, "%s/symmetry/%d" % (fn.path, n), fn.where(pt), fn.path, what,
                  "the x and y expressions differ by more than the swapped position component: frame or image is off-centre on one axis",
                  expected=expr_str(swap(ex), fn), found=expr_str(ey, fn), sample="%s symmetric" % what)
    ctx.floor(rid, "x/y expression pairs", n, 3)


def _pair_base(fn, b):
    if b[0] == "phi":
        return fn.locals[b[1]]["ty"] == "(f64, f64)"
    if b[0] == "def":
        d = def_of(fn, b[1])
        return fn.locals[d.local]["ty"] == "(f64, f64)" if d.local > 0 else False
    return b[0] == "field" and b[1][0] == "downcast" and "image_position" in repr(b)


# ---------------------------------------------------------------------------
# C19
# ---------------------------------------------------------------------------

PROPAGATE = ("std::result::Result::<T, E>::map_err", "<std::result::Result<T, E> as std::ops::Try>::branch",
             "std::result::Result::<T, E>::map", "std::result::Result::<T, E>::and_then", "std::result::Result::<T, E>::or_else")
FORBIDDEN_LAST = ("unwrap", "expect", "ok", "is_ok", "is_err", "unwrap_or", "unwrap_or_default", "unwrap_or_else", "unwrap_err", "drop", "err")


def is_io_result(ty):
    return ty.startswith("std::result::Result<") and ("std::io::Error" in ty or "png::EncodingError" in ty or "EncodingError" in ty)


def c19_fn(ctx, f, path, io_floor):
    r1, r2 = "C19.R1", "C19.R2"
    ctx.rule(r1, "no I/O error is dropped: every fallible I/O result is propagated into the return value")
    ctx.rule(r2, "Ok is produced only after every fallible step succeeded")
    fn = anchor_fn(ctx, r1, f, path)
    if not fn:
        return
    ios = [c for c in fn.calls() if is_io_result(c.term.get("dest_ty", "")) and not (c.name in PROPAGATE)]
    ctx.analysed(fn, len(ios))
    ctx.floor(r1, "fallible I/O calls in " + path, len(ios), io_floor)
    ret_ty = fn.raw["output"]
    for k, c in enumerate(sorted(ios, key=lambda c: (c.line, c.block))):
        ok, why = _propagated(fn, c.dest["l"], c.point, 0)
        ctx.check(r1, ok, "%s/%s#%d" % (fn.path, (c.name or "?").split("::")[-1], k), c.where(), fn.path, "result of " + (c.name or "?"),
                  "the I/O result is %s: a failed create/write would be reported as success or panic" % why,
                  expected="map_err / ? / returned", found=why, sample="%s -> %s" % ((c.name or "?").split("::")[-1], why))
    # no unwrap/expect on any Result in this function
    for c in fn.calls():
        nm = (c.name or "")
        if nm.startswith("std::result::Result::<T, E>::") and nm.split("::")[-1] in ("unwrap", "expect", "unwrap_err", "ok"):
            src = fn.origins(c.args[0], c.point)
            if any(is_io_result(fn.locals[o.info.local]["ty"]) for o in src if o.kind == "call" and o.info.local > 0):
                pass  # already reported by R1
    # R2
    oks = []
    for b in fn.blocks:
        if b["cleanup"]:
            continue
        for i, st in enumerate(b["stmts"]):
            if st["k"] == "assign" and st["p"] == {"l": 0, "proj": []} and st["rv"]["k"] == "agg" and st["rv"].get("variant") == "Ok":
                oks.append((b["id"], i))
    branches = fn.calls("<std::result::Result<T, E> as std::ops::Try>::branch")
    if oks:
        for ob, oi in oks:
            for c in branches:
                # continue edge: switch on discr of branch result, value 0
                sw = c.target
                t = fn.blocks[sw]["term"] if sw is not None else None
                ok = False
                if t and t["k"] == "switch":
                    cont = [tgt for v, tgt in t["arms"] if v == 0]
                    ok = bool(cont) and fn.edge_dominates((sw, cont[0]), ob)
                ctx.check(r2, ok, "%s/ok-after/%d" % (fn.path, branches.index(c)), fn.where((ob, oi)), fn.path, "Ok(..)",
                          "Ok is reachable without passing the success edge of a fallible step (`?` at line %s)" % c.line,
                          sample="Ok dominated by success of `?` at line %s" % c.line)
            for c in ios:
                ctx.check(r2, fn.dominates(c.block, ob), "%s/ok-after-call/%s" % (fn.path, (c.name or "?").split("::")[-1]), fn.where((ob, oi)),
                          fn.path, "Ok(..)", "Ok can be returned without performing %s" % c.name, sample="Ok dominated by %s" % (c.name or "?").split("::")[-1])
    else:
        # the function returns a propagated Result directly (e.g. `x.map_err(..)`): fine if return origin is a Result chain
        ro = [o for rp in ret_points(fn) for o in fn.origins({"k": "copy", "p": {"l": 0, "proj": []}}, rp)]
        ok = bool(ro) and all(o.kind == "call" and o.callee() in PROPAGATE for o in ro)
        ctx.check(r2, ok, fn.path + "/returns-chain", where_fn(fn), fn.path, "return value",
                  "the return value is neither an explicit Ok after all steps nor the propagated result of the last step",
                  found=[o.describe(fn) for o in ro], sample="returns the propagated result")
    _ = ret_ty
    return fn


def _propagated(fn, local, point, depth):
    """is the Result in `local` (defined at point) consumed only by propagation into the return value?"""
    if depth > 6:
        return False, "propagation chain too deep"
    uses = [u for u in fn.uses_of_def_result(local) if u != point]
    real = []
    for u in uses:
        b, i = u
        blk = fn.blocks[b]
        if i < len(blk["stmts"]):
            st = blk["stmts"][i]
            rv = st["rv"]
            if rv["k"] == "discr":
                real.append(("match", u))
            elif rv["k"] == "use" and st["p"] == {"l": 0, "proj": []}:
                real.append(("returned", u))
            elif rv["k"] == "use" and rv["op"]["k"] in ("copy", "move") and rv["op"]["p"]["proj"]:
                real.append(("match payload", u))  # reads the Ok/Err payload after a match
            elif rv["k"] == "use" and not st["p"]["proj"]:
                ok, why = _propagated(fn, st["p"]["l"], u, depth + 1)
                real.append((why if ok else "!" + why, u))
            elif rv["k"] in ("ref",):
                real.append(("!borrowed (is_ok/is_err/..?)", u))
            else:
                real.append(("read", u))
        else:
            t = blk["term"]
            if t["k"] == "call":
                nm = t.get("callee") or t.get("declared") or ""
                if nm in PROPAGATE:
                    d = t["dest"]
                    if d == {"l": 0, "proj": []}:
                        real.append(("returned via " + nm.split("::")[-1], u))
                    else:
                        ok, why = _propagated(fn, d["l"], u, depth + 1)
                        real.append((why if ok else "!" + why, u))
                elif nm.endswith("::from_residual"):
                    real.append(("returned (?)", u))
                elif nm.split("::")[-1] in FORBIDDEN_LAST or nm in ("std::mem::drop", "core::mem::drop"):
                    real.append(("!consumed by " + nm.split("::")[-1], u))
                else:
                    real.append(("!passed to " + nm, u))
            elif t["k"] == "drop":
                continue
            elif t["k"] == "switch":
                real.append(("match", u))
    if not real:
        return False, "never used (dropped)"
    bad = [w for w, u in real if w.startswith("!")]
    if bad:
        return False, bad[0][1:]
    return True, real[0][0]


def c19_r3(ctx, f):
    rid = "C19.R3"
    ctx.rule(rid, "the whole in-memory rendering is written: write_all(as_bytes(to_str(self, qr)))")
    fn = anchor_fn(ctx, rid, f, SVGB + "::to_file")
    if not fn:
        return
    wa = [c for c in fn.calls() if (c.declared or "").endswith("Write::write_all") or (c.name or "").endswith("::write_all")]
    w = [c for c in fn.calls() if (c.declared or "") in ("std::io::Write::write",) or (c.name or "").endswith("Write>::write")]
    for c in w:
        ctx.fail(rid, fn.path + "/partial-write", c.where(), fn.path, c.name, "Write::write may write only part of the buffer and its count is not checked")
    ctx.check(rid, len(wa) == 1, fn.path + "/write_all", where_fn(fn), fn.path, "write call", "the document is not written with one write_all",
              found=[c.name for c in wa], sample="one write_all")
    if len(wa) == 1:
        c = wa[0]
        e = fn.canon(c.args[1], c.point)
        ts = fn.calls(SVGB + "::to_str")
        ok = False
        if len(ts) == 1:
            tdef = [d for d in fn.defs()[0] if d.kind == "calldest" and d.point == ts[0].point][0]
            ok = strip_refs(e) == ("call", "as_bytes", (("ref", ("def", tdef.id)),)) or (
                e[0] == "call" and e[1] == "as_bytes" and strip_refs(e[2][0]) == ("def", tdef.id))
            # `out` not modified between to_str and write
            if ok:
                l = tdef.local
                ok = all(d.strong for d in fn.reaching(l, c.point))
            # to_str on own params
            for i, a in enumerate(ts[0].args):
                o = fn.origins(a, ts[0].point)
                ok = ok and len(o) == 1 and o[0].kind == "param"
        ctx.check(rid, ok, fn.path + "/bytes", c.where(), fn.path, "bytes written",
                  "the bytes written are not exactly as_bytes() of to_str(self, qr)", found=expr_str(e, fn), sample="write_all(to_str(self, qr).as_bytes())")
        # file created from the path parameter
        fc = fn.calls("std::fs::File::create")
        okf = len(fc) == 1 and [o.kind for o in fn.origins(fc[0].args[0], fc[0].point)] == ["param"]
        ctx.check(rid, okf, fn.path + "/path", where_fn(fn), fn.path, "file created", "the file is not created at the caller's path", sample="File::create(file)")
        # written to that file
        if okf:
            wo = fn.canon(c.args[0], c.point)
            fdef = [d for d in fn.defs()[0] if d.kind == "calldest" and d.point == fc[0].point][0]
            ctx.check(rid, contains(wo, ("def", fdef.id)) or _flows_from(fn, c.args[0], c.point, fdef.id), fn.path + "/target", c.where(), fn.path,
                      "write target", "write_all does not write to the created file", found=expr_str(wo, fn), sample="written to the created file")
        # a buffering writer keeps bytes in memory: its errors surface at flush (or are discarded in drop)
        recv_ty = ""
        a0 = c.args[0]
        if a0["k"] in ("copy", "move"):
            recv_ty = fn.local_ty(a0["p"]["l"]) or ""
        buffered = any(k in recv_ty or k in (c.name or "") for k in ("BufWriter", "LineWriter"))
        if buffered:
            fl = [x for x in fn.calls() if (x.declared or "").endswith("Write::flush") or (x.name or "").endswith("::flush")
                  or (x.name or "").endswith("::into_inner")]
            rets_ok = [b["id"] for b in fn.blocks if not b["cleanup"] and b["term"]["k"] == "ret"]
            good = [x for x in fl if fn.dominates(c.block, x.block) and x.block != c.block]
            ctx.check(rid, bool(good), fn.path + "/flush", c.where(), fn.path, "buffered writer `%s`" % recv_ty,
                      "the document is written through a buffering writer that is never flushed: a failed or short write surfaces only "
                      "when the writer is dropped, where the error is discarded, and Ok(()) is returned for a truncated file",
                      found=[x.name for x in fl], sample="buffered writer flushed before Ok")
            _ = rets_ok


def _flows_from(fn, op, pt, defid):
    sl = fn.deps(op, pt)
    return defid in sl.defs


def c19_r4(ctx, f, impls):
    rid = "C19.R4"
    ctx.rule(rid, "conversions into ConvertError keep the payload and cannot panic")
    for path, mapping in impls:
        fn = anchor_fn(ctx, rid, f, path)
        if not fn:
            continue
        got = {}
        for b in fn.blocks:
            if b["cleanup"]:
                continue
            for i, st in enumerate(b["stmts"]):
                if st["k"] == "assign" and st["rv"]["k"] == "agg" and st["rv"].get("path") == "convert::ConvertError":
                    o = fn.origins(st["rv"]["ops"][0], (b["id"], i))
                    src = None
                    if len(o) == 1 and o[0].kind == "param" and o[0].proj and o[0].proj[0][0] == "dc":
                        # which source variant: look at the switch guard
                        for cd, how, s in fn.switch_guards(b["id"]):
                            if cd[0] == "discr" and how[0] == "eq":
                                ty = fn.locals[1]["tyt"]["path"]
                                vs = f.enum_variants(ty) or []
                                src = [n for n, d in vs if d == how[1]]
                                src = src[0] if src else None
                    got[src] = st["rv"]["variant"]
        ctx.check(rid, got == mapping, fn.path + "/mapping", where_fn(fn), fn.path, "variant mapping",
                  "an error variant is converted to the wrong category or loses its payload", expected=mapping, found=got,
                  sample="%s" % got)
        pan = [c.name for c in fn.calls() if (c.name or "").startswith("core::panicking")]
        ctx.check(rid, not pan, fn.path + "/no-panic", where_fn(fn), fn.path, "panic calls", "error conversion can panic", found=pan)
