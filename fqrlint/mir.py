"""MIR program model and the classical analyses the rules are written in:
CFG, dominators, edge-dominance, reaching definitions, points-to-lite,
canonical expressions, data-dependence slices, forward taint.

Program point = (block id, statement index); the terminator of block b is the
point (b, len(stmts)).  Cleanup (unwind) blocks are not part of the CFG.
"""
import json
from collections import defaultdict, deque

ENTRY = (-1, 0)  # pseudo point: parameter definitions


def place_str(p):
    s = "_%d" % p["l"]
    for e in p["proj"]:
        if e == "deref":
            s = "(*%s)" % s
        elif isinstance(e, dict) and "f" in e:
            s += "." + (e.get("name") or str(e["f"]))
        elif isinstance(e, dict) and "idx" in e:
            s += "[_%d]" % e["idx"]
        elif isinstance(e, dict) and "cidx" in e:
            s += "[%s%d]" % ("-" if e["fe"] else "", e["cidx"])
        elif isinstance(e, dict) and "dc" in e:
            s += " as %s" % e["dc"]
        elif isinstance(e, dict) and "sub" in e:
            s += "[%d..%d]" % (e["sub"][0], e["sub"][1])
        else:
            s += ".?" + str(e)
    return s


def op_str(o):
    if o is None:
        return "?"
    if o["k"] in ("copy", "move"):
        return place_str(o["p"])
    if o["k"] == "const":
        if o.get("fn"):
            return "fn " + o["fn"]
        if o.get("item"):
            return "const " + o["item"]
        return "const %s" % json.dumps(o.get("val"))
    return o["k"]


def proj_key(proj):
    out = []
    for e in proj:
        if isinstance(e, dict):
            if "f" in e:
                out.append(("f", e["f"]))
            elif "idx" in e:
                out.append(("idx", e["idx"]))
            elif "cidx" in e:
                out.append(("cidx", e["cidx"], e["fe"]))
            elif "dc" in e:
                out.append(("dc", e["vi"]))
            elif "sub" in e:
                out.append(("sub",) + tuple(e["sub"]))
            else:
                out.append(("?", json.dumps(e, sort_keys=True)))
        else:
            out.append((e,))
    return tuple(out)


class Def:
    """One definition of (part of) a local."""

    __slots__ = ("id", "local", "point", "kind", "strong", "proj", "rv", "call", "argidx")

    def __init__(self, id, local, point, kind, strong, proj=(), rv=None, call=None, argidx=None):
        self.id = id
        self.local = local
        self.point = point
        self.kind = kind  # 'param' | 'assign' | 'calldest' | 'callmut' | 'store' (through pointer) | 'setdiscr'
        self.strong = strong
        self.proj = proj
        self.rv = rv
        self.call = call
        self.argidx = argidx

    def __repr__(self):
        return "Def#%d(_%d@%s %s%s)" % (self.id, self.local, self.point, self.kind, "" if self.strong else " weak")


class CallSite:
    def __init__(self, fn, bid, term):
        self.fn = fn
        self.block = bid
        self.term = term
        self.callee = term.get("callee")
        self.declared = term.get("declared")
        self.name = self.callee or self.declared
        self.args = term["args"]
        self.dest = term["dest"]
        self.target = term.get("target")
        self.line = term.get("line")
        self.point = (bid, len(fn.blocks[bid]["stmts"]))
        self.trait = term.get("trait")
        self.generics = term.get("generics") or []
        self.indirect = term.get("indirect")
        self.macros = term.get("macros") or []

    def is_(self, *names):
        return self.callee in names or self.declared in names

    def where(self):
        return "%s:%s" % (self.term.get("file"), self.line)

    def __repr__(self):
        return "Call(%s @%s:%s)" % (self.name, self.fn.path, self.line)


class Function:
    def __init__(self, raw, facts):
        self.raw = raw
        self.facts = facts
        self.path = raw["path"]
        self.file = raw["file"]
        self.blocks = raw["blocks"]
        self.locals = raw["locals"]
        self.arg_count = raw["arg_count"]
        self.n = len(self.blocks)
        self.live = [not b["cleanup"] for b in self.blocks]
        self.succ = [[] for _ in range(self.n)]
        self.pred = [[] for _ in range(self.n)]
        for b in self.blocks:
            if b["cleanup"]:
                continue
            for t in self._succ_of(b["term"]):
                if t is not None and self.live[t]:
                    self.succ[b["id"]].append(t)
                    self.pred[t].append(b["id"])
        self._dom = None
        self._defs = None
        self._rd_in = None
        self._pts = None
        self._calls = None
        self._reach_cache = {}

    # ------------------------------------------------------------------ CFG
    @staticmethod
    def _succ_of(t):
        if t is None:
            return []
        k = t["k"]
        if k == "goto":
            return [t["target"]]
        if k == "switch":
            return [a[1] for a in t["arms"]] + [t["otherwise"]]
        if k in ("drop", "assert"):
            return [t["target"]]
        if k == "call":
            return [t["target"]] if t.get("target") is not None else []
        return []

    def where(self, point=None):
        if point is None:
            return "%s:%s" % (self.file, self.raw["lo"])
        return "%s:%s" % (self.file, self.line_of(point))

    def line_of(self, point):
        b, i = point
        if b < 0:
            return self.raw["lo"]
        blk = self.blocks[b]
        if i < len(blk["stmts"]):
            return blk["stmts"][i].get("line")
        return blk["term"].get("line")

    def term(self, b):
        return self.blocks[b]["term"]

    def local_ty(self, l):
        return self.locals[l]["ty"]

    def local_name(self, l):
        return self.locals[l].get("name")

    def params(self):
        return list(range(1, self.arg_count + 1))

    def param_by_name(self, name):
        for l in self.params():
            if self.locals[l].get("name") == name:
                return l
        return None

    def params_of_type(self, ty):
        return [l for l in self.params() if self.locals[l]["ty"] == ty]

    def rpo(self):
        seen = set()
        order = []
        stack = [(0, iter(self.succ[0]))]
        seen.add(0)
        while stack:
            b, it = stack[-1]
            adv = False
            for s in it:
                if s not in seen:
                    seen.add(s)
                    stack.append((s, iter(self.succ[s])))
                    adv = True
                    break
            if not adv:
                order.append(b)
                stack.pop()
        order.reverse()
        return order

    def dominators(self):
        """idom map by Cooper-Harvey-Kennedy."""
        if self._dom is not None:
            return self._dom
        order = self.rpo()
        idx = {b: i for i, b in enumerate(order)}
        idom = {0: 0}
        changed = True
        while changed:
            changed = False
            for b in order[1:]:
                new = None
                for p in self.pred[b]:
                    if p in idom:
                        if new is None:
                            new = p
                        else:
                            a, c = p, new
                            while a != c:
                                while idx[a] > idx[c]:
                                    a = idom[a]
                                while idx[c] > idx[a]:
                                    c = idom[c]
                            new = a
                if new is not None and idom.get(b) != new:
                    idom[b] = new
                    changed = True
        self._dom = idom
        return idom

    def dominates(self, a, b):
        """block a dominates block b"""
        idom = self.dominators()
        if b not in idom:
            return False
        while True:
            if a == b:
                return True
            if b == 0:
                return False
            b = idom[b]

    def point_dominates(self, p, q):
        """point p dominates point q"""
        if p[0] < 0:
            return True
        if p[0] == q[0]:
            return p[1] <= q[1]
        return self.dominates(p[0], q[0])

    def reachable(self, removed_edges=(), removed_blocks=(), start=0):
        key = (tuple(sorted(removed_edges)), tuple(sorted(removed_blocks)), start)
        if key in self._reach_cache:
            return self._reach_cache[key]
        rem = set(removed_edges)
        remb = set(removed_blocks)
        seen = set()
        if start not in remb:
            seen.add(start)
            dq = deque([start])
            while dq:
                b = dq.popleft()
                for s in self.succ[b]:
                    if (b, s) in rem or s in remb or s in seen:
                        continue
                    seen.add(s)
                    dq.append(s)
        self._reach_cache[key] = seen
        return seen

    def edge_dominates(self, edge, block):
        """every path entry -> block traverses edge (s,t)"""
        if block not in self.reachable():
            return False
        # multi-edges s->t (two switch arms to the same target) are one CFG edge here
        return block not in self.reachable(removed_edges=(edge,))

    def reaches(self, a, b, avoiding_blocks=()):
        """block b reachable from block a (a != b needs >= 1 edge; a == b is True)"""
        return b in self.reachable(removed_blocks=tuple(avoiding_blocks), start=a)

    def natural_loop(self, head):
        """blocks of the natural loop(s) with header `head`"""
        body = {head}
        srcs = [p for p in self.pred[head] if self.dominates(head, p)]
        work = list(srcs)
        while work:
            b = work.pop()
            if b in body:
                continue
            body.add(b)
            for p in self.pred[b]:
                if p not in body:
                    work.append(p)
        return body if srcs else set()

    def in_loop(self, b):
        """block b lies on a cycle"""
        for s in self.succ[b]:
            if b in self.reachable(start=s):
                return True
        return False

    # ---------------------------------------------------------------- calls
    def calls(self, *names, pred=None):
        if self._calls is None:
            self._calls = []
            for b in self.blocks:
                if b["cleanup"] or b["term"] is None:
                    continue
                if b["term"]["k"] == "call":
                    self._calls.append(CallSite(self, b["id"], b["term"]))
        out = self._calls
        if names:
            out = [c for c in out if c.callee in names or c.declared in names]
        if pred:
            out = [c for c in out if pred(c)]
        return out

    def call_at(self, bid):
        t = self.blocks[bid]["term"]
        if t and t["k"] == "call":
            for c in self.calls():
                if c.block == bid:
                    return c
        return None

    # ------------------------------------------------------- points-to-lite
    def is_ref_local(self, l):
        t = self.locals[l]["tyt"]
        return t["k"] in ("ref", "ptr")

    def points_to(self):
        """flow-insensitive: ref-typed local -> set of abstract objects.
        objects: ('local', l) | ('param', l) pointee of a reference parameter |
                 ('callret', block) reference returned by a call | ('const',)"""
        if self._pts is not None:
            return self._pts
        pts = defaultdict(set)
        for l in self.params():
            if self.is_ref_local(l):
                pts[l].add(("param", l))
        edges = []  # (dst_local, src_local) copy edges
        callret = []
        for b in self.blocks:
            if b["cleanup"]:
                continue
            for st in b["stmts"]:
                if st["k"] != "assign" or st["p"]["proj"]:
                    continue
                dst = st["p"]["l"]
                rv = st["rv"]
                if rv["k"] in ("ref", "rawptr"):
                    src = rv["p"]
                    if src["proj"] and src["proj"][0] == "deref":
                        edges.append((dst, src["l"]))
                    else:
                        pts[dst].add(("local", src["l"]))
                elif rv["k"] in ("use", "cast", "copyforderef"):
                    o = rv.get("op")
                    if rv["k"] == "copyforderef":
                        src = rv["p"]
                        if not src["proj"]:
                            edges.append((dst, src["l"]))
                        elif src["proj"][0] == "deref":
                            # loading a reference out of memory: aliases whatever base points to (coarse)
                            edges.append((dst, src["l"]))
                        else:
                            edges.append((dst, src["l"]))
                    elif o and o["k"] in ("copy", "move"):
                        if self.is_ref_local(dst) or True:
                            edges.append((dst, o["p"]["l"]))
                    elif o and o["k"] == "const":
                        pts[dst].add(("const",))
                elif rv["k"] == "agg":
                    for o in rv["ops"]:
                        if o["k"] in ("copy", "move"):
                            edges.append((dst, o["p"]["l"]))
            t = b["term"]
            if t and t["k"] == "call" and not t["dest"]["proj"]:
                dst = t["dest"]["l"]
                dty = self.locals[dst]["tyt"]
                if _may_hold_ref(dty):
                    pts[dst].add(("callret", b["id"]))
                    for a in t["args"]:
                        if a["k"] in ("copy", "move"):
                            callret.append((dst, a["p"]["l"]))
        changed = True
        while changed:
            changed = False
            for dst, src in edges + callret:
                before = len(pts[dst])
                pts[dst] |= pts[src]
                if len(pts[dst]) != before:
                    changed = True
        self._pts = pts
        return pts

    def pointee_locals(self, l):
        return {o[1] for o in self.points_to().get(l, ()) if o[0] == "local"}

    # ------------------------------------------------- reaching definitions
    def defs(self):
        if self._defs is not None:
            return self._defs
        defs = []
        by_point = defaultdict(list)

        def add(local, point, kind, strong, **kw):
            d = Def(len(defs), local, point, kind, strong, **kw)
            defs.append(d)
            by_point[point].append(d)
            return d

        for l in self.params():
            add(l, ENTRY, "param", True)
            if self.is_ref_local(l):
                add(-l, ENTRY, "param", True)  # initial content of the pointee
        pts = self.points_to()
        for b in self.blocks:
            if b["cleanup"]:
                continue
            bid = b["id"]
            for i, st in enumerate(b["stmts"]):
                if st["k"] == "assign":
                    p = st["p"]
                    if not p["proj"]:
                        add(p["l"], (bid, i), "assign", True, rv=st["rv"])
                    elif p["proj"][0] == "deref":
                        # store through a pointer: def of every local it may point to; strong when the
                        # pointer has one possible target and the whole pointee is overwritten
                        tg = [o for o in pts.get(p["l"], ()) if o[0] in ("local", "param")]
                        whole = len(pts.get(p["l"], ())) == 1 and len(p["proj"]) == 1
                        for o in tg:
                            if o[0] == "local":
                                add(o[1], (bid, i), "store", whole, proj=proj_key(p["proj"][1:]), rv=st["rv"])
                            elif o[0] == "param":
                                # pointee of a reference parameter: modelled as pseudo-local -(l)
                                add(-o[1], (bid, i), "store", whole, proj=proj_key(p["proj"][1:]), rv=st["rv"])
                    else:
                        add(p["l"], (bid, i), "assign", False, proj=proj_key(p["proj"]), rv=st["rv"])
                elif st["k"] == "setdiscr":
                    add(st["p"]["l"], (bid, i), "setdiscr", False)
            t = b["term"]
            if t and t["k"] == "call":
                pt = (bid, len(b["stmts"]))
                d = t["dest"]
                if not d["proj"]:
                    add(d["l"], pt, "calldest", True, call=t)
                elif d["proj"][0] == "deref":
                    for o in pts.get(d["l"], ()):
                        if o[0] == "local":
                            add(o[1], pt, "store", False, call=t)
                        elif o[0] == "param":
                            add(-o[1], pt, "store", False, call=t)
                else:
                    add(d["l"], pt, "calldest", False, proj=proj_key(d["proj"]), call=t)
                for ai, a in enumerate(t["args"]):
                    if a["k"] in ("copy", "move") and not a["p"]["proj"]:
                        al = a["p"]["l"]
                        ty = self.locals[al]["tyt"]
                        if ty["k"] == "ref" and ty["mut"] or ty["k"] == "ptr" and ty["mut"]:
                            for o in pts.get(al, ()):
                                if o[0] == "local":
                                    add(o[1], pt, "callmut", False, call=t, argidx=ai)
                                elif o[0] == "param":
                                    add(-o[1], pt, "callmut", False, call=t, argidx=ai)
        self._defs = (defs, by_point)
        return self._defs

    def _rd(self):
        if self._rd_in is not None:
            return self._rd_in
        defs, by_point = self.defs()
        # per-block gen/kill over sets of def ids; state: dict local -> frozenset(def ids)
        order = self.rpo()
        IN = {b: None for b in order}
        OUT = {}
        entry_state = {}
        for d in by_point.get(ENTRY, []):
            entry_state.setdefault(d.local, set()).add(d.id)
        entry_state = {k: frozenset(v) for k, v in entry_state.items()}

        def transfer(b, state):
            state = dict(state)
            nst = len(self.blocks[b]["stmts"])
            for i in range(nst + 1):
                for d in by_point.get((b, i), ()):
                    if d.strong:
                        state[d.local] = frozenset([d.id])
                    else:
                        state[d.local] = state.get(d.local, frozenset()) | {d.id}
            return state

        def merge(states):
            out = {}
            for s in states:
                for k, v in s.items():
                    out[k] = out.get(k, frozenset()) | v
            return out

        work = deque(order)
        inq = set(order)
        IN[0] = entry_state
        while work:
            b = work.popleft()
            inq.discard(b)
            if b == 0:
                ins = [entry_state] + [OUT[p] for p in self.pred[b] if p in OUT]
            else:
                ins = [OUT[p] for p in self.pred[b] if p in OUT]
            st = merge(ins)
            IN[b] = st
            out = transfer(b, st)
            if OUT.get(b) != out:
                OUT[b] = out
                for s in self.succ[b]:
                    if s not in inq:
                        work.append(s)
                        inq.add(s)
        self._rd_in = IN
        return IN

    def reaching(self, local, point):
        """definitions of `local` that reach `point` (before the statement at point executes)"""
        defs, by_point = self.defs()
        IN = self._rd()
        b, i = point
        if b < 0:
            return []
        st = IN.get(b)
        if st is None:
            return []
        cur = st.get(local, frozenset())
        for j in range(i):
            for d in by_point.get((b, j), ()):
                if d.local == local:
                    if d.strong:
                        cur = frozenset([d.id])
                    else:
                        cur = cur | {d.id}
        return [defs[k] for k in sorted(cur)]

    def single_def(self, local, point):
        r = self.reaching(local, point)
        if len(r) == 1 and r[0].strong:
            return r[0]
        return None

    # ------------------------------------------------- canonical expressions
    PURE_ACCESSORS = None  # set by rules (names treated as transparent pure calls)

    def canon(self, op, point, depth=0, pure=None):
        """canonical expression tree (hashable nested tuples) of an operand at a point"""
        if op is None:
            return ("?",)
        if op["k"] == "const":
            if op.get("fn"):
                return ("fn", op["fn"])
            v = op.get("val")
            return ("K", _freeze(v), op.get("ty"))
        if op["k"] in ("copy", "move"):
            return self.canon_place(op["p"], point, depth, pure)
        return (op["k"],)

    def canon_place(self, p, point, depth=0, pure=None):
        base = self.canon_local(p["l"], point, depth, pure)
        for e in p["proj"]:
            if e == "deref":
                if base[0] == "ref":
                    base = base[1]
                else:
                    base = ("deref", base)
            elif isinstance(e, dict) and "f" in e:
                if base[0] == "ovf" and e["f"] == 0:
                    base = ("bin", base[1], base[2], base[3])  # checked arithmetic: value component
                elif base[0] == "agg" and base[1] in ("tuple", "array") and e["f"] < len(base[4]):
                    base = base[4][e["f"]]  # field of a locally built tuple
                else:
                    base = ("field", base, e["f"], e.get("name"))
            elif isinstance(e, dict) and "idx" in e:
                base = ("index", base, self.canon_local(e["idx"], point, depth + 1, pure))
            elif isinstance(e, dict) and "cidx" in e:
                if e["fe"]:
                    base = ("cindex_end", base, e["cidx"])
                else:
                    base = ("index", base, ("K", e["cidx"], "usize"))
            elif isinstance(e, dict) and "dc" in e:
                base = ("downcast", base, e["dc"])
            else:
                base = ("proj", base, json.dumps(e, sort_keys=True))
        return base

    def canon_local(self, l, point, depth=0, pure=None):
        if depth > 40:
            return ("deep", l)
        d = self.single_def(l, point)
        if d is None:
            r = self.reaching(l, point)
            if len(r) == 1 and r[0].kind == "param":
                return ("param", l)
            if not r:
                return ("undef", l)
            return ("phi", l, tuple(x.id for x in r))
        if d.kind == "param":
            return ("param", l)
        if d.kind == "assign":
            return self.canon_rv(d.rv, d.point, depth + 1, pure, d)
        if d.kind == "calldest":
            t = d.call
            name = t.get("callee") or t.get("declared")
            purefn = pure if pure is not None else DEFAULT_PURE
            if name in purefn:
                args = tuple(self.canon(a, d.point, depth + 1, pure) for a in t["args"])
                return ("call", purefn[name] or name, args)
            return ("def", d.id)
        return ("def", d.id)

    def canon_rv(self, rv, point, depth, pure, d=None):
        k = rv["k"]
        if k == "use":
            return self.canon(rv["op"], point, depth, pure)
        if k in ("ref", "rawptr"):
            return ("ref", self.canon_place(rv["p"], point, depth, pure))
        if k == "copyforderef":
            return self.canon_place(rv["p"], point, depth, pure)
        if k == "bin":
            op = rv["op"]
            a = self.canon(rv["a"], point, depth, pure)
            b = self.canon(rv["b"], point, depth, pure)
            if op.endswith("WithOverflow"):
                return ("ovf", op[: -len("WithOverflow")], a, b)
            return ("bin", op, a, b)
        if k == "un":
            return ("un", rv["op"], self.canon(rv["a"], point, depth, pure))
        if k == "cast":
            inner = self.canon(rv["op"], point, depth, pure)
            if rv["kind"].startswith("PointerCoercion"):
                return inner
            return ("cast", rv["kind"], inner, rv["ty"])
        if k == "discr":
            return ("discr", self.canon_place(rv["p"], point, depth, pure))
        if k == "agg":
            ops = tuple(self.canon(o, point, depth, pure) for o in rv["ops"])
            return ("agg", rv.get("agg"), rv.get("path"), rv.get("variant"), ops)
        if k == "repeat":
            return ("repeat", self.canon(rv["op"], point, depth, pure), rv.get("len"))
        return ("rv", k, d.id if d else None)

    # -------------------------------------------------------------- origins
    def origins(self, op, point, depth=0, via=(), hide_weak=False):
        """Where does this operand's value come from?  Follows copies/moves (through
        all reaching definitions), field reads out of aggregates built locally and
        reborrows.  Returns a list of Origin."""
        if op is None:
            return []
        if op["k"] == "const":
            return [Origin("const", op, (), point, via)]
        if op["k"] not in ("copy", "move"):
            return [Origin("other", op, (), point, via)]
        self._hide_weak = hide_weak
        try:
            return self.origins_place(op["p"], point, depth, via)
        finally:
            self._hide_weak = False

    _hide_weak = False

    def origins_place(self, p, point, depth=0, via=()):
        if depth > 40:
            return [Origin("deep", p, (), point, via)]
        l, proj = p["l"], list(p["proj"])
        out = []
        if proj and proj[0] == "deref" and l > 0:
            tg = self.points_to().get(l, set())
            if len(tg) == 1:
                o = next(iter(tg))
                if o[0] == "param" and o[1] == l or o[0] == "param" and self.single_def(l, point) is not None:
                    return self.origins_place({"l": -o[1], "proj": proj[1:]}, point, depth + 1, via)
                if o[0] == "local":
                    return self.origins_place({"l": o[1], "proj": proj[1:]}, point, depth + 1, via)
        rds = self.reaching(l, point)
        if self._hide_weak and any(d.strong for d in rds):
            rds = [d for d in rds if d.strong]
        for d in rds or [None]:
            if d is None:
                out.append(Origin("undef", l, proj_key(proj), point, via))
                continue
            if d.kind == "param":
                out += self._apply_proj(Origin("param", l, (), point, via), proj, point, depth)
            elif d.kind == "calldest" and d.strong:
                out += self._apply_proj(Origin("call", d, (), d.point, via), proj, point, depth)
            elif d.kind in ("assign", "store") and d.strong and d.rv is not None:
                rv = d.rv
                nvia = via + (d.point,)
                if rv["k"] == "use" and rv["op"]["k"] in ("copy", "move"):
                    q = rv["op"]["p"]
                    out += self.origins_place({"l": q["l"], "proj": list(q["proj"]) + proj}, d.point, depth + 1, nvia)
                elif rv["k"] == "use" and rv["op"]["k"] == "const":
                    out += self._apply_proj(Origin("const", rv["op"], (), d.point, nvia), proj, point, depth)
                elif rv["k"] == "copyforderef":
                    q = rv["p"]
                    out += self.origins_place({"l": q["l"], "proj": list(q["proj"]) + proj}, d.point, depth + 1, nvia)
                elif rv["k"] in ("ref", "rawptr") and not proj and rv["p"]["proj"] == ["deref"]:
                    # plain reborrow `&*x`: the same reference
                    out += self.origins_place({"l": rv["p"]["l"], "proj": []}, d.point, depth + 1, nvia)
                elif rv["k"] in ("ref", "rawptr") and not proj:
                    out.append(Origin("ref", d, (), d.point, nvia))
                elif rv["k"] in ("ref", "rawptr") and proj and proj[0] == "deref":
                    q = rv["p"]
                    out += self.origins_place({"l": q["l"], "proj": list(q["proj"]) + proj[1:]}, d.point, depth + 1, nvia)
                elif rv["k"] == "agg" and proj:
                    # read a field back out of a locally built aggregate
                    pr = list(proj)
                    if isinstance(pr[0], dict) and "dc" in pr[0]:
                        pr = pr[1:]
                    if pr and isinstance(pr[0], dict) and "f" in pr[0] and pr[0]["f"] < len(rv["ops"]):
                        out += [o.extend(pr[1:]) if pr[1:] else o
                                for o in self.origins(rv["ops"][pr[0]["f"]], d.point, depth + 1, nvia)]
                    else:
                        out += self._apply_proj(Origin("agg", d, (), d.point, nvia), proj, point, depth)
                elif rv["k"] == "agg":
                    out.append(Origin("agg", d, (), d.point, nvia))
                elif rv["k"] == "cast" and rv["kind"].startswith("PointerCoercion") and rv["op"]["k"] in ("copy", "move"):
                    q = rv["op"]["p"]
                    out += self.origins_place({"l": q["l"], "proj": list(q["proj"]) + proj}, d.point, depth + 1, nvia)
                else:
                    out += self._apply_proj(Origin("expr", d, (), d.point, nvia), proj, point, depth)
            else:
                out += self._apply_proj(Origin("weak", d, (), d.point, via), proj, point, depth)
        # dedupe
        seen = set()
        res = []
        for o in out:
            k = o.key()
            if k not in seen:
                seen.add(k)
                res.append(o)
        return res

    def _apply_proj(self, origin, proj, point, depth):
        if not proj:
            return [origin]
        return [origin.extend(proj)]

    def switch_guards(self, block):
        """all switch edges that edge-dominate `block`:
        list of (discr_canon, ('eq', value) | ('other', (values...)), test_block)"""
        out = []
        idom = self.dominators()
        if block not in idom:
            return out
        b = block
        cands = []
        while True:
            cands.append(b)
            if b == 0:
                break
            b = idom[b]
        for s in cands:
            t = self.blocks[s]["term"]
            if not t or t["k"] != "switch":
                continue
            pt = (s, len(self.blocks[s]["stmts"]))
            targets = {}
            for v, tgt in t["arms"]:
                targets.setdefault(tgt, []).append(v)
            for tgt, vals in targets.items():
                if tgt == t["otherwise"]:
                    continue
                if len(vals) == 1 and self.edge_dominates((s, tgt), block):
                    out.append((self.canon(t["op"], pt), ("eq", vals[0]), s))
            o = t["otherwise"]
            if self.edge_dominates((s, o), block):
                excl = tuple(sorted(v for v, tgt in t["arms"] if tgt != o))
                out.append((self.canon(t["op"], pt), ("other", excl), s))
        return out

    # ------------------------------------------------------ dependence slice
    def deps(self, op, point, through_calls=True, stop=None, max_nodes=20000):
        """backward data-dependence slice of an operand at a point.
        Returns Slice with .params (locals), .consts (list of const operands), .calls (CallSite terms),
        .defs (set of Def ids) .  `stop(defobj)` -> True cuts the slice at that definition."""
        sl = Slice(self)
        seen = set()
        work = []

        def push_local(l, pt):
            key = (l, pt)
            if key not in seen:
                seen.add(key)
                work.append(key)

        def push_op(o, pt):
            if o is None:
                return
            if o["k"] == "const":
                sl.consts.append(o)
            elif o["k"] in ("copy", "move"):
                push_place(o["p"], pt)

        def push_place(p, pt):
            push_local(p["l"], pt)
            derefd = False
            for e in p["proj"]:
                if isinstance(e, dict) and "idx" in e:
                    push_local(e["idx"], pt)
                if e == "deref":
                    derefd = True
            if derefd or self.is_ref_local(p["l"]):
                for o in self.points_to().get(p["l"], ()):
                    if o[0] == "local":
                        push_local(o[1], pt)
                    elif o[0] == "param":
                        push_local(-o[1], pt)
                        sl.params.add(o[1])

        push_op(op, point)
        n = 0
        while work:
            n += 1
            if n > max_nodes:
                sl.truncated = True
                break
            l, pt = work.pop()
            rs = self.reaching(l, pt)
            if l < 0 and not rs:
                sl.params.add(-l)
            if l < 0:
                sl.params.add(-l)  # initial content of the pointee
            for d in rs:
                if d.id in sl.defs:
                    continue
                sl.defs.add(d.id)
                if stop is not None and stop(d):
                    sl.stopped.add(d.id)
                    continue
                if d.kind == "param":
                    sl.params.add(d.local)
                elif d.kind in ("assign", "store"):
                    if d.rv is not None:
                        self._rv_operands(d.rv, d.point, push_op, push_place)
                    elif d.call is not None:
                        self._call_deps(d, sl, push_op, through_calls)
                elif d.kind in ("calldest", "callmut"):
                    self._call_deps(d, sl, push_op, through_calls)
        return sl

    def _call_deps(self, d, sl, push_op, through_calls):
        t = d.call
        sl.calls.append((d.point[0], t))
        if through_calls:
            for a in t["args"]:
                push_op(a, d.point)
            if t.get("indirect"):
                push_op(t["indirect"], d.point)

    def _rv_operands(self, rv, pt, push_op, push_place):
        k = rv["k"]
        if k in ("use", "cast", "repeat", "wrapbinder"):
            push_op(rv["op"], pt)
        elif k in ("ref", "rawptr", "copyforderef", "discr"):
            push_place(rv["p"], pt)
        elif k == "bin":
            push_op(rv["a"], pt)
            push_op(rv["b"], pt)
        elif k == "un":
            push_op(rv["a"], pt)
        elif k == "agg":
            for o in rv["ops"]:
                push_op(o, pt)

    def uses_of_def_result(self, local):
        """all points whose statement/terminator reads `local` (any projection)"""
        out = []
        for b in self.blocks:
            if b["cleanup"]:
                continue
            for i, st in enumerate(b["stmts"]):
                if st["k"] == "assign":
                    if _rv_reads(st["rv"], local) or _place_reads(st["p"], local, lhs=True):
                        out.append((b["id"], i))
            t = b["term"]
            if t and _term_reads(t, local):
                out.append((b["id"], len(b["stmts"])))
        return out

    # -------------------------------------------------------------- taint
    def taint(self, is_source, sanitiser=None, transparent=None):
        """Flow-insensitive forward taint over locals.
        is_source(stmt_or_term, point) -> bool marks the definitions that introduce taint.
        sanitiser(call_term) -> bool: the call's result is clean.
        Returns dict local -> list of (point, via) explaining why it is tainted, plus the list of
        calls taint passed through (for the transparency audit)."""
        tainted = {}
        through = []

        def carries_text(l):
            if l <= 0:
                return True
            return _can_carry_text(self.locals[l]["tyt"])

        def mark(l, point, why):
            if l not in tainted and carries_text(l):
                tainted[l] = (point, why)
                return True
            return False

        def op_tainted(o):
            return o is not None and o["k"] in ("copy", "move") and (
                o["p"]["l"] in tainted or any(isinstance(e, dict) and e.get("idx") in tainted for e in o["p"]["proj"]))

        def place_tainted(p):
            return p["l"] in tainted

        pts = self.points_to()
        changed = True
        while changed:
            changed = False
            for b in self.blocks:
                if b["cleanup"]:
                    continue
                bid = b["id"]
                for i, st in enumerate(b["stmts"]):
                    if st["k"] != "assign":
                        continue
                    pt = (bid, i)
                    rv = st["rv"]
                    src = is_source(st, pt)
                    t = src
                    if not t:
                        k = rv["k"]
                        if k in ("use", "cast", "repeat"):
                            t = op_tainted(rv["op"])
                        elif k in ("ref", "rawptr", "copyforderef", "discr"):
                            t = place_tainted(rv["p"]) and k != "discr"
                        elif k == "agg":
                            t = any(op_tainted(o) for o in rv["ops"])
                        elif k in ("bin", "un"):
                            t = False
                    if t:
                        tgt = st["p"]["l"]
                        if st["p"]["proj"] and st["p"]["proj"][0] == "deref":
                            for o in pts.get(tgt, ()):
                                if o[0] == "local":
                                    changed |= mark(o[1], pt, "store")
                                elif o[0] == "param":
                                    changed |= mark(-o[1], pt, "store")
                        else:
                            changed |= mark(tgt, pt, "source" if src else "assign")
                t = b["term"]
                if t and t["k"] == "call":
                    pt = (bid, len(b["stmts"]))
                    anyt = any(op_tainted(a) for a in t["args"])
                    src = is_source(t, pt)
                    if not anyt and not src:
                        continue
                    if sanitiser is not None and sanitiser(t):
                        continue
                    if anyt and (t, pt) not in through:
                        through.append((t, pt))
                    if not t["dest"]["proj"]:
                        changed |= mark(t["dest"]["l"], pt, "call")
                    for a in t["args"]:
                        if a["k"] in ("copy", "move") and not a["p"]["proj"]:
                            al = a["p"]["l"]
                            ty = self.locals[al]["tyt"]
                            if ty["k"] in ("ref", "ptr") and ty.get("mut"):
                                for o in pts.get(al, ()):
                                    if o[0] == "local":
                                        changed |= mark(o[1], pt, "callmut")
                                    elif o[0] == "param":
                                        changed |= mark(-o[1], pt, "callmut")
        return tainted, through

    # ------------------------------------------------------------- guards
    def bool_test(self, b):
        """If block b ends in a two-way switch on a bool-like value return
        (cond_operand, true_target, false_target, point) else None."""
        t = self.blocks[b]["term"]
        if not t or t["k"] != "switch":
            return None
        if t["ty"] == "bool" and len(t["arms"]) == 1 and t["arms"][0][0] == 0:
            return (t["op"], t["otherwise"], t["arms"][0][1], (b, len(self.blocks[b]["stmts"])))
        return None

    def guards_of(self, block):
        """list of (cond_canon, polarity(bool), test_block) for every bool test whose
        true or false edge edge-dominates `block`.  `!x` is folded into polarity."""
        out = []
        idom = self.dominators()
        if block not in idom:
            return out
        # candidate test blocks: dominators of block
        b = block
        cands = []
        while True:
            cands.append(b)
            if b == 0:
                break
            b = idom[b]
        for s in cands:
            bt = self.bool_test(s)
            if not bt:
                continue
            cond, tt, ft, pt = bt
            if tt == ft:
                continue
            pol = None
            if s != block or True:
                if self.edge_dominates((s, tt), block) and not (tt == block and False):
                    pol = True
                elif self.edge_dominates((s, ft), block):
                    pol = False
            if pol is None:
                continue
            c = self.canon(cond, pt)
            while c[0] == "un" and c[1] == "Not":
                c = c[2]
                pol = not pol
            out.append((c, pol, s))
        return out


def _may_hold_ref(tyt):
    k = tyt["k"]
    if k in ("ref", "ptr"):
        return True
    if k == "adt":
        return any(_may_hold_ref(a) for a in tyt["args"])
    if k == "tuple":
        return any(_may_hold_ref(a) for a in tyt["elems"])
    return False


def _can_carry_text(t, depth=0):
    """can a value of this type hold caller-controlled text?  (numbers, bools, unit cannot)"""
    k = t["k"]
    if depth > 8:
        return True
    if k == "prim":
        return t["name"] in ("str", "u8", "char")
    if k in ("never",):
        return False
    if k in ("ref", "ptr", "slice", "array"):
        return _can_carry_text(t["inner"], depth + 1)
    if k == "tuple":
        return any(_can_carry_text(e, depth + 1) for e in t["elems"])
    if k == "adt":
        if t["path"] in ("std::string::String", "std::fmt::Arguments", "core::fmt::rt::Argument", "std::borrow::Cow",
                         "std::ffi::OsString", "std::path::PathBuf", "convert::Color"):
            return True
        if t["path"].startswith("std::ops::Range"):
            return False
        return any(_can_carry_text(a, depth + 1) for a in t["args"]) or t.get("local", False)
    if k in ("fnptr", "fndef", "closure"):
        return False
    return True


def decode_template(bs):
    """core::fmt::Arguments template bytes -> list of ('lit', str) | ('arg', index, flags, width, precision)"""
    out = []
    i = 0
    nxt = 0
    n = len(bs)
    while i < n:
        b = bs[i]
        i += 1
        if b == 0:
            break
        if b < 0x80:
            out.append(("lit", bytes(bs[i:i + b]).decode("utf-8", "replace")))
            i += b
        elif b == 0x80:
            ln = bs[i] | (bs[i + 1] << 8)
            i += 2
            out.append(("lit", bytes(bs[i:i + ln]).decode("utf-8", "replace")))
            i += ln
        else:
            flags = width = prec = None
            idx = nxt
            if b & 1:
                flags = bs[i] | (bs[i + 1] << 8) | (bs[i + 2] << 16) | (bs[i + 3] << 24)
                i += 4
            if b & 2:
                width = bs[i] | (bs[i + 1] << 8)
                i += 2
            if b & 4:
                prec = bs[i] | (bs[i + 1] << 8)
                i += 2
            if b & 8:
                idx = bs[i] | (bs[i + 1] << 8)
                i += 2
            out.append(("arg", idx, flags, width, prec))
            nxt = idx + 1
    return out


def _freeze(v):
    if isinstance(v, list):
        return tuple(_freeze(x) for x in v)
    if isinstance(v, dict):
        return tuple(sorted((k, _freeze(x)) for k, x in v.items()))
    return v


def _place_reads(p, local, lhs=False):
    if p["l"] == local and (not lhs or p["proj"]):
        return True
    for e in p["proj"]:
        if isinstance(e, dict) and e.get("idx") == local:
            return True
    return False


def _op_reads(o, local):
    return o is not None and o["k"] in ("copy", "move") and _place_reads(o["p"], local)


def _rv_reads(rv, local):
    k = rv["k"]
    if k in ("use", "cast", "repeat", "wrapbinder"):
        return _op_reads(rv["op"], local)
    if k in ("ref", "rawptr", "copyforderef", "discr"):
        return _place_reads(rv["p"], local)
    if k == "bin":
        return _op_reads(rv["a"], local) or _op_reads(rv["b"], local)
    if k == "un":
        return _op_reads(rv["a"], local)
    if k == "agg":
        return any(_op_reads(o, local) for o in rv["ops"])
    return False


def _term_reads(t, local):
    k = t["k"]
    if k == "switch":
        return _op_reads(t["op"], local)
    if k == "call":
        return any(_op_reads(a, local) for a in t["args"]) or _op_reads(t.get("indirect"), local) or _place_reads(
            t["dest"], local, lhs=True
        )
    if k == "assert":
        return _op_reads(t["cond"], local)
    if k == "drop":
        return _place_reads(t["p"], local)
    return False


class Origin:
    """kind: param(info=local) | call(info=Def) | const(info=operand) | agg(info=Def) |
    expr(info=Def) | weak(info=Def) | undef | other | deep ;  proj: projection applied on top;
    point: where the origin value is produced;  via: assignment points the value was copied through"""

    def __init__(self, kind, info, proj, point, via):
        self.kind = kind
        self.info = info
        self.proj = tuple(proj) if not isinstance(proj, tuple) else proj
        self.point = point
        self.via = tuple(via)

    def extend(self, proj):
        return Origin(self.kind, self.info, self.proj + proj_key(proj), self.point, self.via)

    def key(self):
        if self.kind == "param":
            return ("param", self.info, self.proj)
        if self.kind in ("call", "agg", "expr", "weak", "ref"):
            return (self.kind, self.info.id, self.proj)
        if self.kind == "const":
            return ("const", json.dumps(self.info.get("val"), sort_keys=True, default=str), self.info.get("item"), self.proj)
        return (self.kind, str(self.info), self.proj)

    def callee(self):
        if self.kind == "call":
            t = self.info.call
            return t.get("callee") or t.get("declared")
        return None

    def first_hop(self):
        """the point where the value left its origin (first copy), or the origin point"""
        return self.via[-1] if self.via else self.point

    def describe(self, fn):
        if self.kind == "param":
            if self.info < 0:
                s = "initial *%s" % (fn.local_name(-self.info) or "_%d" % -self.info)
            else:
                s = "parameter `%s`" % (fn.local_name(self.info) or "_%d" % self.info)
        elif self.kind == "call":
            s = "result of %s (line %s)" % (self.callee(), fn.line_of(self.point))
        elif self.kind == "const":
            s = "constant %s" % (self.info.get("item") or json.dumps(self.info.get("val"), default=str))
        elif self.kind == "agg":
            rv = self.info.rv
            s = "%s%s literal (line %s)" % (rv.get("path") or rv.get("agg"), ("::" + rv["variant"]) if rv.get("variant") else "",
                                            fn.line_of(self.point))
        elif self.kind == "expr":
            s = "expression at line %s" % fn.line_of(self.point)
        elif self.kind == "ref":
            s = "&%s (line %s)" % (place_str(self.info.rv["p"]), fn.line_of(self.point))
        else:
            s = "%s %s" % (self.kind, self.info if not isinstance(self.info, Def) else "def@%s" % fn.line_of(self.point))
        if self.proj:
            s += " ." + ".".join(str(x[-1]) if x[0] in ("f",) else x[0] for x in self.proj)
        return s


class Slice:
    def __init__(self, fn):
        self.fn = fn
        self.params = set()
        self.consts = []
        self.calls = []  # (block, term)
        self.defs = set()
        self.stopped = set()
        self.truncated = False

    def callees(self):
        return {(t.get("callee") or t.get("declared")) for _, t in self.calls}

    def has_call(self, *names):
        return any((t.get("callee") in names or t.get("declared") in names) for _, t in self.calls)

    def call_blocks(self, *names):
        return [b for b, t in self.calls if (t.get("callee") in names or t.get("declared") in names)]

    def const_items(self):
        return {c.get("item") for c in self.consts if c.get("item")}

    def param_names(self):
        return {self.fn.local_name(l) or "_%d" % l for l in self.params}


# Calls that canonical expressions look through: name -> canonical tag (None = own name).
DEFAULT_PURE = {
    "<qr::QRCode as std::ops::Index<usize>>::index": "qr_row",
    "<qr::QRCode as std::ops::IndexMut<usize>>::index_mut": "qr_row",
    "module::Module::value": None,
    "module::Module::module_type": None,
    "std::vec::Vec::<T, A>::len": "len",
    "core::slice::<impl [T]>::len": "len",
    "<std::vec::Vec<T, A> as std::ops::Deref>::deref": "deref",
    "<std::vec::Vec<T, A> as std::ops::DerefMut>::deref_mut": "deref",
    "<std::vec::Vec<T, A> as std::ops::Index<I>>::index": "vec_index",
    "<std::vec::Vec<T, A> as std::ops::IndexMut<I>>::index_mut": "vec_index",
    "core::slice::index::<impl std::ops::Index<I> for [T]>::index": "slice_index",
    "core::slice::index::<impl std::ops::IndexMut<I> for [T]>::index_mut": "slice_index",
    "std::option::Option::<T>::as_ref": "as_ref",
    "std::vec::Vec::<T, A>::is_empty": "is_empty",
    "core::slice::<impl [T]>::is_empty": "is_empty",
    "std::string::String::is_empty": "is_empty",
    "std::string::String::as_bytes": "as_bytes",
    "core::str::<impl str>::as_bytes": "as_bytes",
    "<std::string::String as std::ops::Deref>::deref": "deref",
    "version::Version::size": None,
    "version::Version::max_bytes": None,
    "version::Version::missing_bits": None,
    "compact::CompactQR::get_data": None,
    "compact::CompactQR::len": None,
    "convert::Color::to_str": None,
    "<module::ModuleType as std::cmp::PartialEq>::eq": "eq",
    "<module::ModuleType as std::cmp::PartialEq>::ne": "ne",
    "encode::ascii_to_alphanumeric": None,
    "encode::ascii_to_digit": None,
    "std::convert::num::<impl std::convert::From<bool> for u8>::from": "from_bool",
    "std::convert::num::<impl std::convert::From<bool> for u16>::from": "from_bool",
    "std::convert::num::<impl std::convert::From<bool> for u32>::from": "from_bool",
    "std::convert::num::<impl std::convert::From<bool> for usize>::from": "from_bool",
}


def expr_str(e, fn=None, depth=0):
    """human-readable rendering of a canonical expression"""
    if not isinstance(e, tuple):
        return str(e)
    k = e[0]
    if k == "K":
        return str(e[1])
    if k == "param":
        nm = fn.local_name(e[1]) if fn else None
        return nm or "_%d" % e[1]
    if k == "ref":
        return "&" + expr_str(e[1], fn)
    if k == "deref":
        return "*" + expr_str(e[1], fn)
    if k == "field":
        return "%s.%s" % (expr_str(e[1], fn), e[3] or e[2])
    if k == "index":
        return "%s[%s]" % (expr_str(e[1], fn), expr_str(e[2], fn))
    if k in ("bin", "ovf"):
        return "(%s %s %s)" % (expr_str(e[2], fn), e[1], expr_str(e[3], fn))
    if k == "un":
        return "%s(%s)" % (e[1], expr_str(e[2], fn))
    if k == "cast":
        return "(%s as %s)" % (expr_str(e[2], fn), e[3])
    if k == "call":
        return "%s(%s)" % (e[1].split("::")[-1], ", ".join(expr_str(a, fn) for a in e[2]))
    if k == "def":
        if fn:
            d = fn.defs()[0][e[1]]
            if d.call is not None:
                return "<%s@%s>" % ((d.call.get("callee") or d.call.get("declared") or "call").split("::")[-1], fn.line_of(d.point))
            nm = fn.local_name(d.local)
            return "<%s@%s>" % (nm or "_%d" % d.local, fn.line_of(d.point))
        return "<def %d>" % e[1]
    if k == "phi":
        nm = fn.local_name(e[1]) if fn else None
        return "phi(%s)" % (nm or "_%d" % e[1])
    if k == "discr":
        return "discr(%s)" % expr_str(e[1], fn)
    if k == "agg":
        return "%s(%s)" % (e[3] or e[1], ", ".join(expr_str(a, fn) for a in e[4]))
    if k == "downcast":
        return "%s as %s" % (expr_str(e[1], fn), e[2])
    if k == "fn":
        return e[1]
    return str(e)


def unname(e):
    """drop field names from a canonical expression (tuple fields are unnamed, struct fields named)"""
    if not isinstance(e, tuple):
        return e
    if e and e[0] == "field" and len(e) == 4:
        return ("field", unname(e[1]), e[2])
    return tuple(unname(x) for x in e)


def subexprs(e):
    """iterate all sub-tuples of a canonical expression"""
    if isinstance(e, tuple) and e:
        yield e
        if e[0] == "K":
            return  # a constant's value is not an expression
        for x in e:
            if isinstance(x, tuple):
                for y in subexprs(x):
                    yield y
