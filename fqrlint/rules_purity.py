"""C14: purity / order- and thread-independence from crate-wide enumerable facts (P1..P6)."""
from .rules_tables import anchor_fn, where_fn
from .rules_encode import reachable_fns
from .rules_flow import ret_points

ROOTS = ["qr::QRBuilder", "qr::QRCode", "convert::svg::SvgBuilder", "convert::image::ImageBuilder"]

ALLOW_EXTERNAL = {
    "std::vec::Vec", "std::option::Option", "std::string::String", "std::boxed::Box", "std::result::Result",
    "std::borrow::Cow", "std::collections::BTreeMap", "std::collections::BTreeSet", "std::collections::VecDeque",
    "std::marker::PhantomData", "std::alloc::Global", "std::ops::Range", "std::ops::RangeInclusive",
    "std::num::NonZero", "std::path::PathBuf", "std::time::Duration",
}
DENY_EXTERNAL_PREFIX = (
    "std::cell::", "core::cell::", "std::rc::", "std::sync::", "core::sync::", "std::thread::", "std::collections::HashMap",
    "std::collections::HashSet", "std::collections::hash_map", "std::hash::RandomState", "std::hash::random",
)
DENY_CALLEE_PREFIX = (
    "std::env::", "std::time::", "core::time::", "std::thread::", "std::process::", "std::net::",
    "std::sync::atomic", "core::sync::atomic", "std::sync::Mutex", "std::sync::RwLock", "std::sync::Once", "std::sync::mpsc",
    "std::sync::Condvar", "std::sync::Barrier", "std::sync::LazyLock", "std::sync::OnceLock", "std::sync::Arc", "std::rc::",
    "std::cell::", "core::cell::", "std::random", "std::hash::RandomState", "std::hash::random", "std::collections::HashMap",
    "std::collections::HashSet", "std::collections::hash_map::", "std::fs::read", "std::fs::File::open", "std::fs::metadata",
    "std::fs::read_dir", "std::io::stdin", "std::io::Stdin", "std::intrinsics::volatile", "core::intrinsics::volatile",
    "std::intrinsics::atomic", "core::intrinsics::atomic", "std::ptr::read_volatile", "std::ptr::write_volatile",
    "core::ptr::read_volatile", "core::ptr::write_volatile", "std::os::", "std::alloc::System",
)

ENTRY_POINTS = {
    "default": ["qr::QRBuilder::build", "qr::QRCode::to_str", "qr::QRCode::print"],
    "svg": ["convert::svg::SvgBuilder::to_str", "convert::svg::SvgBuilder::to_file"],
    "image": ["convert::image::ImageBuilder::to_pixmap", "convert::image::ImageBuilder::to_bytes", "convert::image::ImageBuilder::to_file"],
}


def p1_statics(ctx, f, rid="C14.P1"):
    ctx.rule(rid, "no mutable, interior-mutable or thread-local static; no thread-local access")
    n = 0
    for s in f.statics:
        if s.get("nested"):
            continue
        n += 1
        bad = s["mutable"] or s["freeze"] is False or s["thread_local"]
        ctx.check(rid, not bad, "static/" + s["path"], "%s:%s" % (s["file"], s["line"]), s["path"], "static %s: %s" % (s["path"], s["ty"]),
                  "shared mutable state: a %s static makes results depend on earlier or concurrent builds" % (
                      "mutable" if s["mutable"] else "thread-local" if s["thread_local"] else "interior-mutable"),
                  sample="static %s is immutable and Freeze" % s["path"])
    tls = 0
    for fn in f.all_fns():
        for b in fn.blocks:
            for st in b["stmts"]:
                if st["k"] == "assign" and st["rv"]["k"] == "tlsref":
                    tls += 1
                    ctx.fail(rid, "tls/%s/%s" % (fn.path, st["rv"]["path"]), "%s:%s" % (fn.file, st.get("line")), fn.path, st["rv"]["path"],
                             "thread-local state is accessed")
    ctx.ok(rid, "config %s: %d user statics, %d thread-local accesses in %d functions" % (f.config, n, tls, len(f.fns)))
    return n


def p2_unsafe(ctx, f, rid="C14.P2"):
    ctx.rule(rid, "no user-written unsafe block, fn, impl or extern item")
    n = 0
    for u in f.unsafe:
        if not u["user"] or (u.get("from_expansion") and not u.get("macro_local", False) and u["kind"] == "block"):
            continue  # compiler-generated, or inside an expansion of a macro defined outside the crate (format!, thread_local!)
        n += 1
        k = sum(1 for v in ctx.violations if v.key.startswith("%s/unsafe/%s/%s" % (rid, u["kind"], u["in_fn"])))
        ctx.fail(rid, "unsafe/%s/%s#%d" % (u["kind"], u["in_fn"], k), "%s:%s" % (u["file"], u["line"]), u["in_fn"], "unsafe " + u["kind"],
                 "user-written unsafe code voids the aliasing guarantees the purity argument rests on")
    ctx.ok(rid, "config %s: 0 user-written unsafe among %d unsafe records (derive/format expansions only)" % (f.config, len(f.unsafe)))
    return n


def p3_types(ctx, f, rid="C14.P3"):
    ctx.rule(rid, "state-bearing types cannot hide shared mutable state (type graph walk through fields and generic arguments)")
    seen_adts = set()
    nodes = [0]

    def walk(t, trail, root):
        nodes[0] += 1
        k = t["k"]
        where = " -> ".join(trail)
        if k in ("prim", "never", "fnptr", "fndef"):
            return
        if k == "param":
            return
        if k == "ptr":
            ctx.fail(rid, "%s/rawptr/%s" % (root, trail[-1]), "-", root, where, "raw pointer in a state-bearing type")
            return
        if k == "dyn":
            ctx.fail(rid, "%s/dyn/%s" % (root, trail[-1]), "-", root, where, "trait object in a state-bearing type (may hide interior mutability)")
            return
        if k == "closure":
            ctx.fail(rid, "%s/closure/%s" % (root, trail[-1]), "-", root, where, "closure type in a state-bearing type (may capture shared state)")
            return
        if k == "ref":
            if t["mut"]:
                ctx.fail(rid, "%s/mutref/%s" % (root, trail[-1]), "-", root, where, "&mut reference stored in a state-bearing type (state shared with the caller)")
            walk(t["inner"], trail, root)
            return
        if k in ("slice", "array"):
            walk(t["inner"], trail, root)
            return
        if k == "tuple":
            for e in t["elems"]:
                walk(e, trail, root)
            return
        if k == "adt":
            p = t["path"]
            if t.get("local") and p in f.adts:
                if p in seen_adts:
                    return
                seen_adts.add(p)
                for v in f.adts[p]["variants"]:
                    for fl in v["fields"]:
                        walk(fl["tyt"], trail + ["%s.%s" % (p.split("::")[-1], fl["name"])], root)
                for a in t["args"]:
                    walk(a, trail, root)
                return
            if not p.startswith(("std::", "core::", "alloc::")) and p in f.adts and f.adts[p].get("external"):
                # a dependency's type whose definition the driver read from crate metadata: walked like a local one
                if p in seen_adts:
                    return
                seen_adts.add(p)
                for v in f.adts[p]["variants"]:
                    for fl in v["fields"]:
                        walk(fl["tyt"], trail + ["%s.%s" % (p.split("::")[-1], fl["name"])], root)
                for a in t["args"]:
                    walk(a, trail, root)
                return
            if p.startswith(DENY_EXTERNAL_PREFIX):
                ctx.fail(rid, "%s/deny/%s/%s" % (root, trail[-1], p), "-", root, where + ": " + p,
                         "interior-mutable / shared-ownership / randomly-seeded type in a state-bearing type")
                return
            if p in ALLOW_EXTERNAL or p.startswith("std::num::"):
                for a in t["args"]:
                    walk(a, trail, root)
                return
            ctx.fail(rid, "%s/unvetted/%s/%s" % (root, trail[-1], p), "-", root, where + ": " + p,
                     "external type not on the vetted list of plain-data containers")
            return
        ctx.fail(rid, "%s/other/%s" % (root, trail[-1]), "-", root, where + ": " + str(t.get("name")), "type of unknown kind in a state-bearing type")

    roots = [r for r in ROOTS if r in f.adts]
    for r in roots:
        before = len(ctx.violations)
        walk({"k": "adt", "path": r, "local": True, "args": []}, [r.split("::")[-1]], r)
        if len(ctx.violations) == before:
            ctx.ok(rid, "%s: no UnsafeCell/Rc/Arc/raw pointer/trait object/closure reachable" % r)
        # compiler's own verdict as a cross-check
        ctx.check(rid, f.adts[r]["freeze"] is not False, r + "/freeze", "-", r, "Freeze", "the compiler reports this type as not Freeze")
    ctx.inventory.setdefault("type_graph", {})[f.config] = {"roots": roots, "crate_types_reached": sorted(seen_adts), "nodes": nodes[0]}
    return roots, seen_adts


def p4_signatures(ctx, f, rid="C14.P4"):
    ctx.rule(rid, "build and every renderer borrow builder and symbol immutably")
    eps = [e for e in ENTRY_POINTS.get(f.config.replace("-rel", ""), [])]
    n = 0
    for e in eps:
        fn = anchor_fn(ctx, rid, f, e)
        if not fn:
            continue
        n += 1
        ins = fn.raw["inputs"]
        ok = bool(ins) and ins[0].startswith("&") and not any(i.startswith("&mut") for i in ins) and fn.raw["vis"] in ("pub",)
        ctx.check(rid, ok, e + "/signature", where_fn(fn), e, "(%s)" % ", ".join(ins),
                  "an entry point takes its builder or the symbol by mutable reference (or value): repeated use could change results",
                  sample="%s(%s)" % (e.split("::")[-1], ", ".join(ins)))
    return n


def p5_ambient(ctx, f, rid="C14.P5"):
    ctx.rule(rid, "no callee reachable from the entry points reads ambient state (env, time, threads, randomness, files, atomics)")
    eps = [e for e in ENTRY_POINTS.get(f.config.replace("-rel", ""), []) if e in f.fns]
    fns = reachable_fns(f, eps)
    ncalls = 0
    unresolved = 0
    for p in sorted(fns):
        fn = f.fn(p)
        ctx.analysed(fn)
        for c in fn.calls():
            ncalls += 1
            nm = c.callee or c.declared
            if nm is None:
                unresolved += 1
                continue
            if nm.startswith(DENY_CALLEE_PREFIX) or (c.declared or "").startswith(DENY_CALLEE_PREFIX):
                ctx.fail(rid, "%s/%s" % (p, nm), c.where(), p, nm,
                         "ambient or shared state is consulted on a path from %s" % "/".join(e.split("::")[-1] for e in eps))
    ctx.callsites += ncalls
    ctx.ok(rid, "config %s: %d call sites in %d functions reachable from %s: none on the deny list (%d indirect: user callback slot)" % (
        f.config, ncalls, len(fns), [e.split("::")[-1] for e in eps], unresolved))
    ctx.floor(rid, "functions reachable from entry points (%s)" % f.config, len(fns), {"default": 60, "svg": 8, "image": 10}.get(f.config.replace("-rel", ""), 1))
    return fns


SETTERS = {
    "default": {
        "qr::QRBuilder::mode": ("qr::QRBuilder", ["mode"]),
        "qr::QRBuilder::ecl": ("qr::QRBuilder", ["ecl"]),
        "qr::QRBuilder::version": ("qr::QRBuilder", ["version"]),
        "qr::QRBuilder::mask": ("qr::QRBuilder", ["mask"]),
    },
    "svg": {
        "<convert::svg::SvgBuilder as convert::Builder>::margin": ("convert::svg::SvgBuilder", ["margin"]),
        "<convert::svg::SvgBuilder as convert::Builder>::module_color": ("convert::svg::SvgBuilder", ["dot_color"]),
        "<convert::svg::SvgBuilder as convert::Builder>::background_color": ("convert::svg::SvgBuilder", ["background_color"]),
        "<convert::svg::SvgBuilder as convert::Builder>::image": ("convert::svg::SvgBuilder", ["image"]),
        "<convert::svg::SvgBuilder as convert::Builder>::image_background_color": ("convert::svg::SvgBuilder", ["image_background_color"]),
        "<convert::svg::SvgBuilder as convert::Builder>::image_background_shape": ("convert::svg::SvgBuilder", ["image_background_shape"]),
        "<convert::svg::SvgBuilder as convert::Builder>::image_size": ("convert::svg::SvgBuilder", ["image_size"]),
        "<convert::svg::SvgBuilder as convert::Builder>::image_gap": ("convert::svg::SvgBuilder", ["image_gap"]),
        "<convert::svg::SvgBuilder as convert::Builder>::image_position": ("convert::svg::SvgBuilder", ["image_position"]),
        "<convert::svg::SvgBuilder as convert::Builder>::shape": ("convert::svg::SvgBuilder", ["+commands", "+command_colors"]),
        "<convert::svg::SvgBuilder as convert::Builder>::shape_color": ("convert::svg::SvgBuilder", ["+commands", "+command_colors"]),
    },
    "image": {
        "convert::image::ImageBuilder::fit_height": ("convert::image::ImageBuilder", ["fit_height"]),
        "convert::image::ImageBuilder::fit_width": ("convert::image::ImageBuilder", ["fit_width"]),
    },
}


def field_effects(fn, adt):
    """fields of *self written by a setter: 'name' for an assignment, '+name' for an append through &mut field"""
    out = []
    for b in fn.blocks:
        if b["cleanup"]:
            continue
        for st in b["stmts"]:
            if st["k"] == "assign" and st["p"]["proj"] and st["p"]["l"] == 1 and st["p"]["proj"][0] == "deref":
                for e in st["p"]["proj"][1:2]:
                    if isinstance(e, dict) and "f" in e:
                        out.append(e.get("name"))
            if st["k"] == "assign" and st["rv"]["k"] == "ref" and st["rv"].get("mut"):
                p = st["rv"]["p"]
                if p["l"] == 1 and len(p["proj"]) >= 2 and p["proj"][0] == "deref" and isinstance(p["proj"][1], dict) and "f" in p["proj"][1]:
                    out.append("+" + (p["proj"][1].get("name") or "?"))
    return out


def p6_setters(ctx, f, rid="C14.P6"):
    ctx.rule(rid, "each option setter writes exactly its own field from its argument; no two scalar setters share a field")
    table = SETTERS.get(f.config.replace("-rel", ""), {})
    owner = {}
    n = 0
    for path, (adt, want) in table.items():
        fn = anchor_fn(ctx, rid, f, path)
        if not fn:
            continue
        n += 1
        eff = field_effects(fn, adt)
        ctx.check(rid, sorted(eff) == sorted(want), path + "/effects", where_fn(fn), path, "fields written",
                  "the setter writes a different set of fields than its own option: the final configuration would depend on the order "
                  "of setter calls, not on the last value of each option", expected=want, found=eff,
                  sample="%s writes %s" % (path.split("::")[-1], eff))
        # the value stored derives from the setter's argument(s)
        for b in fn.blocks:
            if b["cleanup"]:
                continue
            for i, st in enumerate(b["stmts"]):
                if st["k"] == "assign" and st["p"]["proj"] and st["p"]["l"] == 1 and st["p"]["proj"][0] == "deref":
                    sl = fn.deps(st["rv"].get("op"), (b["id"], i)) if st["rv"]["k"] == "use" else None
                    if sl is not None:
                        ps = {p for p in sl.params if p >= 2}
                        ctx.check(rid, bool(ps) and 1 not in sl.params, path + "/value", fn.where((b["id"], i)), path, "value stored",
                                  "the stored value does not come (only) from the setter's argument", found=sorted(sl.param_names()),
                                  sample="%s stores its argument" % path.split("::")[-1])
        for fl in eff:
            if not fl.startswith("+"):
                if fl in owner.get(adt, {}):
                    ctx.fail(rid, "%s/shared-field/%s" % (path, fl), where_fn(fn), path, fl,
                             "two setters write the same field: %s and %s" % (owner[adt][fl], path))
                owner.setdefault(adt, {})[fl] = path
        # returns self
        ro = [o for rp in ret_points(fn) for o in fn.origins({"k": "copy", "p": {"l": 0, "proj": []}}, rp)]
        ctx.check(rid, bool(ro) and all(o.kind == "param" and o.info == 1 for o in ro), path + "/returns-self", where_fn(fn), path, "return value",
                  "the setter does not return its own builder", sample="%s returns self" % path.split("::")[-1])
    ctx.floor(rid, "setters (%s)" % f.config, n, len(table))
    # no other function of the crate writes builder fields through &mut self
    for adt in {a for a, _ in table.values()}:
        for fn in f.all_fns():
            if fn.path in table or not fn.raw.get("inputs"):
                continue
            if fn.raw["inputs"][0] == "&mut " + adt:
                eff = field_effects(fn, adt)
                if eff and not fn.path.startswith("<convert::image::ImageBuilder as convert::Builder>"):
                    ctx.fail(rid, "%s/unlisted-writer" % fn.path, where_fn(fn), fn.path, str(eff), "a function outside the setter table mutates the builder")
    return n


def build_does_not_mutate(ctx, f, rid="C14.P4"):
    """QRBuilder::build passes only shared borrows / copies of builder fields to QRCode::new"""
    fn = f.fn("qr::QRBuilder::build")
    if not fn:
        return
    cs = fn.calls("qr::QRCode::new")
    ok = len(cs) == 1
    names = []
    if ok:
        for a in cs[0].args:
            o = fn.origins(a, cs[0].point)
            names.append([x.describe(fn) for x in o])
            ok = ok and len(o) == 1 and (o[0].kind == "param" or o[0].kind in ("call", "ref"))
    fields = [x["name"] for x in f.adts["qr::QRBuilder"]["variants"][0]["fields"]]
    want = ["input", "ecl", "version", "mode", "mask"]
    got = []
    if ok:
        for a in cs[0].args:
            e = fn.canon(a, cs[0].point)
            from .mir import subexprs
            got.append(next((x[3] for x in subexprs(e) if x[0] == "field" and len(x) == 4 and x[3] in fields), None))
    ctx.check(rid, ok and got == want, fn.path + "/args", where_fn(fn), fn.path, "arguments of QRCode::new",
              "build does not pass (input, ecl, version, mode, mask) of this builder", expected=want, found=got,
              sample="build -> QRCode::new(&input, ecl, version, mode, mask)")
