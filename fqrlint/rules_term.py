"""C16: terminal rendering — glyph decision table, synthetic border rows, row coverage by trip-count algebra."""
from .mir import subexprs, expr_str, unname
from .rules_tables import anchor_fn, where_fn
from .rules_flow import contains, strip_refs, def_of, call_name_of_def
from .rules_svg import loop_kind
from . import fold, poly, reference as ref, strflow
from .fold import TOP, to_py, mk_bool

SPACE, LOWER, UPPER, FULL = 0x20, 0x2584, 0x2580, 0x2588
GLYPH_NAME = {SPACE: "space", LOWER: "lower-half", UPPER: "upper-half", FULL: "full-block"}
# (top dark?, bottom dark?) -> glyph; glyphs paint LIGHT areas (terminal background is dark)
EXPECTED = {(True, True): SPACE, (True, False): LOWER, (False, True): UPPER, (False, False): FULL}


def K(e):
    return e[1] if isinstance(e, tuple) and e and e[0] == "K" else None


def c16_t1(ctx, f):
    rid = "C16.T1"
    ctx.rule(rid, "glyph table: (top, bottom) module values -> space / lower half / upper half / full block, one glyph per column")
    fn = anchor_fn(ctx, rid, f, "helpers::print_line", ["&[module::Module]", "&[module::Module]", "usize"], "std::string::String", private=True)
    if not fn:
        return None
    # the (value(top[i]), value(bottom[i])) tuple
    site = None
    for b in fn.blocks:
        if b["cleanup"]:
            continue
        for i, st in enumerate(b["stmts"]):
            if st["k"] == "assign" and st["rv"]["k"] == "agg" and st["rv"]["agg"] == "tuple" and len(st["rv"]["ops"]) == 2 \
                    and all(o.get("ty") == "bool" for o in st["rv"]["ops"]):
                site = (b["id"], i, st)
    if not site:
        ctx.abstain(rid, "no (bool, bool) decision tuple found in print_line", where_fn(fn))
        return None
    bid, si, st = site
    ops = [fn.canon(o, (bid, si)) for o in st["rv"]["ops"]]
    roles = []
    idxs = []
    for e in ops:
        ok = e[0] == "call" and e[1] == "module::Module::value" and e[2][0][0] == "index"
        if not ok:
            roles.append(None)
            continue
        base, idx = e[2][0][1], e[2][0][2]
        ps = [x[1] for x in subexprs(base) if x[0] == "param"]
        roles.append(ps[0] if len(ps) == 1 else None)
        idxs.append(idx)
    if sorted(x for x in roles if x) != [1, 2] or len(idxs) != 2:
        # rows consulted through another idiom (zip, iterators, helper): not an accusation; C16.R3 decides the output exactly
        ctx.abstain(rid, "glyph inputs are not in the `value(row[i])` shape: %s" % [expr_str(e, fn) for e in ops], fn.where((bid, si)))
        return None
    ctx.check(rid, idxs[0] == idxs[1], fn.path + "/operands", fn.where((bid, si)), fn.path,
              "decision tuple", "the two glyph inputs are not value() of the two rows at the same column",
              found=[expr_str(e, fn) for e in ops], sample="(%s, %s)" % tuple(expr_str(e, fn) for e in ops))
    # column loop: 0..size(param 3)
    ld = [x[1] for x in subexprs(idxs[0]) if x[0] == "def" and (call_name_of_def(fn, x[1]) or "").endswith("::next")]
    lk = loop_kind(fn, ld[0]) if len(ld) == 1 else None
    ctx.check(rid, bool(lk) and lk[0] == "range0" and lk[1] == ("param", 3) and unname(idxs[0]) == ("field", ("downcast", ("def", ld[0]), "Some"), 0),
              fn.path + "/columns", fn.where((bid, si)), fn.path, "column loop", "columns are not visited as 0..size, one glyph each",
              found=str(lk), sample="for i in 0..size")
    F = fold.Folder(f)
    tl = st["p"]["l"]
    table = {}
    for a in (True, False):
        for b in (True, False):
            vals = [None, None]
            vals[roles.index(1)] = mk_bool(a)  # param 1 = first row = top
            vals[roles.index(2)] = mk_bool(b)
            r = F.run(fn.path, [], start=(bid, si + 1), env={tl: ("tuple", tuple(vals))})
            pushes = []
            for e in r.trace:
                if (e["callee"] or "").endswith("::next"):
                    break
                if e["callee"] in ("std::string::String::push", "std::string::String::push_str") and e["depth"] == 1:
                    pushes.append(to_py(e["args"][1]))
            inst = "top=%s,bottom=%s" % ("dark" if a else "light", "dark" if b else "light")
            exp = EXPECTED[(a, b)]
            ok = len(pushes) == 1 and pushes[0] == exp
            table[(a, b)] = pushes[0] if len(pushes) == 1 else None
            ctx.check(rid, ok, "%s/glyph/%s" % (fn.path, inst), where_fn(fn), fn.path, inst,
                      "wrong glyph for this pair of modules (glyphs paint the light halves), or not exactly one glyph per column",
                      expected="U+%04X %s" % (exp, GLYPH_NAME[exp]),
                      found=["U+%04X" % p if isinstance(p, int) else p for p in pushes],
                      sample="%s -> U+%04X %s" % (inst, exp, GLYPH_NAME[exp]))
    return table


def _row_arg(fn, op, pt, pq):
    """classify a row argument of print_line: ('filler', dark?, len) | ('row', Poly over size/loopvar) | None"""
    e = strip_refs(fn.canon(op, pt))
    if e[0] == "repeat":
        v = e[1]
        if v[0] == "def":
            d = def_of(fn, v[1])
            if d.call is not None and (d.call.get("callee") or "").startswith("module::Module::"):
                a = fn.canon(d.call["args"][0], d.point)
                return ("filler", K(a), e[2], d.call.get("callee").split("::")[-1])
        return None
    if e[0] == "call" and e[1] == "qr_row" and contains(e[2][0], ("param", pq)):
        return ("row", e[2][1])
    return None


def c16_r(ctx, f, table=None):
    r1, r2 = "C16.R1", "C16.R2"
    ctx.rule(r1, "one-module light border: half-line on top, light glyph left and right, last row paired with a light row")
    ctx.rule(r2, "row coverage: rows 0..size-1 each exactly once and in order; (size+1)/2+1 lines of size+2 glyphs (40 sizes)")
    fn = anchor_fn(ctx, r1, f, "helpers::print_matrix_with_margin", ["&qr::QRCode"], "std::string::String")
    if not fn:
        return
    pl = fn.calls("helpers::print_line")
    ctx.analysed(fn, len(pl))
    if len(pl) != 3:
        ctx.abstain(r1, "expected three print_line call sites (top border, row pairs, last row), found %d" % len(pl), where_fn(fn))
        ctx.abstain(r2, "row pairing not in the recognised shape", where_fn(fn))
        return
    plf = f.fn("helpers::print_line")
    if plf is None or (plf.raw.get("inputs") or []) != ["&[module::Module]", "&[module::Module]", "usize"]:
        # the private helper takes its arguments in another form (an output buffer, a struct, ...): positions are not read here
        ctx.abstain(r1, "print_line does not have the signature (&[Module], &[Module], usize): its call sites are not read", where_fn(fn))
        ctx.abstain(r2, "row pairing not in the recognised shape", where_fn(fn))
        return
    pq = 1
    size = ("field", ("deref", ("param", 1)), 1, "size")

    def ren(x):
        if unname(x) == unname(size):
            return "size"
        if x[0] == "field" and x[1][0] == "downcast" and x[1][1][0] == "def" and (call_name_of_def(fn, x[1][1][1]) or "").endswith("::next"):
            return ("i", x[1][1][1])
        return None

    sites = []
    for c in sorted(pl, key=lambda c: fn.rpo().index(c.block)):
        a = _row_arg(fn, c.args[0], c.point, pq)
        b = _row_arg(fn, c.args[1], c.point, pq)
        w = poly.normalise(fn.canon(c.args[2], c.point), ren)
        sites.append(dict(call=c, top=a, bottom=b, width=w, loop=fn.in_loop(c.block)))
        ctx.check(r2, w == poly.A("size"), "%s/width/%d" % (fn.path, len(sites)), c.where(), fn.path, "width passed to print_line",
                  "a line does not cover `size` columns", expected="size", found=w.show(), sample="print_line(.., .., size)")
    # pushes onto the output string, grouped by the print_line whose result they surround
    pushes = sorted(strflow.pushes(fn), key=lambda p: fn.rpo().index(p[0].block))
    seq = []
    for pc, tgt, src in pushes:
        if src["kind"] == "const" and isinstance(src.get("value"), int):
            seq.append(("ch", src["value"], pc))
        elif src["kind"] == "call" and src["callee"] == "helpers::print_line":
            seq.append(("line", src["call"], pc))
        elif src["kind"] == "fmt":
            s = src["site"]
            ch = None
            if len(s.args) == 1:
                v = strip_refs(fn.canon(s.args[0]["operand"], s.args[0]["point"]))
                ch = K(v)
            lits = [p[1] for p in s.pieces if p[0] == "lit"]
            holes = [p for p in s.pieces if p[0] == "arg"]
            if ch is not None and len(holes) == 1 and lits == ["\n"] and s.pieces[-1] == ("lit", "\n"):
                seq.append(("ch+nl", ch, pc))
            else:
                seq.append(("fmt?", s.skeleton(), pc))
        elif src["kind"] == "lit":
            seq.append(("lit", src["text"], pc))
        else:
            seq.append((src["kind"], None, pc))
    shape = [x[0] for x in seq]
    if shape != ["ch", "line", "ch+nl", "ch", "line", "ch+nl", "ch", "line", "ch"]:
        ctx.abstain(r1, "output is not assembled as glyph+line+glyph(+newline) three times: %s" % shape, where_fn(fn))
        ctx.abstain(r2, "line structure not recognised", where_fn(fn))
        return
    groups = [seq[0:3], seq[3:6], seq[6:9]]
    for g, s in zip(groups, sites):
        ctx.check(r1, g[1][1] is s["call"].term, fn.path + "/line-order", g[1][2].where(), fn.path, "line pushed",
                  "lines are not pushed in the order they are produced", sample="line %d pushed in place" % (sites.index(s) + 1))
    A, B, C = sites
    # top border: dark filler over light filler, side glyph = lower half
    okA = A["top"] and A["bottom"] and A["top"][0] == "filler" and A["bottom"][0] == "filler" and A["top"][1] is True and A["bottom"][1] is False
    if not (A["top"] and A["bottom"]):
        ctx.abstain(r1, "rows of the first line are not recognised (neither a repeated module nor a matrix row)", A["call"].where())
    else:
        ctx.check(r1, bool(okA), fn.path + "/top-border", A["call"].where(), fn.path, "first line",
                  "the first line is not a dark filler over a light border row (half-height light border)",
                  found=(A["top"], A["bottom"]), sample="first line = (dark filler, light row)")
    for nm, s in (("top", A["top"]), ("bottom", A["bottom"]), ("last", C["bottom"])):
        if s and s[0] == "filler":
            ctx.check(r1, (s[2] or 0) >= 177, "%s/filler-len/%s" % (fn.path, nm), where_fn(fn), fn.path, nm + " filler row",
                      "synthetic row shorter than the widest symbol (177): print_line would index out of bounds", expected=">= 177", found=s[2],
                      sample="filler row of %s modules" % s[2])
    okC = C["top"] and C["bottom"] and C["top"][0] == "row" and C["bottom"][0] == "filler" and C["bottom"][1] is False
    if not (C["top"] and C["bottom"]):
        ctx.abstain(r1, "rows of the last line are not recognised (neither a repeated module nor a matrix row)", C["call"].where())
    else:
        ctx.check(r1, bool(okC), fn.path + "/last-line", C["call"].where(), fn.path, "last line",
                  "the last line does not pair the last matrix row with a light border row", found=(C["top"] and C["top"][0], C["bottom"]),
                  sample="last line = (row size-1, light row)")
    # side glyphs
    want_side = [(LOWER, LOWER), (FULL, FULL), (FULL, FULL)]
    for k, (g, w) in enumerate(zip(groups, want_side)):
        got = (g[0][1], g[2][1])
        ctx.check(r1, got == w, "%s/side-glyphs/%d" % (fn.path, k), g[0][2].where(), fn.path, "side glyphs of line group %d" % (k + 1),
                  "left/right border glyph is not the light glyph matching the line (lower half on the top half-line, full block elsewhere)",
                  expected=["U+%04X" % x for x in w], found=["U+%04X" % x if isinstance(x, int) else x for x in got],
                  sample="line group %d sides U+%04X" % (k + 1, w[0]))
    ctx.check(r1, groups[0][2][0] == "ch+nl" and groups[1][2][0] == "ch+nl" and groups[2][2][0] == "ch", fn.path + "/newlines", where_fn(fn), fn.path,
              "line terminators", "lines are not newline-separated with no trailing newline", sample="\\n after every line but the last")
    ctx.check(r1, (not A["loop"]) and B["loop"] and (not C["loop"]), fn.path + "/structure", where_fn(fn), fn.path, "loop structure",
              "the row-pair line is not the only one produced in a loop", sample="top line, loop of pairs, last line")
    # ---- R2: trip-count algebra
    if not (B["top"] and B["bottom"] and B["top"][0] == "row" and B["bottom"][0] == "row" and okC):
        ctx.abstain(r2, "loop body rows are not matrix rows", B["call"].where())
        return
    bt = poly.normalise(B["top"][1], ren)
    bb = poly.normalise(B["bottom"][1], ren)
    ct = poly.normalise(C["top"][1], ren)
    ivars = [a for a in bt.atoms() if isinstance(a, tuple) and a[0] == "i"]
    if len(ivars) != 1:
        ctx.abstain(r2, "row index of the loop body is not a function of one loop variable: %s" % bt.show(), B["call"].where())
        return
    iv = ivars[0]
    lk = loop_kind(fn, iv[1])
    # grammar: step_by(range0(hi) | range(lo, hi), K)
    step = 1
    rng = lk
    if lk and lk[0] == "step_by":
        step = K(lk[2])
        rng = lk[1]
    if not rng or rng[0] not in ("range0", "range") or not step:
        ctx.abstain(r2, "iterator of the pairing loop outside the recognised grammar: %s" % str(lk), B["call"].where())
        return
    lo_p = poly.C(0) if rng[0] == "range0" else poly.normalise(rng[1], ren)
    hi_p = poly.normalise(rng[1] if rng[0] == "range0" else rng[2], ren)

    def ev(p, size_v, i_v=None):
        tot = 0
        for mono, c in p.t.items():
            v = c
            for a in mono:
                if a == "size":
                    v *= size_v
                elif a == iv:
                    if i_v is None:
                        return None
                    v *= i_v
                else:
                    return None
            tot += v
        return tot

    bad = 0
    for v in range(1, 41):
        n = ref.side(v)
        lo, hi = ev(lo_p, n), ev(hi_p, n)
        if lo is None or hi is None:
            ctx.abstain(r2, "loop bounds are not polynomials in size", B["call"].where())
            return
        trips = max(0, -(-(hi - lo) // step))
        rows = []
        for t in range(trips):
            i = lo + t * step
            rows += [ev(bt, n, i), ev(bb, n, i)]
        rows.append(ev(ct, n))
        lines = 1 + trips + 1
        ok = rows == list(range(n)) and lines == (n + 1) // 2 + 1
        if not ok:
            bad += 1
        ctx.check(r2, ok, "%s/coverage/V%02d" % (fn.path, v), B["call"].where(), fn.path, "size %d" % n,
                  "the lines do not enumerate rows 0..size-1 exactly once in order, or the line count is not (size+1)/2+1",
                  expected="rows 0..%d, %d lines" % (n - 1, (n + 1) // 2 + 1),
                  found="rows %s%s, %d lines" % (rows[:6], "..." if len(rows) > 6 else "", lines),
                  sample="size %d: %d pair lines + 2, rows 0..%d" % (n, trips, n - 1))
    ctx.inventory["terminal_loop"] = dict(iterator=str(lk), top=bt.show({iv: "i"}), bottom=bb.show({iv: "i"}), last=ct.show())


def c16_entry(ctx, f):
    rid = "C16.R1"
    for path in ("qr::QRCode::to_str", "qr::QRCode::print"):
        fn = anchor_fn(ctx, rid, f, path)
        if not fn:
            continue
        cs = fn.calls("helpers::print_matrix_with_margin")
        ok = len(cs) == 1
        if ok:
            o = fn.origins(cs[0].args[0], cs[0].point)
            ok = len(o) == 1 and o[0].kind == "param"
        ctx.check(rid, ok, path + "/entry", where_fn(fn), path, "entry point", "the public entry point does not render this symbol with the margin renderer",
                  sample="%s -> print_matrix_with_margin(self)" % path.split("::")[-1])
