"""Engine E3: compiler witnesses.  `check` type-checks the positive witnesses, `doctests`
compiles the compile_fail witnesses and their compiling twins (nothing is executed)."""
import fcntl
import json
import os
import re
import shutil
import subprocess
import tempfile

from . import facts as factsmod

WITNESS_DIR = os.path.join(factsmod.VERIF, "witness")
TARGET = os.path.join(factsmod.CACHE, "tgt-witness")


def _prepare(repo):
    """copy of the witness crate whose path dependency points at `repo`"""
    os.makedirs(factsmod.CACHE, exist_ok=True)
    d = tempfile.mkdtemp(prefix="wit-", dir=factsmod.CACHE)
    shutil.copytree(os.path.join(WITNESS_DIR, "src"), os.path.join(d, "src"))
    shutil.copytree(os.path.join(WITNESS_DIR, ".cargo"), os.path.join(d, ".cargo"))
    toml = open(os.path.join(WITNESS_DIR, "Cargo.toml")).read().replace('path = "/repo"', 'path = "%s"' % repo)
    open(os.path.join(d, "Cargo.toml"), "w").write(toml)
    lock = os.path.join(repo, "Cargo.lock")
    if os.path.exists(lock):
        shutil.copy(lock, os.path.join(d, "Cargo.lock"))
    return d


def witness_fns():
    src = open(os.path.join(WITNESS_DIR, "src", "lib.rs")).read().split("\n")
    spans = []
    cur = None
    for i, line in enumerate(src, 1):
        m = re.match(r"pub fn (w_\w+)", line)
        if m:
            cur = [m.group(1), i, None]
            spans.append(cur)
        if cur is not None and line.startswith("}") and cur[2] is None:
            cur[2] = i
            cur = None
    return [(n, a, b or a) for n, a, b in spans]


def check(repo=None):
    """returns (ok_names, failures{name: message}, general_error|None)"""
    repo = repo or factsmod.REPO
    d = _prepare(repo)
    os.makedirs(TARGET, exist_ok=True)
    lockf = open(TARGET + ".lock", "w")
    fcntl.flock(lockf, fcntl.LOCK_EX)
    try:
        env = dict(os.environ)
        env["CARGO_TARGET_DIR"] = TARGET
        env["CARGO_NET_OFFLINE"] = "true"
        env["CARGO_INCREMENTAL"] = "0"  # scratch checkouts would each leave an incremental session behind
        env["RUSTFLAGS"] = "-Awarnings"
        env.pop("RUSTC_WORKSPACE_WRAPPER", None)
        p = subprocess.run(["cargo", "+nightly", "check", "--offline", "--message-format=json", "-q"], cwd=d, env=env,
                           capture_output=True, text=True)
        fns = witness_fns()
        failures = {}
        general = None
        for line in p.stdout.split("\n"):
            if not line.startswith("{"):
                continue
            try:
                m = json.loads(line)
            except ValueError:
                continue
            if m.get("reason") != "compiler-message":
                continue
            msg = m["message"]
            if msg.get("level") != "error":
                continue
            tgt = m.get("target", {}).get("name")
            spans = [s for s in msg.get("spans", []) if s.get("is_primary")]
            text = (msg.get("code") or {}).get("code", "") + " " + msg.get("message", "")
            if tgt != "fqr-witness" and tgt != "fqr_witness":
                general = "fast_qr does not compile for the witness crate: " + text
                continue
            hit = False
            for s in spans:
                if s["file_name"].endswith("lib.rs"):
                    for n, a, b in fns:
                        if a <= s["line_start"] <= b:
                            failures.setdefault(n, text.strip())
                            hit = True
            if not hit:
                general = general or ("witness crate error outside a witness: " + text)
        if p.returncode != 0 and not failures and not general:
            general = "cargo check of the witness crate failed: " + p.stderr[-800:]
        ok = [n for n, a, b in fns if n not in failures]
        return ok, failures, general
    finally:
        fcntl.flock(lockf, fcntl.LOCK_UN)
        lockf.close()
        shutil.rmtree(d, ignore_errors=True)


def doctests(repo=None):
    """returns list of (test name, kind, passed)"""
    repo = repo or factsmod.REPO
    d = _prepare(repo)
    lockf = open(TARGET + ".lock", "w")
    fcntl.flock(lockf, fcntl.LOCK_EX)
    try:
        env = dict(os.environ)
        env["CARGO_TARGET_DIR"] = TARGET
        env["CARGO_NET_OFFLINE"] = "true"
        env["CARGO_INCREMENTAL"] = "0"  # scratch checkouts would each leave an incremental session behind
        env["RUSTFLAGS"] = "-Awarnings"
        env["RUSTDOCFLAGS"] = "-Awarnings"
        env.pop("RUSTC_WORKSPACE_WRAPPER", None)
        p = subprocess.run(["cargo", "+nightly", "test", "--doc", "--offline"], cwd=d, env=env, capture_output=True, text=True)
        out = []
        for line in (p.stdout + p.stderr).split("\n"):
            m = re.match(r"test src/lib.rs - (\w+) \(line (\d+)\) - (compile fail|compile) \.\.\. (\w+)", line)
            if m:
                out.append((m.group(1), m.group(3), m.group(4) == "ok"))
        return out, p.returncode, (p.stdout + p.stderr)[-1500:]
    finally:
        fcntl.flock(lockf, fcntl.LOCK_UN)
        lockf.close()
        shutil.rmtree(d, ignore_errors=True)


_check_cache = {}


def rule(ctx, rid, title, names):
    """discharge the named positive witnesses as obligations of `rid`"""
    ctx.rule(rid, title)
    key = ctx.repo or factsmod.REPO
    if key not in _check_cache:
        _check_cache[key] = check(key)
    ok, failures, general = _check_cache[key]
    if general:
        raise factsmod.MachineryError(general)
    for n in names:
        if n in failures:
            ctx.fail(rid, "witness/" + n, "witness/src/lib.rs", n, n, "the public API no longer satisfies this witness: " + failures[n][:300])
        elif n in ok:
            ctx.ok(rid, "witness %s type-checks against the public API" % n)
        else:
            ctx.anchor_missing(rid, "witness " + n)
