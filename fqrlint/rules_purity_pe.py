"""C14.P7: the option setters as an algebra, by partial evaluation (engine E4).

For every builder type of the configuration the setters are discovered from the facts (functions taking `&mut Builder` first and
returning `&mut Builder`), called on the builder's initial value with two distinct sample values per parameter type, and the
resulting builder values are compared:

  last value wins      A(a1); A(a2)  ==  A(a2)                 (for every setter that is not a documented list-appender)
  order is irrelevant  A(a); B(b)    ==  B(b); A(a)            (for every pair that is not two list-appenders)

Both hold for every value when they hold for two distinct ones and the setter bodies do not branch on the values (a branch on a
value aborts the evaluation: abstention).  QRBuilder::build is evaluated with QRCode::new summarised: it receives exactly the final
option values and leaves the builder unchanged.
"""
from .fold import TOP, mk_int
from . import peval
from .peval import _deref_all
from .rules_tables import where_fn
from .rules_wasm_pe import _norm, _variant, _show, NotComparable


def _abstain_if_not_comparable(fn):
    def w(ctx, f, rid=None, **kw):
        try:
            return fn(ctx, f, **({"rid": rid} if rid else {}), **kw)
        except NotComparable as e:
            ctx.abstain(rid or fn.__defaults__[0], "values not comparable: %s" % e)
            return None
    w.__defaults__ = (fn.__defaults__[0],)
    return w

BUILDERS = {
    # configuration -> [(builder type, initial-value constructor, constructor args builder)]
    "default": [("qr::QRBuilder", "qr::QRBuilder::new")],
    "svg": [("convert::svg::SvgBuilder", "<convert::svg::SvgBuilder as std::default::Default>::default")],
    "image": [("convert::image::ImageBuilder", "<convert::image::ImageBuilder as std::default::Default>::default")],
}
# documented list-appenders ("Adds a shape to the shapes list"): their calls accumulate, in call order
APPENDERS = ("shape", "shape_color")


def _samples(f, pe, ty, tyt):
    """two distinct abstract values of a parameter type (and the binding of a type parameter), or None"""
    if tyt.get("k") == "param":
        # `C: Into<Color>`: bound to a four-byte array
        mk = lambda v: ("array", tuple(mk_int("u8", x) for x in v))
        # two arbitrary colours and the two documented defaults (opaque black modules on opaque white)
        return [mk((1, 2, 3, 255)), mk((200, 100, 50, 128)), mk((0, 0, 0, 255)), mk((255, 255, 255, 255))], {tyt["name"]: "[u8; 4]"}
    if ty in ("usize", "u32", "u64", "u8", "u16"):
        return [mk_int(ty, 3), mk_int(ty, 11), mk_int(ty, 0)], None
    if ty == "f64":
        return [("float", 1.5), ("float", 6.25), ("float", 0.0), ("float", -2.0)], None
    if ty == "std::string::String":
        return [("string", tuple(ord(c) for c in "a.png")), ("string", tuple(ord(c) for c in "b.svg")), ("string", ())], None
    if ty == "bool":
        return [("bool", True), ("bool", False)], None
    ad = f.adts.get(ty)
    if ad and ad.get("kind") == "Enum":
        units = [v["name"] for v in ad["variants"] if not v["fields"]]
        if len(units) >= 2:
            pick = [units[1], units[-1]] if len(units) > 2 else units[:2]
            return [_variant(f, ty, pick[0]), _variant(f, ty, pick[1])], None
    return None


def _setters(f, adt):
    out = []
    for fn in f.all_fns():
        ins = fn.raw.get("inputs") or []
        if len(ins) >= 2 and ins[0] == "&mut " + adt and fn.raw.get("output") == "&mut " + adt and fn.raw.get("kind") in ("Fn", "AssocFn") \
                and (fn.raw.get("vis") == "pub" or fn.path.startswith("<")):  # the public API: inherent pub methods and trait methods
            out.append(fn)
    return sorted(out, key=lambda x: x.path)


@_abstain_if_not_comparable
def c14_p7(ctx, f, rid="C14.P7"):
    ctx.rule(rid, "setter algebra by partial evaluation: on the builder's initial value every setter obeys `last value wins` and every "
                  "pair of setters commutes (list-appenders excepted), with two distinct values per parameter; build hands QRCode::new "
                  "the final option values and leaves the builder unchanged")
    cfg = f.config.replace("-rel", "")
    decided = True
    for adt, ctor in BUILDERS.get(cfg, []):
        if adt not in f.adts or f.fn(ctor) is None:
            ctx.abstain(rid, "%s / %s not found" % (adt, ctor))
            decided = False
            continue
        cfn = f.fn(ctor)
        sets = _setters(f, adt)
        if not sets:
            ctx.abstain(rid, "no `&mut %s -> &mut %s` setter found" % (adt, adt), where_fn(cfn))
            decided = False
            continue
        pe = peval.PEval(f, max_steps=3_000_000)

        def initial():
            if adt == "qr::QRBuilder":
                vec = peval._vec_of(pe, [mk_int("u8", c) for c in b"fast_qr"])
                return pe.call(ctor, [vec], subst={"I": "std::vec::Vec<u8>"})
            return pe.call(ctor, [])

        r0 = initial()
        if r0.kind != "ret" or r0.value == TOP:
            ctx.abstain(rid, "initial value of %s does not fold: %s" % (adt, r0.why), where_fn(cfn))
            decided = False
            continue
        S0 = r0.value
        calls = {}  # setter path -> [(args, subst) x2]
        for fn in sets:
            ins, tyts = fn.raw["inputs"][1:], (fn.raw.get("inputs_tyt") or [])[1:]
            vals, sub, ok = [], {}, True
            sms = []
            for ty, tyt in zip(ins, tyts):
                sm = _samples(f, pe, ty, tyt)
                if sm is None:
                    ok = False
                    break
                sms.append(sm[0])
                if sm[1]:
                    sub.update(sm[1])
            if ok:
                # k-th argument tuple: the k-th sample of every parameter (a parameter with fewer samples cycles through its own)
                nk = max([len(x) for x in sms] or [2])
                vals = [[x[k % len(x)] for x in sms] for k in range(nk)]
                if sms and len({tuple(map(repr, v)) for v in vals}) < 2:
                    ok = False
            if not ok or len(tyts) != len(ins):
                ctx.abstain(rid, "setter %s takes a parameter type the rule cannot build: %s" % (fn.path, ins), where_fn(fn))
                decided = False
                continue
            calls[fn.path] = (vals, sub or None, fn)

        def apply(state, seq):
            """seq: [(setter path, 0|1)] -> (state | None, why)"""
            # vectors live in heap objects: every sequence starts from its own copy of the initial value, so that what one
            # sequence appends is not seen by the next
            state = peval._deep_clone(pe, state)
            for path, k in seq:
                vals, sub, fn = calls[path]
                r = pe.call(path, [("cell", 0)] + list(vals[k]), cells=[state], subst=sub)
                if r.kind == "diverge":
                    return None, ("panics", r.why)
                if r.kind != "ret" or not r.cells or r.cells[0] == TOP:
                    return None, ("top", r.why)
                # the setter returns its own builder
                rv = r.value
                if rv == TOP or rv[0] != "ref" or rv[1][0] != "place" or rv[1][1:3] != (0, 0) or rv[1][3]:
                    return None, ("not-self", "the setter does not return its own builder")
                state = r.cells[0]
            return state, None

        def name(p):
            return p.rsplit("::", 1)[-1]

        und = {}
        n_ok = 0
        paths = sorted(calls)
        for a in paths:
            fa = calls[a][2]
            if not calls[a][0][0]:
                continue
            s12, w1 = apply(S0, [(a, 0), (a, 1)])
            s2, w2 = apply(S0, [(a, 1)])
            w = w1 or w2
            if not w and name(a) not in APPENDERS and _norm(pe, s12) == _norm(pe, s2):
                # the other ordered pairs of sample values (zero, negative, empty, ...): report the first that differs
                nk = len(calls[a][0])
                for i_ in range(nk):
                    for j_ in range(nk):
                        if i_ == j_ or (i_, j_) == (0, 1):
                            continue
                        sx, wx1 = apply(S0, [(a, i_), (a, j_)])
                        sy, wx2 = apply(S0, [(a, j_)])
                        if wx1 or wx2:
                            w = w or wx1 or wx2
                            break
                        if _norm(pe, sx) != _norm(pe, sy):
                            s12, s2 = sx, sy
                            break
                    else:
                        continue
                    break
            if w:
                if w[0] == "panics":
                    ctx.fail(rid, "%s/panics" % a, where_fn(fa), a, name(a), "the setter panics on a sample value", found=w[1])
                elif w[0] == "not-self":
                    ctx.fail(rid, "%s/returns-self" % a, where_fn(fa), a, name(a), w[1])
                else:
                    und.setdefault(w[1], []).append(name(a))
                continue
            if name(a) in APPENDERS:
                n_ok += 1
                continue
            if _norm(pe, s12) != _norm(pe, s2):
                ctx.fail(rid, "%s/last-value-wins" % a, where_fn(fa), a, "%s(v1); %s(v2)  vs  %s(v2)" % (name(a), name(a), name(a)),
                         "calling the setter twice does not give the state of the last call alone: the final configuration depends on "
                         "earlier values", expected=_show(_diff(pe, s2, s12, f, adt)[0]), found=_show(_diff(pe, s2, s12, f, adt)[1]))
            else:
                n_ok += 1
        for i, a in enumerate(paths):
            for b in paths[i + 1:]:
                if name(a) in APPENDERS and name(b) in APPENDERS:
                    continue
                sab, w1 = apply(S0, [(a, 0), (b, 1)])
                sba, w2 = apply(S0, [(b, 1), (a, 0)])
                w = w1 or w2
                if not w and _norm(pe, sab) == _norm(pe, sba):
                    # other value combinations (zero / default-valued samples): report the first that does not commute
                    na, nb = len(calls[a][0]), len(calls[b][0])
                    for ia, ib in ((2, 1), (0, 2), (2, 2), (3, 0), (0, 3), (2, 3)):
                        if ia >= na or ib >= nb:
                            continue
                        sx, wx1 = apply(S0, [(a, ia), (b, ib)])
                        sy, wx2 = apply(S0, [(b, ib), (a, ia)])
                        if wx1 or wx2:
                            continue
                        if _norm(pe, sx) != _norm(pe, sy):
                            sab, sba = sx, sy
                            break
                if w:
                    if w[0] == "top":
                        und.setdefault(w[1], []).append("%s/%s" % (name(a), name(b)))
                    continue  # panics / not-self are reported per setter above
                if _norm(pe, sab) != _norm(pe, sba):
                    d = _diff(pe, sab, sba, f, adt)
                    ctx.fail(rid, "%s/commutes/%s" % (a, name(b)), where_fn(calls[a][2]), a, "%s(..); %s(..)  vs  %s(..); %s(..)" % (
                        name(a), name(b), name(b), name(a)),
                        "the two setters do not commute: the final configuration depends on the order of the calls, not only on the last "
                        "value of each option", expected=_show(d[0]), found=_show(d[1]))
                else:
                    n_ok += 1
        if adt == "qr::QRBuilder" and f.fn("qr::QRBuilder::build"):
            n_ok += _build_uses_final_values(ctx, rid, f, pe, S0, calls, apply, und)
        for why, insts in sorted(und.items()):
            ctx.abstain(rid, "%s: setters do not fold (%s): %s" % (adt, ", ".join(insts[:6]), why), where_fn(cfn))
            decided = False
        if n_ok:
            ctx.ok(rid, "%s: %d setters, %d algebraic identities hold" % (adt.rsplit("::", 1)[-1], len(calls), n_ok), n=n_ok)
    return decided


def _diff(pe, x, y, f, adt):
    """first differing field of two builder values as (field = value in x, field = value in y)"""
    names = [fl["name"] for fl in f.adts[adt]["variants"][0]["fields"]]
    if x != TOP and y != TOP and x[0] == "adt" and y[0] == "adt":
        for n, a, b in zip(names, x[4], y[4]):
            na, nb = _norm(pe, a), _norm(pe, b)
            if na != nb:
                return "%s = %s" % (n, str(na)[:100]), "%s = %s" % (n, str(nb)[:100])
    return _norm(pe, x), _norm(pe, y)


def _build_uses_final_values(ctx, rid, f, pe, S0, calls, apply, und):
    fn = f.fn("qr::QRBuilder::build")
    names = [fl["name"] for fl in f.adts["qr::QRBuilder"]["variants"][0]["fields"]]
    seq = [(p, 1) for p in sorted(calls)]
    st, w = apply(S0, seq)
    if w:
        return 0
    rec = {}

    def qnew(pe_, st_, args, t):
        rec.setdefault("calls", []).append([_deref_all(pe_, st_, a) for a in args])
        return ("adt", "std::result::Result", 1, "Err", (("tok", "E"),))
    pe.summaries["qr::QRCode::new"] = qnew
    r = pe.call("qr::QRBuilder::build", [("cell", 0)], cells=[st])
    pe.summaries.pop("qr::QRCode::new", None)
    if r.kind != "ret" or not r.cells:
        und.setdefault("build does not fold: %s" % r.why, []).append("build")
        return 0
    ok = True
    if _norm(pe, r.cells[0]) != _norm(pe, st):
        ctx.fail(rid, "qr::QRBuilder::build/mutates", where_fn(fn), fn.path, "builder after build", "build changes the builder it borrows",
                 expected=_show(_norm(pe, st)), found=_show(_norm(pe, r.cells[0])))
        ok = False
    cl = rec.get("calls", [])
    fields = dict(zip(names, [_norm(pe, x) for x in st[4]]))
    want = [fields.get(n) for n in ("input", "ecl", "version", "mode", "mask")]
    got = [_norm(pe, x) for x in cl[0]] if len(cl) == 1 else None
    if got != want:
        ctx.fail(rid, "qr::QRBuilder::build/arguments", where_fn(fn), fn.path, "arguments of QRCode::new",
                 "build does not hand QRCode::new exactly the final (input, ecl, version, mode, mask) of this builder", expected=_show(want),
                 found=_show(got))
        ok = False
    return 1 if ok else 0


@_abstain_if_not_comparable
def c13_r3(ctx, f, rid="C13.R3"):
    """ImageBuilder's Builder methods act on the inner SvgBuilder exactly as the SvgBuilder's own methods do"""
    ctx.rule(rid, "option forwarding by partial evaluation: every Builder method of ImageBuilder, applied to the default builder with "
                  "sample values, leaves its inner SvgBuilder equal to SvgBuilder::default() after the same SvgBuilder method, and "
                  "changes nothing else")
    IB, SB = "convert::image::ImageBuilder", "convert::svg::SvgBuilder"
    ictor = "<%s as std::default::Default>::default" % IB
    sctor = "<%s as std::default::Default>::default" % SB
    if IB not in f.adts or SB not in f.adts or f.fn(ictor) is None or f.fn(sctor) is None:
        ctx.abstain(rid, "ImageBuilder / SvgBuilder defaults not found")
        return None
    pe = peval.PEval(f, max_steps=3_000_000)
    i0, s0 = pe.call(ictor, []), pe.call(sctor, [])
    if i0.kind != "ret" or s0.kind != "ret" or i0.value == TOP or s0.value == TOP:
        ctx.abstain(rid, "builder defaults do not fold: %s" % (i0.why or s0.why), where_fn(f.fn(ictor)))
        return None
    inames = [fl["name"] for fl in f.adts[IB]["variants"][0]["fields"]]
    inner = [k for k, fl in enumerate(f.adts[IB]["variants"][0]["fields"]) if fl["ty"] == SB]
    if len(inner) != 1:
        ctx.abstain(rid, "ImageBuilder does not hold exactly one SvgBuilder field", where_fn(f.fn(ictor)))
        return None
    k_in = inner[0]
    if _norm(pe, i0.value[4][k_in]) != _norm(pe, s0.value):
        ctx.fail(rid, IB + "/default-inner", where_fn(f.fn(ictor)), ictor, "default inner builder",
                 "ImageBuilder::default() does not start from SvgBuilder::default()", expected=_show(_norm(pe, s0.value)),
                 found=_show(_norm(pe, i0.value[4][k_in])))
    pre = "<%s as convert::Builder>::" % IB
    decided, n_ok = True, 0
    methods = [fn for fn in f.all_fns() if fn.path.startswith(pre) and fn.raw.get("kind") in ("Fn", "AssocFn")]
    if not methods:
        ctx.abstain(rid, "ImageBuilder has no Builder methods")
        return None
    for fn in sorted(methods, key=lambda x: x.path):
        name = fn.path[len(pre):]
        sfn = f.fn("<%s as convert::Builder>::%s" % (SB, name))
        ins, tyts = fn.raw["inputs"][1:], (fn.raw.get("inputs_tyt") or [])[1:]
        if sfn is None or len(tyts) != len(ins):
            ctx.abstain(rid, "no SvgBuilder counterpart / unknown signature for %s" % name, where_fn(fn))
            decided = False
            continue
        for k in (0, 1):
            args, sub, ok = [], {}, True
            for ty, tyt in zip(ins, tyts):
                sm = _samples(f, pe, ty, tyt)
                if sm is None:
                    ok = False
                    break
                args.append(sm[0][k])
                if sm[1]:
                    sub.update(sm[1])
            if not ok:
                ctx.abstain(rid, "%s takes a parameter type the rule cannot build: %s" % (name, ins), where_fn(fn))
                decided = False
                break
            ri = pe.call(fn.path, [("cell", 0)] + args, cells=[i0.value], subst=sub or None)
            rs = pe.call(sfn.path, [("cell", 0)] + args, cells=[s0.value], subst=sub or None)
            if ri.kind == "diverge":
                ctx.fail(rid, "%s/panics" % fn.path, where_fn(fn), fn.path, name, "the method panics on a sample value", found=ri.why)
                break
            if ri.kind != "ret" or rs.kind != "ret" or not ri.cells or not rs.cells or ri.cells[0] == TOP or rs.cells[0] == TOP:
                ctx.abstain(rid, "%s does not fold: %s" % (name, ri.why or rs.why), where_fn(fn))
                decided = False
                break
            after = ri.cells[0]
            if _norm(pe, after[4][k_in]) != _norm(pe, rs.cells[0]):
                d = _diff(pe, rs.cells[0], after[4][k_in], f, SB)
                ctx.fail(rid, "%s/forward" % fn.path, where_fn(fn), fn.path, name,
                         "the option does not reach the inner SVG builder as the SVG builder's own method would set it",
                         expected=_show(d[0]), found=_show(d[1]))
                break
            others = [(n, _norm(pe, a), _norm(pe, b)) for j, (n, a, b) in enumerate(zip(inames, i0.value[4], after[4])) if j != k_in]
            changed = [n for n, a, b in others if a != b]
            if changed:
                ctx.fail(rid, "%s/other-fields" % fn.path, where_fn(fn), fn.path, name, "the method also changes %s" % changed)
                break
            n_ok += 1
    if n_ok:
        ctx.ok(rid, "%d (method, value) applications forward exactly" % n_ok, n=n_ok)
    return decided
