"""Deepening rules: index / bit-order algebra by polynomial normal form, iterator closed forms.

Every rule here is decide-or-abstain on the *vocabulary*: if an index expression is a
polynomial over the atoms the rule knows (loop variables with recognised ranges, the block
layout components, lengths), it is compared with the ISO formula and a difference is a
violation; if it contains anything else the rule abstains (UNDECIDED), never alarms.
"""
from .mir import subexprs, expr_str, unname
from .rules_tables import anchor_fn, where_fn
from .rules_flow import contains, strip_refs, def_of, call_name_of_def, ret_points
from .rules_svg import loop_kind, _iter_expr
from . import poly, reference as ref

A, C = poly.A, poly.C


def K(e):
    return e[1] if isinstance(e, tuple) and e and e[0] == "K" else None


def loop_payload(fn, x):
    """if canonical expr x is the payload `Some(v).0` of an iterator's next(): return the next-def id"""
    u = unname(x)
    if u[0] == "field" and u[2] == 0 and u[1][0] == "downcast" and u[1][2] == "Some" and u[1][1][0] == "def":
        nm = call_name_of_def(fn, u[1][1][1]) or ""
        if nm.endswith("::next"):
            return u[1][1][1]
    return None


def only_known(p, allowed):
    """all atoms of polynomial p are in the allowed vocabulary"""
    for a in p.atoms():
        if a in allowed:
            continue
        if isinstance(a, tuple) and a and a[0] == "lv":
            continue
        return False
    return True


# ---------------------------------------------------------------------------
# C02.R3 block slicing and interleaving
# ---------------------------------------------------------------------------

def c02_r3(ctx, f):
    rid = "C02.R3"
    ctx.rule(rid, "block slicing and data/EC interleaving follow the ISO layout (index polynomials over the block layout)")
    fn = anchor_fn(ctx, rid, f, "polynomials::structure")
    if not fn:
        return
    grp = fn.calls("hardcode::ecc_to_groups")
    gp = fn.calls("hardcode::get_polynomial")
    dc = fn.calls("hardcode::data_codewords")
    divs = sorted(fn.calls("polynomials::division"), key=lambda c: c.line)
    pdata = fn.params_of_type("&[u8]")
    if len(grp) != 1 or len(gp) != 1 or len(dc) != 1 or len(divs) != 2 or len(pdata) != 1:
        ctx.abstain(rid, "structure() is not built from one layout lookup, one generator, one data count and two division sites", where_fn(fn))
        return
    defs = fn.defs()[0]

    def did(c):
        return [d for d in defs if d.kind == "calldest" and d.point == c.point][0].id

    G, E, D = did(grp[0]), did(gp[0]), did(dc[0])
    loops = {}

    def ren(x):
        u = unname(x)
        if u[0] == "field" and u[1][0] == "index" and u[1][1] == ("def", G) and K(u[1][2]) in (0, 1) and u[2] in (0, 1):
            return "g%d%s" % (K(u[1][2]) + 1, "cs"[u[2]])
        if u[0] == "call" and u[1] == "len" and contains(u, ("def", E)):
            return "elen"
        if u == ("def", D):
            return "D0"
        lp = loop_payload(fn, x)
        if lp is not None:
            loops[lp] = loop_kind(fn, lp)
            return ("lv", lp)
        if u[0] == "def" and (call_name_of_def(fn, u[1]) or "") in ("std::cmp::max", "core::cmp::max"):
            d = def_of(fn, u[1])
            args = sorted(repr(poly.normalise(fn.canon(a, d.point), ren).key()) for a in d.call["args"])
            return ("max", tuple(args))
        return None

    def P(op, pt):
        return poly.normalise(fn.canon(op, pt), ren)

    def loop_hi(lid):
        """upper bound of a loop over lo..hi; a non-zero lower bound is folded in as a marker so that it never compares equal"""
        k = loops.get(lid)
        if k and k[0] == "range0":
            return poly.normalise(k[1], ren)
        if k and k[0] == "range":
            lo = poly.normalise(k[1], ren)
            hi = poly.normalise(k[2], ren)
            return hi if lo == C(0) else hi + A(("starts-at", lo.show()))
        return None

    g1c, g1s, g2c, g2s, elen, D0 = A("g1c"), A("g1s"), A("g2c"), A("g2s"), A("elen"), A("D0")
    vocab = {"g1c", "g1s", "g2c", "g2s", "elen", "D0"}
    # ---- block slicing: each division site
    groups = {}
    for k, c in enumerate(divs):
        e = strip_refs(fn.canon(c.args[0], c.point))
        rng = None
        if e[0] == "call" and e[1] == "slice_index":
            ro = fn.origins(def_arg(fn, c, e), c.point) if False else None
        # find the Range aggregate feeding this slice
        rng = _range_of_slice(fn, c)
        if rng is None:
            ctx.abstain(rid, "dividend of division #%d is not data[a..b]" % k, c.where())
            continue
        lo, hi = P(rng[0], rng[2]), P(rng[1], rng[2])
        ln = hi - lo
        lvs = [a for a in lo.atoms() if isinstance(a, tuple) and a[0] == "lv"]
        if not (only_known(lo, vocab) and only_known(ln, vocab) and len(lvs) == 1):
            ctx.abstain(rid, "block bounds of division #%d outside the layout vocabulary: %s .. +%s" % (k, lo.show(), ln.show()), c.where())
            continue
        i = A(lvs[0])
        ih = loop_hi(lvs[0][1])
        names = {lvs[0]: "i"}
        if lo == i * g1s and ln == g1s and ih == g1c:
            groups[k] = (1, lvs[0])
            ctx.ok(rid, "division #%d: block i of group 1 = data[i*g1s .. +g1s], i < g1c" % k)
        elif lo == g1s * g1c + i * g2s and ln == g2s and ih == g2c:
            groups[k] = (2, lvs[0])
            ctx.ok(rid, "division #%d: block i of group 2 = data[g1c*g1s + i*g2s .. +g2s], i < g2c" % k)
        else:
            ctx.fail(rid, "%s/block-slice#%d" % (fn.path, k), c.where(), fn.path, "block passed to division #%d" % k,
                     "the block cut out of the data codewords is not block i of group 1 (data[i*g1s..+g1s], i<g1c) nor of group 2 "
                     "(data[g1c*g1s + i*g2s..+g2s], i<g2c)", expected="i*g1s..+g1s | g1c*g1s+i*g2s..+g2s",
                     found="%s .. +%s, i < %s" % (lo.show(names), ln.show(names), ih.show(names) if ih else "?"))
    ctx.check(rid, sorted(g for g, _ in groups.values()) == [1, 2] or len(groups) < 2, fn.path + "/both-groups", where_fn(fn), fn.path, "division sites",
              "the two division sites do not cover group 1 and group 2", found=sorted(g for g, _ in groups.values()),
              sample="division sites cover groups 1 and 2")
    # ---- stores into the output buffer
    ddef = {did(c): k for k, c in enumerate(divs)}
    ec_seen, data_seen = [], []
    for b in fn.blocks:
        if b["cleanup"]:
            continue
        for si, st in enumerate(b["stmts"]):
            if not (st["k"] == "assign" and st["p"]["proj"] and st.get("pty") == "u8" and any(isinstance(e, dict) and "idx" in e for e in st["p"]["proj"])):
                continue
            pt = (b["id"], si)
            idx_local = [e["idx"] for e in st["p"]["proj"] if isinstance(e, dict) and "idx" in e][0]
            idx = poly.normalise(fn.canon_local(idx_local, pt), ren)
            rhs = strip_refs(fn.canon_rv(st["rv"], pt, 0, None))
            if rhs[0] != "index":
                ctx.abstain(rid, "store into the codeword sequence reads %s" % expr_str(rhs, fn), fn.where(pt))
                continue
            src, sidx = strip_refs(rhs[1]), poly.normalise(rhs[2], ren)
            if src[0] == "def" and src[1] in ddef:
                k = ddef[src[1]]
                g = groups.get(k)
                lvs = [a for a in sidx.atoms() if isinstance(a, tuple) and a[0] == "lv"]
                if not g or len(lvs) != 1 or not only_known(idx, vocab) or not only_known(sidx, vocab | {256}):
                    ctx.abstain(rid, "EC store of division #%d outside the vocabulary: out[%s] = rem[%s]" % (k, idx.show(), sidx.show()), fn.where(pt))
                    continue
                j = A(lvs[0])
                jh = loop_hi(lvs[0][1])
                i = A(g[1])
                names = {lvs[0]: "j", g[1]: "i"}
                exp_src = C(256) - elen + j
                exp_idx = D0 + j * (g1c + g2c) + i + (C(0) if g[0] == 1 else g1c)
                ec_seen.append(g[0])
                if jh is None or not only_known(jh, vocab | {256}):
                    # the trip count is written with something outside the vocabulary (min/max/helper): not an accusation;
                    # C02.R4 decides the resulting sequence exactly
                    ctx.abstain(rid, "EC loop bound of group %d outside the vocabulary: j < %s" % (g[0], jh.show(names) if jh else "?"), fn.where(pt))
                    jh = elen - C(1)
                ok = sidx == exp_src and idx == exp_idx and jh == elen - C(1)
                ctx.check(rid, ok, "%s/ec-interleave/group%d" % (fn.path, g[0]), fn.where(pt), fn.path, "EC store of group %d" % g[0],
                          "EC codeword j of block b is not stored at data_total + j*blocks + b, read from remainder position 256-len(g)+j, "
                          "for j < len(g)-1",
                          expected="out[%s] = rem[%s], j < %s" % (exp_idx.show(names), exp_src.show(names), (elen - C(1)).show()),
                          found="out[%s] = rem[%s], j < %s" % (idx.show(names), sidx.show(names), jh.show(names) if jh else "?"),
                          sample="group %d: out[%s] = rem[%s]" % (g[0], exp_idx.show(names), exp_src.show(names)))
            elif contains(src, ("param", pdata[0])):
                lvs = [a for a in sidx.atoms() if isinstance(a, tuple) and a[0] == "lv"]
                if len(lvs) != 2 or not only_known(sidx, vocab):
                    ctx.abstain(rid, "data store outside the vocabulary: data[%s]" % sidx.show(), fn.where(pt))
                    continue
                # which loop var is the block index (range hi = g?c) and which the codeword position (hi = max)
                his = {lv: loop_hi(lv[1]) for lv in lvs}
                blk = [lv for lv in lvs if his[lv] in (g1c, g2c)]
                pos = [lv for lv in lvs if lv not in blk]
                if len(blk) != 1 or len(pos) != 1:
                    ctx.abstain(rid, "data store loop roles not recognised", fn.where(pt))
                    continue
                j, i = A(blk[0]), A(pos[0])
                names = {blk[0]: "j", pos[0]: "i"}
                grp_no = 1 if his[blk[0]] == g1c else 2
                exp = (j * g1s + i) if grp_no == 1 else (j * g2s + i + g1s * g1c)
                # guard i < g?s ; outer loop hi = max(g1s, g2s)
                gs = fn.guards_of(b["id"])
                want_g = g1s if grp_no == 1 else g2s
                gok = any(cd[0] == "bin" and cd[1] == "Lt" and pol is True and poly.normalise(cd[2], ren) == i and poly.normalise(cd[3], ren) == want_g
                          for cd, pol, s in gs)
                hi_pos = his[pos[0]]
                hok = hi_pos is not None and any(isinstance(a, tuple) and a[0] == "max" for a in hi_pos.atoms())
                data_seen.append((grp_no, fn.rpo().index(b["id"])))
                ctx.check(rid, sidx == exp and gok and hok, "%s/data-interleave/group%d" % (fn.path, grp_no), fn.where(pt), fn.path,
                          "data store of group %d" % grp_no,
                          "data codeword i of block j is not read from data[j*size + i (+ g1c*g1s)] under i < block size, for i < max(sizes)",
                          expected="data[%s] under i < %s" % (exp.show(names), want_g.show()),
                          found="data[%s] guard %s" % (sidx.show(names), [(expr_str(cd, fn), p) for cd, p, s in gs][-2:]),
                          sample="group %d: out[next] = data[%s]" % (grp_no, exp.show(names)))
                # destination: running counter incremented by one after each store
                cnt_ok = _is_running_counter(fn, idx_local, pt)
                ctx.check(rid, cnt_ok, "%s/data-interleave/counter%d" % (fn.path, grp_no), fn.where(pt), fn.path, "destination of data store",
                          "data codewords are not appended at consecutive positions starting at 0", sample="push_idx: 0, +1 per store")
    ctx.floor(rid, "EC store sites", len(ec_seen), 2)
    ctx.floor(rid, "data store sites", len(data_seen), 2)
    if len(data_seen) == 2:
        o = sorted(data_seen, key=lambda x: x[1])
        ctx.check(rid, [g for g, _ in o] == [1, 2], fn.path + "/data-interleave/order", where_fn(fn), fn.path, "order of groups per position",
                  "for each codeword position, group 2's blocks are emitted before group 1's", sample="group 1 blocks then group 2 blocks per position")


def def_arg(fn, c, e):
    return None


def _range_of_slice(fn, c):
    """the (lo operand, hi operand, point) of the Range used to slice the dividend of division call c"""
    o = fn.origins(c.args[0], c.point)
    if len(o) != 1 or o[0].kind != "call" or not (o[0].callee() or "").endswith("::index"):
        return None
    t = o[0].info.call
    r = fn.origins(t["args"][1], o[0].point)
    if len(r) != 1 or r[0].kind != "agg" or r[0].info.rv.get("path") != "std::ops::Range":
        return None
    rv = r[0].info.rv
    return rv["ops"][0], rv["ops"][1], r[0].point


def _is_running_counter(fn, idx_local, pt):
    """the index local's root variable is initialised to 0 and only ever incremented by 1"""
    o = fn.origins({"k": "copy", "p": {"l": idx_local, "proj": []}}, pt)
    roots = set()
    for x in o:
        if x.kind == "const" and x.info.get("val") == 0:
            roots.add("zero")
        elif x.kind == "expr" and x.info.rv["k"] == "bin":
            rv = x.info.rv
            e = fn.canon_rv(rv, x.point, 0, None)
            if e[0] in ("ovf", "bin") and e[1] == "Add" and (K(e[3]) == 1 or K(e[2]) == 1):
                roots.add("inc")
            else:
                roots.add("other")
        elif x.kind == "expr" and x.info.rv["k"] == "use":
            roots.add("other")
        else:
            # `.0` of a checked add
            if x.proj and x.kind == "expr" and x.info.rv["k"] == "bin":
                roots.add("inc")
            else:
                roots.add(x.kind)
    return roots <= {"zero", "inc"} and "zero" in roots


# ---------------------------------------------------------------------------
# C01.R4 placement: bit order and zig-zag structure
# ---------------------------------------------------------------------------

def iter_values(desc, size, env=None):
    """closed-form evaluation of an iterator expression for a concrete symbol size (trip-count algebra, B11)"""
    env = env or {}

    def val(e):
        p = poly.normalise(e, lambda x: "size" if unname(x)[0] == "field" and unname(x)[2] == 1 and "size" in repr(x) else None)
        tot = 0
        for mono, c in p.t.items():
            v = c
            for a in mono:
                if a == "size":
                    v *= size
                elif a in env:
                    v *= env[a]
                else:
                    return None
            tot += v
        return tot

    k = desc[0]
    if k == "range0":
        hi = val(desc[1])
        return None if hi is None else list(range(0, max(0, hi)))
    if k == "range":
        lo, hi = val(desc[1]), val(desc[2])
        return None if lo is None or hi is None else list(range(lo, max(lo, hi)))
    if k == "rev":
        v = iter_values(desc[1], size, env)
        return None if v is None else v[::-1]
    if k == "chain":
        return None  # chain needs both operands: handled by chain2
    if k == "chain2":
        a, b = iter_values(desc[1], size, env), iter_values(desc[2], size, env)
        return None if a is None or b is None else a + b
    if k == "step_by":
        v = iter_values(desc[1], size, env)
        s = K(desc[2])
        return None if v is None or not s else v[::s]
    if k == "enumerate":
        v = iter_values(desc[1], size, env)
        return None if v is None else list(enumerate(v))
    return None


def iter_expr2(fn, o, depth=0):
    """like rules_svg._iter_expr but keeps both operands of chain()"""
    if depth > 8:
        return ("other", "deep")
    if o.kind == "agg" and o.info.rv.get("path") in ("std::ops::Range",):
        lo = fn.canon(o.info.rv["ops"][0], o.point)
        hi = fn.canon(o.info.rv["ops"][1], o.point)
        return ("range0", hi) if K(lo) == 0 else ("range", lo, hi)
    if o.kind != "call":
        return ("other", o.kind)
    t = o.info.call
    name = (t.get("callee") or t.get("declared") or "")
    last = name.split("::")[-1]

    def sub(i):
        a = fn.origins(t["args"][i], o.point, hide_weak=True)
        return iter_expr2(fn, a[0], depth + 1) if len(a) == 1 and a[0].kind in ("call", "agg") else ("other", "?")

    if last == "into_iter":
        return sub(0)
    if last == "chain":
        return ("chain2", sub(0), sub(1))
    if last in ("rev", "enumerate"):
        return (last, sub(0))
    if last == "step_by":
        return ("step_by", sub(0), fn.canon(t["args"][1], o.point))
    return ("other", name)


def loop_kind2(fn, next_def_id):
    d = def_of(fn, next_def_id)
    it = fn.origins(d.call["args"][0], d.point)
    if len(it) != 1 or it[0].kind != "ref":
        return None
    l = it[0].info.rv["p"]["l"]
    src = fn.origins({"k": "copy", "p": {"l": l, "proj": []}}, d.point, hide_weak=True)
    if len(src) != 1 or src[0].kind not in ("call", "agg"):
        return None
    return iter_expr2(fn, src[0])


def c01_r4(ctx, f):
    rid = "C01.R4"
    ctx.rule(rid, "placement: bits MSB-first from consecutive positions; columns right-to-left in pairs skipping column 6; right module first")
    fn = anchor_fn(ctx, rid, f, "placement::place_on_matrix_data")
    if not fn:
        return
    sets = sorted(fn.calls("module::Module::set"), key=lambda c: (c.line, c.block))
    ctx.analysed(fn, len(sets))
    if len(sets) != 2:
        ctx.abstain(rid, "expected two set() sites (right and left module of a column pair), found %d" % len(sets), where_fn(fn))
        return
    pq = 1
    size = None
    loops = {}

    def ren(x):
        u = unname(x)
        if u[0] == "field" and u[2] == 1 and contains(u, ("param", pq)) and "size" in repr(x):
            return "size"
        lp = loop_payload(fn, x)
        if lp is not None:
            loops[lp] = loop_kind2(fn, lp)
            return ("lv", lp)
        if u[0] == "phi":
            return ("phi", u[1])
        return None

    cols = []
    idx_phi = set()
    for k, c in enumerate(sets):
        place = strip_refs(fn.canon(c.args[0], c.point))
        # place = index(deref(qr_row(qr, y)), x)
        if not (place[0] == "index" and strip_refs(place[1])[0] == "call" and strip_refs(place[1])[1] == "qr_row"):
            ctx.abstain(rid, "set() target is not qr[y][x]: %s" % expr_str(place, fn), c.where())
            return
        row = poly.normalise(strip_refs(place[1])[2][1], ren)
        col = poly.normalise(place[2], ren)
        cols.append((row, col, c))
        # value: (bytes[idx/8] & (1 << (7 - idx%8))) != 0
        v = fn.canon(c.args[1], c.point)
        ok = False
        found = expr_str(v, fn)
        if v[0] == "bin" and v[1] == "Ne" and K(v[3]) == 0:
            m = v[2]
            if m[0] == "bin" and m[1] == "BitAnd":
                for byte, mask in ((m[2], m[3]), (m[3], m[2])):
                    byte = strip_refs(byte)
                    if byte[0] == "call" and byte[1] == "vec_index" and mask[0] == "bin" and mask[1] == "Shl" and K(mask[2]) == 1:
                        bi = poly.normalise(byte[2][1], ren)
                        sh = poly.normalise(mask[3], ren)
                        phis = [a for a in bi.atoms() if isinstance(a, tuple) and a[0] == "Div"]
                        # expected: bytes[idx / 8], shift 7 - idx % 8 over the same running counter
                        ia = [a for a in (set(_flat_atoms(bi)) | set(_flat_atoms(sh))) if isinstance(a, tuple) and a[0] == "phi"]
                        if len(set(ia)) == 1:
                            idx = A(ia[0])
                            idx_phi.add(ia[0])
                            exp_bi = poly.op("Div", idx, C(8))
                            exp_sh = C(7) - poly.op("Rem", idx, C(8))
                            ok = bi == exp_bi and sh == exp_sh
                            found = "bytes[%s] & (1 << %s)" % (bi.show({ia[0]: "idx"}), sh.show({ia[0]: "idx"}))
                            _ = phis
                        # source = the bit string's bytes
                        ok = ok and contains(byte[2][0], ("param", 2))
        if not ok:
            # the same bit written the other way round: ((bytes[idx/8] >> (7 - idx%8)) & 1) == 1   (or != 0)
            w = v
            if w[0] == "bin" and ((w[1] == "Eq" and K(w[3]) == 1) or (w[1] == "Ne" and K(w[3]) == 0)):
                m = w[2]
                if m[0] == "bin" and m[1] == "BitAnd" and (K(m[3]) == 1 or K(m[2]) == 1):
                    sh_ = m[2] if K(m[3]) == 1 else m[3]
                    if sh_[0] == "bin" and sh_[1] == "Shr":
                        byte = strip_refs(sh_[2])
                        if byte[0] == "call" and byte[1] == "vec_index":
                            bi = poly.normalise(byte[2][1], ren)
                            sh = poly.normalise(sh_[3], ren)
                            ia = [a for a in (set(_flat_atoms(bi)) | set(_flat_atoms(sh))) if isinstance(a, tuple) and a[0] == "phi"]
                            if len(set(ia)) == 1:
                                idx = A(ia[0])
                                idx_phi.add(ia[0])
                                ok = bi == poly.op("Div", idx, C(8)) and sh == C(7) - poly.op("Rem", idx, C(8)) and contains(byte[2][0], ("param", 2))
                                found = "(bytes[%s] >> %s) & 1" % (bi.show({ia[0]: "idx"}), sh.show({ia[0]: "idx"}))
            if not ok and not (v[0] == "bin" and v[1] in ("Ne", "Eq")):
                # the value is computed in a way this rule does not read (a helper, a different bit extraction): no verdict
                ctx.abstain(rid, "value placed by set() #%d is not a bit test the rule reads: %s" % (k, found[:120]), c.where())
                continue
        ctx.check(rid, ok, "%s/bit-order/%d" % (fn.path, k), c.where(), fn.path, "value placed by set() #%d" % k,
                  "the module value is not bit (7 - idx mod 8) of byte idx/8 of the codeword sequence (most significant bit first)",
                  expected="bytes[idx/8] & (1 << (7 - idx%8)) != 0", found=found, sample="bit = bytes[idx/8] >> (7 - idx%8) & 1")
    # idx: starts at 0, +1 after each read
    if len(idx_phi) == 1:
        l = list(idx_phi)[0][1]
        kinds = []
        for d in fn.defs()[0]:
            if d.local != l:
                continue
            if d.kind == "assign" and d.rv["k"] == "use" and d.rv["op"]["k"] == "const" and d.rv["op"].get("val") == 0:
                kinds.append("zero")
            elif d.kind == "assign":
                e = fn.canon_rv(d.rv, d.point, 0, None)
                if e[0] in ("ovf", "bin") and e[1] == "Add" and 1 in (K(e[2]), K(e[3])) and ("phi", l) in (e[2], e[3]) or (
                        e[0] in ("ovf", "bin") and e[1] == "Add" and 1 in (K(e[2]), K(e[3]))):
                    kinds.append("inc")
                else:
                    kinds.append("other")
            else:
                kinds.append(d.kind)
        # each increment directly follows one read: one per set() site
        ctx.check(rid, sorted(kinds) == ["inc", "inc", "zero"], fn.path + "/bit-counter", where_fn(fn), fn.path, "bit position counter",
                  "the bit position does not start at 0 and advance by exactly one per module placed", found=sorted(kinds),
                  sample="idx: 0, +1 per placed module (2 sites)")
    # column pair: second site is column x-1 of the same row; first site first
    (r0, c0, s0), (r1, c1, s1) = cols
    ctx.check(rid, r0 == r1 and c1 == c0 - C(1) and fn.dominates(s0.block, s1.block) is not None and _precedes(fn, s0, s1),
              fn.path + "/pair-order", s1.where(), fn.path, "column pair",
              "within a row the right module (x) is not placed before the left one (x-1)", found="(%s,%s) then (%s,%s)" % (r0.show(), c0.show(), r1.show(), c1.show()),
              sample="(y, x) then (y, x-1)")
    # column sequence by closed form for all 40 sizes
    xl = [a for a in c0.atoms() if isinstance(a, tuple) and a[0] == "lv"]
    yl = [a for a in r0.atoms() if isinstance(a, tuple) and a[0] == "lv"]
    if len(xl) != 1 or c0 != A(xl[0]) or len(yl) != 1 or r0 != A(yl[0]):
        ctx.abstain(rid, "column/row of set() are not plain loop variables", s0.where())
        return
    xk = loops.get(xl[0][1])
    bad = 0
    for v in range(1, 41):
        n = ref.side(v)
        xs = iter_values(xk, n) if xk else None
        if xs is None:
            ctx.abstain(rid, "column iterator outside the closed-form grammar: %s" % str(xk), s0.where())
            return
        exp = [x for x in range(n - 1, 6, -2)] + [5, 3, 1]
        ok = xs == exp
        bad += 0 if ok else 1
        ctx.check(rid, ok, "%s/columns/V%02d" % (fn.path, v), s0.where(), fn.path, "column sequence for size %d" % n,
                  "column pairs are not visited right to left as (n-1,n-2),...,(8,7),(5,4),(3,2),(1,0) with column 6 skipped",
                  expected=exp[:4] + ["..."] + exp[-4:], found=xs[:4] + ["..."] + xs[-4:], sample="size %d: x = %s...%s" % (n, xs[:3], xs[-3:]))
    # row direction: alternates, starting upwards
    yk = loops.get(yl[0][1])
    _row_direction(ctx, rid, f, fn, yl[0][1], s0)
    _ = (yk, size)


def _flat_atoms(p):
    out = []
    for m in p.t:
        for a in m:
            out.append(a)
            out += _atoms_in_key(a)
    return out


def _atoms_in_key(a):
    out = []
    if isinstance(a, tuple):
        if a and a[0] == "phi" and len(a) == 2 and isinstance(a[1], int):
            out.append(a)
        for x in a:
            if isinstance(x, tuple):
                out += _atoms_in_key(x)
    return out


def _precedes(fn, a, b):
    """call site a is executed before call site b within one iteration (a reaches b without passing the loop head again)"""
    return fn.reaches(a.block, b.block)


def _row_direction(ctx, rid, f, fn, y_next_def, site):
    """y iterates a BiRange chosen by a boolean that starts true (upwards) and is negated after every column pair"""
    d = def_of(fn, y_next_def)
    nm = d.call.get("callee") or ""
    if "BiRange" not in nm:
        ctx.abstain(rid, "row iterator is not the two-direction range", site.where())
        return
    # the BiRange local's two constructions and their guards
    it = fn.origins(d.call["args"][0], d.point)
    l = it[0].info.rv["p"]["l"] if len(it) == 1 and it[0].kind == "ref" else None
    src = fn.origins({"k": "copy", "p": {"l": l, "proj": []}}, d.point, hide_weak=True) if l is not None else []
    aggs = []
    for s in src:
        if s.kind == "call" and (s.callee() or "").endswith("into_iter"):
            aggs += [x for x in fn.origins(s.info.call["args"][0], s.point, hide_weak=True) if x.kind == "agg"]
        elif s.kind == "agg":
            aggs.append(s)
    dirs = {}
    flag = None
    for a in aggs:
        var = a.info.rv.get("variant")
        inner = fn.origins(a.info.rv["ops"][0], a.point, hide_weak=True)
        desc = iter_expr2(fn, inner[0]) if len(inner) == 1 and inner[0].kind in ("call", "agg") else None
        g = [(cd, pol) for cd, pol, s in fn.guards_of(a.point[0])]
        g = [x for x in g if x[0][0] == "phi"]
        if g:
            flag = g[-1][0]
            dirs[g[-1][1]] = (var, desc)
    ok = set(dirs) == {True, False}
    if ok:
        up, down = dirs[True], dirs[False]
        ok = up[1] is not None and down[1] is not None and up[1][0] == "rev" and up[1][1][0] == "range0" and down[1][0] == "range0" \
            and "size" in repr(up[1][1][1]) and "size" in repr(down[1][1])
    ctx.check(rid, ok, fn.path + "/row-direction", site.where(), fn.path, "row direction",
              "rows are not traversed bottom-to-top when the flag is set and top-to-bottom otherwise, over 0..size",
              found={k: (v[0], str(v[1])[:60]) for k, v in dirs.items()}, sample="rev flag: true -> (0..size).rev(), false -> 0..size")
    # the BiRange iterator forwards next() of the wrapped range for both variants
    br = f.fn("<placement::BiRange as std::iter::Iterator>::next")
    if br:
        ctx.analysed(br)
        nexts = [c for c in br.calls() if (c.name or "").endswith("::next")]
        ctx.check(rid, len(nexts) == 2 and len(ret_points(br)) >= 1, br.path + "/forwards", where_fn(br), br.path, "BiRange::next",
                  "the two-direction range does not forward next() for both directions", found=[c.name for c in nexts],
                  sample="BiRange::next forwards to the wrapped range")
    if flag is not None:
        l = flag[1]
        o = fn.origins({"k": "copy", "p": {"l": l, "proj": []}}, site.point)
        kinds = set()
        for x in o:
            if x.kind == "const" and x.info.get("val") is True:
                kinds.add("init-true")
            elif x.kind == "expr" and x.info.rv["k"] == "un" and x.info.rv["op"] == "Not":
                kinds.add("negated")
            else:
                kinds.add("other:" + x.describe(fn))
        # negation happens once per column pair: in the outer loop, outside the row loop
        negs = [(b["id"], i) for b in fn.blocks if not b["cleanup"] for i, st in enumerate(b["stmts"])
                if st["k"] == "assign" and st["p"] == {"l": l, "proj": []} and st["rv"]["k"] == "un"]
        inner_blocks = d.point[0]
        okn = len(negs) == 1 and fn.in_loop(negs[0][0]) and not _in_inner_loop(fn, negs[0][0], inner_blocks)
        ctx.check(rid, kinds == {"init-true", "negated"} and okn, fn.path + "/direction-flag", site.where(), fn.path, "direction flag",
                  "the direction flag does not start as 'upwards' and flip exactly once per column pair", found=(sorted(kinds), negs),
                  sample="rev = true; rev = !rev after each column pair")


def _in_inner_loop(fn, block, inner_next_block):
    """block belongs to the natural loop headed by the inner loop's next() block"""
    return block in fn.natural_loop(inner_next_block)


# ---------------------------------------------------------------------------
# C09.R2 the two-stage scan
# ---------------------------------------------------------------------------

def _scan_shape(fn, f):
    """recognise `for &c in input.iter().skip(i) { if !pred(c) { return X } } Y`.
    The byte test is not matched by name: the region between the element binding and the test's
    switch is folded for all 256 byte values, giving the accepted byte set."""
    from . import fold
    rets = []
    for b in fn.blocks:
        if b["cleanup"]:
            continue
        for i, st in enumerate(b["stmts"]):
            if st["k"] == "assign" and st["p"] == {"l": 0, "proj": []}:
                rets.append(((b["id"], i), st["rv"], None))
        t = b["term"]
        if t and t["k"] == "call" and t["dest"] == {"l": 0, "proj": []}:
            rets.append(((b["id"], len(b["stmts"])), None, t))
    nexts = [c for c in fn.calls() if (c.name or "").endswith("::next")]
    if len(nexts) != 1 or len(rets) != 2:
        return None
    nx = nexts[0]
    ndef = [d for d in fn.defs()[0] if d.kind == "calldest" and d.point == nx.point][0]
    out = {}
    d = def_of(fn, ndef.id)
    it = fn.origins(d.call["args"][0], d.point)
    src = fn.origins({"k": "copy", "p": {"l": it[0].info.rv["p"]["l"], "proj": []}}, d.point, hide_weak=True) if len(it) == 1 and it[0].kind == "ref" else []
    chain = []
    cur = src[0] if len(src) == 1 and src[0].kind == "call" else None
    while cur is not None and len(chain) < 6:
        t = cur.info.call
        nm = (t.get("callee") or t.get("declared") or "").split("::")[-1]
        chain.append((nm, [fn.canon(a, cur.point) for a in t["args"][1:]], fn.canon(t["args"][0], cur.point)))
        a = fn.origins(t["args"][0], cur.point, hide_weak=True)
        cur = a[0] if len(a) == 1 and a[0].kind == "call" else None
    out["chain"] = [c[0] for c in chain]
    out["skip"] = next((c[1][0] for c in chain if c[0] == "skip"), ("K", 0, "usize"))
    out["source"] = chain[-1][2] if chain else None
    # the element local: `c = *payload`
    elem_local = None
    some_block = None
    for b in fn.blocks:
        if b["cleanup"]:
            continue
        for i, st in enumerate(b["stmts"]):
            if st["k"] == "assign" and not st["p"]["proj"] and fn.locals[st["p"]["l"]]["ty"] == "u8":
                e = unname(strip_refs(fn.canon_rv(st["rv"], (b["id"], i), 0, None)))
                if e == ("field", ("downcast", ("def", ndef.id), "Some"), 0):
                    elem_local, some_block, some_idx = st["p"]["l"], b["id"], i
    if elem_local is None:
        return None
    # the test: the first bool switch dominated by the element binding, inside the loop
    body = fn.natural_loop(nx.block)
    tests = [b for b in sorted(body) if fn.bool_test(b) and fn.dominates(some_block, b)]
    if len(tests) != 1:
        return None
    tb = tests[0]
    cond, tt, ft, tpt = fn.bool_test(tb)
    F = fold.Folder(f)
    accepted = set()
    undecided = False
    for v in range(256):
        r = F.run(fn.path, [], start=(some_block, some_idx + 1), env={elem_local: fold.mk_int("u8", v)}, stop_block=tb)
        if r.kind == "stop" and isinstance(r.value, dict) and r.value.get("switch", fold.TOP) != fold.TOP and r.value["switch"][0] == "bool":
            if r.value["switch"][1]:
                accepted.add(v)
        else:
            undecided = True
    out["test_true_bytes"] = None if undecided else accepted
    for pt, rv, call in rets:
        sg = fn.switch_guards(pt[0])
        exhausted = any(cd[0] == "discr" and cd[1] == ("def", ndef.id) and how == ("eq", 0) for cd, how, s in sg)
        pol = None
        for cd, p_, s in fn.guards_of(pt[0]):
            if s == tb:
                pol = p_
        val = None
        if rv is not None and rv["k"] == "agg":
            val = ("variant", rv.get("variant"))
        elif call is not None:
            val = ("call", call.get("callee"), [fn.canon(a, pt) for a in call["args"]])
        if exhausted and pol is None:
            out["done"] = val
        elif pol is not None:
            out["fail"] = val
            out["fail_polarity"] = pol  # early return happens when the test is `pol`
    if "done" not in out or "fail" not in out:
        return None
    if out["test_true_bytes"] is not None:
        allb = set(range(256))
        out["continue_bytes"] = out["test_true_bytes"] if out["fail_polarity"] is False else allb - out["test_true_bytes"]
    else:
        out["continue_bytes"] = None
    return out


def c09_r2(ctx, f):
    rid = "C09.R2"
    ctx.rule(rid, "two-stage scan: all digits -> Numeric; else all alphanumeric -> Alphanumeric; else Byte; every byte inspected")
    be = anchor_fn(ctx, rid, f, "encode::best_encoding", ["&[u8]"], "encode::Mode")
    if not be:
        return
    ro = [o for rp in ret_points(be) for o in be.origins({"k": "copy", "p": {"l": 0, "proj": []}}, rp)]
    if not (len(ro) == 1 and ro[0].kind == "call" and ro[0].callee() in f.fns):
        ctx.abstain(rid, "best_encoding is not a single call to a scan function", where_fn(be))
        return
    first = ro[0].callee()
    a = [be.canon(x, ro[0].point) for x in ro[0].info.call["args"]]
    ctx.check(rid, strip_refs(a[0]) == ("param", 1) and (len(a) < 2 or K(a[1]) == 0), be.path + "/start", where_fn(be), be.path, "first scan",
              "the scan does not start at byte 0 of the input", found=[expr_str(x, be) for x in a], sample="%s(input, 0)" % first.split("::")[-1])
    s1 = f.fn(first)
    ctx.analysed(s1)
    sh1 = _scan_shape(s1, f)
    if not sh1:
        ctx.abstain(rid, "first scan not in the recognised shape (one loop with one byte test and an early return)", where_fn(s1))
        return
    digits = set(range(0x30, 0x3A))
    alnum = {ord(ch) for ch in ref.ALNUM}

    def show(bs):
        return "".join(chr(b) if 32 < b < 127 else "\\x%02x" % b for b in sorted(bs))[:80]

    if sh1["continue_bytes"] is None:
        ctx.abstain(rid, "byte test of the first scan could not be folded over the 256 byte values", where_fn(s1))
        return
    ok1 = sh1["done"] == ("variant", "Numeric") and sh1["continue_bytes"] == digits and sh1["fail"][0] == "call"
    ctx.check(rid, ok1, s1.path + "/numeric-stage", where_fn(s1), s1.path, "numeric stage",
              "the first stage does not return Numeric exactly when every byte is an ASCII digit, deferring to the second stage otherwise",
              expected="continue on 0-9 only; exhausted -> Numeric",
              found="continue on {%s}%s; exhausted -> %s; else -> %s" % (
                  show(sh1["continue_bytes"] ^ digits) and ("0-9 +/- {%s}" % show(sh1["continue_bytes"] ^ digits)) or "0-9", "",
                  sh1["done"], str(sh1["fail"])[:60]),
              sample="all digits -> Numeric, else second stage (byte test folded over 256 values)")
    ctx.check(rid, sh1["chain"][-1:] == ["iter"] and strip_refs(sh1["source"]) == ("param", 1) and sh1["skip"] in (("param", 2), ("K", 0, "usize")),
              s1.path + "/covers-input", where_fn(s1), s1.path, "bytes scanned", "the first stage does not scan the input from the given start",
              found=sh1["chain"], sample="input.iter().skip(i)")
    if not ok1:
        return
    second = sh1["fail"][1]
    args2 = sh1["fail"][2]
    s2 = f.fn(second) if second else None
    if not s2:
        ctx.abstain(rid, "second stage is not a crate function", where_fn(s1))
        return
    ctx.analysed(s2)
    ctx.check(rid, strip_refs(args2[0]) == ("param", 1) and (len(args2) < 2 or args2[1] == ("param", 2) or K(args2[1]) == 0), s1.path + "/second-start",
              where_fn(s1), s1.path, "hand-over to the second stage",
              "the second stage starts later than the first stage did or scans another slice", found=[expr_str(x, s1) for x in args2],
              sample="second stage scans from the same start")
    sh2 = _scan_shape(s2, f)
    if not sh2 or sh2["continue_bytes"] is None:
        ctx.abstain(rid, "second scan not in the recognised shape", where_fn(s2))
        return
    ok2 = sh2["done"] == ("variant", "Alphanumeric") and sh2["fail"] == ("variant", "Byte") and sh2["continue_bytes"] == alnum
    ctx.check(rid, ok2, s2.path + "/alnum-stage", where_fn(s2), s2.path, "alphanumeric stage",
              "the second stage does not return Alphanumeric exactly when every byte is in the 45-character set and Byte otherwise",
              expected="continue on the 45-character set only",
              found="differs on {%s}; exhausted -> %s; else -> %s" % (show(sh2["continue_bytes"] ^ alnum), sh2["done"], sh2["fail"]),
              sample="all alphanumeric -> Alphanumeric, else Byte (byte test folded over 256 values)")
    ctx.check(rid, sh2["chain"][-1:] == ["iter"] and strip_refs(sh2["source"]) == ("param", 1) and sh2["skip"] in (("param", 2), ("K", 0, "usize")),
              s2.path + "/covers-input", where_fn(s2), s2.path, "bytes scanned", "the second stage does not scan the input from the given start",
              found=sh2["chain"], sample="input.iter().skip(i)")


# ---------------------------------------------------------------------------
# C11.R6 scorer constants
# ---------------------------------------------------------------------------

def c11_r6(ctx, f):
    rid = "C11.R6"
    ctx.rule(rid, "scorer constants: runs >= 5 score N-2, 40 per 1011101 window of 7, 3 per 2x2 block, ratio = dark*100/(n*n)")
    ln = anchor_fn(ctx, rid, f, "score::line")
    if ln:
        consts = _int_consts(ln)
        # run threshold and bonus
        thr = [K(c[3]) for b in range(ln.n) if ln.live[b] and ln.bool_test(b) for c in [ln.canon(ln.bool_test(b)[0], ln.bool_test(b)[3])]
               if c[0] == "bin" and c[1] in ("Ge", "Gt", "Lt", "Le") and K(c[3]) is not None and c[2][0] == "phi"]
        if not thr:
            ctx.abstain(rid, "no comparison of a loop-carried counter with a constant in score::line: the run threshold is written in a shape this rule does not read", where_fn(ln))
        else:
            ctx.check(rid, set(thr) <= {5, 7} and 5 in thr, ln.path + "/run-threshold", where_fn(ln), ln.path, "run threshold",
                      "a run is not penalised from 5 equal modules on", expected="count >= 5", found=thr, sample="count >= 5 at %d sites" % thr.count(5))
        subs = set()
        for b in ln.blocks:
            if b["cleanup"]:
                continue
            for i, st in enumerate(b["stmts"]):
                if st["k"] == "assign" and st["rv"]["k"] == "bin" and st["rv"]["op"].startswith("Sub"):
                    e = ln.canon_rv(st["rv"], (b["id"], i), 0, None)
                    if K(e[3]) is not None and e[2][0] == "phi":
                        subs.add(K(e[3]))
        if not subs:
            ctx.abstain(rid, "no `counter - constant` in score::line: the run penalty is written in a shape this rule does not read", where_fn(ln))
        else:
            ctx.check(rid, subs == {2}, ln.path + "/run-bonus", where_fn(ln), ln.path, "run penalty", "a run of N modules does not score N-2",
                      expected="count - 2", found=sorted(subs), sample="line_score += count - 2")
        if not ({40, 0b1011101, 0b1111111} & consts):
            ctx.abstain(rid, "none of the pattern constants appears in score::line: the 1011101 window is scored elsewhere", where_fn(ln))
        else:
            ctx.check(rid, 40 in consts and 0b1011101 in consts and 0b1111111 in consts, ln.path + "/pattern", where_fn(ln), ln.path, "finder-like pattern",
                      "the 1011101 window (7 modules, 40 points) constants are not present", found=sorted(c for c in consts if c >= 7)[:8],
                      sample="pattern 0b1011101 within mask 0b1111111 scores 40")
        pl = f.const("score::line::PATTERN_LEN")
        ctx.check(rid, pl == 7 or pl is None, ln.path + "/pattern-len", where_fn(ln), ln.path, "pattern length", "pattern window is not 7 modules", found=pl,
                  sample="PATTERN_LEN = 7")
    sq = anchor_fn(ctx, rid, f, "score::matrix_score_squares")
    if sq:
        consts = _int_consts(sq)
        adds = set()
        for b in sq.blocks:
            if b["cleanup"]:
                continue
            for i, st in enumerate(b["stmts"]):
                if st["k"] == "assign" and st["rv"]["k"] == "bin" and st["rv"]["op"].startswith("Add"):
                    e = sq.canon_rv(st["rv"], (b["id"], i), 0, None)
                    if K(e[3]) is not None and e[2][0] == "phi" and sq.locals[e[2][1]]["ty"] == "u32":
                        adds.add(K(e[3]))
        if not adds:
            ctx.abstain(rid, "no `accumulator + constant` in matrix_score_squares: the block penalty is written in a shape this rule does not read", where_fn(sq))
        else:
            ctx.check(rid, adds == {3}, sq.path + "/block-score", where_fn(sq), sq.path, "2x2 block penalty", "a uniform 2x2 block does not score 3",
                      expected=3, found=sorted(adds), sample="square_score += 3")
        if 0b1111 in consts and 0 in consts:
            ctx.ok(rid, "buffer == 0b1111 || buffer == 0")
        else:
            ctx.abstain(rid, "uniformity test of the 2x2 block is not written as comparisons with 0b1111 and 0", where_fn(sq))
    dm = anchor_fn(ctx, rid, f, "score::dark_module_score")
    if dm:
        # percent = dark*100/(n*n) indexing PERCENT_SCORE
        idx = None
        for b in dm.blocks:
            if b["cleanup"]:
                continue
            for i, st in enumerate(b["stmts"]):
                if st["k"] == "assign" and st["rv"]["k"] == "use" and st["rv"]["op"]["k"] in ("copy", "move"):
                    p = st["rv"]["op"]["p"]
                    ix = [e for e in p["proj"] if isinstance(e, dict) and "idx" in e]
                    base = dm.single_def(p["l"], (b["id"], i))
                    if ix and base is not None and base.rv is not None and base.rv["k"] == "use" and base.rv["op"].get("item") == "hardcode::PERCENT_SCORE":
                        idx = dm.canon_local(ix[0]["idx"], (b["id"], i))

        def ren(x):
            u = unname(x)
            if u[0] == "field" and "size" in repr(x) and u[2] == 1:
                return "n"
            if u[0] == "def":
                nm = call_name_of_def(dm, u[1]) or ""
                if nm.endswith("::count"):
                    return "dark"
            return None
        if idx is None:
            ctx.abstain(rid, "PERCENT_SCORE lookup not found in dark_module_score", where_fn(dm))
        else:
            got = poly.normalise(idx, ren)
            exp = poly.op("Div", A("dark") * C(100), A("n") * A("n"))
            ctx.check(rid, got == exp, dm.path + "/percent", where_fn(dm), dm.path, "dark percentage",
                      "the table is not indexed by floor(100 * dark / (n*n))", expected=exp.show(), found=got.show(), sample="percent = dark*100/(n*n)")
        # counted over data[..n*n] with value() == DARK
        cl = [st["rv"]["path"] for b in dm.blocks if not b["cleanup"] for st in b["stmts"] if st["k"] == "assign" and st["rv"]["k"] == "agg" and st["rv"].get("agg") == "closure"]
        okc = False
        if len(cl) == 1:
            body = f.fn(cl[0])
            e = body.canon({"k": "copy", "p": {"l": 0, "proj": []}}, ret_points(body)[0])
            okc = e[0] == "bin" and e[1] == "Eq" and any(x[0] == "call" and x[1] == "module::Module::value" for x in subexprs(e)) and any(
                x[0] == "K" and x[1] is True for x in subexprs(e))
        ctx.check(rid, okc, dm.path + "/counts-dark", where_fn(dm), dm.path, "counted modules", "the ratio does not count modules whose value is dark",
                  sample="filter(|m| m.value() == DARK).count()")


def _int_consts(fn):
    out = set()
    for b in fn.blocks:
        if b["cleanup"]:
            continue
        for st in b["stmts"]:
            if st["k"] != "assign":
                continue
            rv = st["rv"]
            ops = []
            if rv["k"] in ("use", "cast", "repeat"):
                ops = [rv["op"]]
            elif rv["k"] == "bin":
                ops = [rv["a"], rv["b"]]
            elif rv["k"] == "un":
                ops = [rv["a"]]
            for o in ops:
                if isinstance(o, dict) and o.get("k") == "const" and isinstance(o.get("val"), int) and not isinstance(o.get("val"), bool):
                    out.add(o["val"])
    return out


# ---------------------------------------------------------------------------
# C10.R1 explicit panic sites reachable from build are accounted for
# ---------------------------------------------------------------------------

ACCOUNTED = {
    # (function, callee last segment) -> (how many sites, what discharges it)
    ("<module::ModuleType as std::convert::From<u8>>::from", "panic"): (1, "C15.T1: module_type() folds without diverging on all 16 constructible modules; set/toggle change bit 0 only"),
    ("compact::CompactQR::fill", "assert_failed"): (1, "C06.R1 + C06.T3: pad_to_8 dominates fill and pushes (8 - len%8)%8 bits (debug assertion only)"),
    ("encode::ascii_to_alphanumeric", "panic_fmt"): (1, "C09.T1/T2/R2: reached only with bytes of the 45-character set (automatic mode) or a forced mode whose alphabet contains the input"),
    ("encode::ascii_to_digit", "panic_fmt"): (1, "C09.R2: reached only with ASCII digits (automatic mode) or a forced mode whose alphabet contains the input"),
    ("encode::encode_alphanumeric", "unwrap"): (1, "C10.R1 guard: last().unwrap() only under len - len%2 != len, i.e. a non-empty input"),
    ("encode::encode_numeric", "panic_fmt"): (1, "C10.R1 guard: unreachable!() arm only after the early return for len%3 == 0"),
    ("placement::place_on_matrix_data", "assert_failed"): (1, "C15.T2 + C15.R1: data-typed modules number 8*max_bytes + missing_bits (debug assertion only)"),
    ("version::Version::from_n", "panic_fmt"): (1, "C03.T1: from_n is total on the 40 sizes Version::size produces"),
}


def c10_r1(ctx, f, evaluated=None):
    """evaluated: {function-path prefix: rule id} for code that a partial-evaluation rule of this run executed on every
    configuration it enumerates without meeting a panic (a reachable panic there is a `diverge` verdict of that rule)"""
    from .rules_encode import panic_inventory
    rid = "C10.R1"
    ctx.rule(rid, "every explicit panic site reachable from build is accounted for by a discharging precondition")
    fns, sites = panic_inventory(ctx, f, ["qr::QRBuilder::build"], "build")
    import re as _re

    def owner(path):
        # a panic inside a closure belongs to the function that holds the closure
        return _re.sub(r"(::\{closure#\d+\})+$", "", path)
    seen = {}
    for s in sites:
        key = (s["fn"], s["callee"].split("::")[-1])
        seen[key] = seen.get(key, 0) + 1
    for key, n in sorted(seen.items()):
        acc = ACCOUNTED.get(key) or ACCOUNTED.get((owner(key[0]), key[1]))
        ok = acc is not None and n <= acc[0]
        if not ok and evaluated:
            by = [r for pre, r in evaluated.items() if key[0].startswith(pre)]
            if by:
                ctx.ok(rid, "%s %s: not met on any configuration evaluated by %s" % (key[0], key[1], by[0]))
                continue
        line = [s["line"] for s in sites if (s["fn"], s["callee"].split("::")[-1]) == key][0]
        ctx.check(rid, ok, "%s/%s" % key, "%s:%s" % (f.fns[key[0]]["file"], line), key[0], "%s x%d" % (key[1], n),
                  "an explicit panic/unwrap is reachable from QRBuilder::build and no precondition is known that rules it out: "
                  "building could panic instead of returning Ok or a documented Err",
                  expected="accounted panic sites only", found="%d site(s)" % n, sample="%s %s: %s" % (key[0], key[1], acc[1][:70] if acc else "?"))
    # structural guards of the two encoder-internal sites
    ea = f.fn("encode::encode_alphanumeric")
    if ea:
        for c in ea.calls("std::option::Option::<T>::unwrap"):
            pin = ea.params_of_type("&[u8]")

            def ren(x):
                if x[0] == "call" and x[1] == "len" and contains(x, ("param", pin[0])):
                    return "len"
                return None
            ok = False
            for cd, pol, s in ea.guards_of(c.block):
                if cd[0] == "bin" and cd[1] in ("Ne", "Eq") and (cd[1] == "Ne") == pol:
                    a, b = poly.normalise(cd[2], ren), poly.normalise(cd[3], ren)
                    ln = A("len")
                    if {a, b} == {ln, ln - poly.op("Rem", ln, C(2))}:
                        ok = True
            src = ea.canon(c.args[0], c.point)
            ok = ok and src[0] == "def" and (call_name_of_def(ea, src[1]) or "").endswith("::last")
            ctx.check(rid, ok, ea.path + "/last-unwrap-guard", c.where(), ea.path, "input.last().unwrap()",
                      "last().unwrap() is not confined to inputs of odd (hence non-zero) length", sample="unwrap only when len - len%2 != len")
    en = f.fn("encode::encode_numeric")
    if en:
        pin = en.params_of_type("&[u8]")
        for c in en.calls():
            if (c.name or "").startswith("core::panicking"):
                # dominated by the false edge of `len - len%3 == len`
                def ren(x):
                    if x[0] == "call" and x[1] == "len" and contains(x, ("param", pin[0])):
                        return "len"
                    return None
                ok = False
                for cd, pol, s in en.guards_of(c.block):
                    if cd[0] == "bin" and cd[1] in ("Ne", "Eq") and (cd[1] == "Ne") == pol:
                        a, b = poly.normalise(cd[2], ren), poly.normalise(cd[3], ren)
                        ln = A("len")
                        if {a, b} == {ln, ln - poly.op("Rem", ln, C(3))}:
                            ok = True
                sg = [(cd, how) for cd, how, s in en.switch_guards(c.block) if cd[0] == "bin" and cd[1] == "Rem" and K(cd[3]) == 3]
                ok = ok and any(how[0] == "other" and set(how[1]) == {1, 2} for cd, how in sg)
                ctx.check(rid, ok, en.path + "/unreachable-guard", c.where(), en.path, "unreachable!() arm",
                          "the unreachable!() arm is not confined to residue 0 after the early return for multiples of 3",
                          sample="unreachable arm only for i%3 == 0, excluded by the early return")
    return seen


# ---------------------------------------------------------------------------
# C07.R2 one long-division step
# ---------------------------------------------------------------------------

def c07_r2(ctx, f):
    rid = "C07.R2"
    ctx.rule(rid, "division: dividend placed at 256-len(f)-len(g); step rem[i+j] ^= exp[(g[j] + log(rem[i])) mod 255] for j < len(g), i over the dividend")
    fn = anchor_fn(ctx, rid, f, "polynomials::division", ["&[u8]", "&[u8]"], None) or f.fn("polynomials::division")
    if not fn:
        return
    loops = {}

    def ren(x):
        u = unname(x)
        if x[0] == "call" and x[1] == "len" and strip_refs(x[2][0]) == ("param", 1):
            return "f"
        if x[0] == "call" and x[1] == "len":
            inner = strip_refs(x[2][0])
            if inner[0] == "call" and inner[1] == "slice_index" and strip_refs(inner[2][0]) == ("param", 1):
                r_ = inner[2][1]
                if r_[0] == "agg" and (r_[2] or "").endswith("RangeFrom") and len(r_[4]) == 1:
                    k_ = poly.normalise(r_[4][0], ren)
                    return "f" if k_ == C(0) else ("f_tail", k_.key())
        if x[0] == "call" and x[1] == "len" and strip_refs(x[2][0]) == ("param", 2):
            return "g"
        if u[0] == "un" and u[1] == "PtrMetadata" and strip_refs(u[2]) == ("param", 2):
            return "g"
        if x[0] == "K" and isinstance(x[1], tuple) and len(x[1]) == 256:
            v = list(x[1])
            if v[:255] == ref.GF_EXP:
                return "EXP"
            if v[1:] == ref.GF_LOG[1:]:
                return "LOG"
            return "TABLE?"
        lp = loop_payload(fn, x)
        if lp is not None:
            loops[lp] = loop_kind2(fn, lp)
            return ("lv", lp)
        if u[0] == "phi" and fn.locals[u[1]]["ty"].startswith("[u8; "):
            return "rem"
        if u == ("param", 2):
            return "gen"
        if u == ("deref", ("param", 2)):
            return "gen"
        return None

    F_, G_ = A("f"), A("g")
    # the xor store
    store = None
    for b in fn.blocks:
        if b["cleanup"]:
            continue
        for si, st in enumerate(b["stmts"]):
            if st["k"] == "assign" and st["p"]["proj"] and st.get("pty") == "u8" and st["rv"]["k"] == "bin" and st["rv"]["op"] == "BitXor":
                store = (st, (b["id"], si))
    if not store:
        ctx.abstain(rid, "no `rem[..] ^= ..` store found in division", where_fn(fn))
        return
    def step():
        st, pt = store
        idxs = [e["idx"] for e in st["p"]["proj"] if isinstance(e, dict) and "idx" in e]
        if not idxs:
            ctx.abstain(rid, "the xor store does not index the buffer with a local (iterator form): the step's algebra is not read", fn.where(pt))
            return
        idx_local = idxs[0]
        tgt = poly.normalise(fn.canon_local(idx_local, pt), ren)
        e = fn.canon_rv(st["rv"], pt, 0, None)
        lvs = [a for a in tgt.atoms() if isinstance(a, tuple) and a[0] == "lv"]
        if len(lvs) != 2:
            ctx.abstain(rid, "xor target index is not a sum of two loop variables: %s" % tgt.show(), fn.where(pt))
            return
        his = {lv: loops.get(lv[1]) for lv in lvs}

        def bounds(k):
            if not k:
                return None
            if k[0] == "range0":
                return C(0), poly.normalise(k[1], ren)
            if k[0] == "range":
                return poly.normalise(k[1], ren), poly.normalise(k[2], ren)
            return None

        # inner loop = the one whose header is dominated by the other's header
        hb = {lv: def_of(fn, lv[1]).point[0] for lv in lvs}
        a_, b_ = lvs
        if fn.dominates(hb[a_], hb[b_]) and hb[a_] != hb[b_]:
            il, jl = [a_], [b_]
        elif fn.dominates(hb[b_], hb[a_]):
            il, jl = [b_], [a_]
        else:
            il, jl = [], []
        if len(jl) != 1 or len(il) != 1 or bounds(his[il[0]]) is None or bounds(his[jl[0]]) is None:
            ctx.abstain(rid, "loop structure of the division not recognised: %s" % str(his)[:200], fn.where(pt))
            return
        i, j = A(il[0]), A(jl[0])
        names = {il[0]: "i", jl[0]: "j"}
        ctx.check(rid, tgt == i + j, fn.path + "/target", fn.where(pt), fn.path, "xor target", "the step does not update rem[i + j]", expected="i + j",
                  found=tgt.show(names), sample="rem[i + j] ^= ..")
        jlo, jhi = bounds(his[jl[0]])
        ctx.check(rid, jlo == C(0) and jhi == G_, fn.path + "/j-range", fn.where(pt), fn.path, "inner loop",
                  "the inner loop does not run over all generator coefficients (0..len(g))",
                  expected="0 .. len(g)", found="%s .. %s" % (jlo.show(), jhi.show()), sample="j in 0..len(g)")
        ilo, ihi = bounds(his[il[0]])
        start = C(256) - F_ - G_
        unk_i = [a_ for p_ in (ilo, ihi) for a_ in p_.atoms() if a_ not in ("f", "g")]
        if unk_i and not (ilo == start and ihi == start + F_):
            ctx.abstain(rid, "outer loop bounds outside the vocabulary: %s .. %s (compared with the dividend's cells below)" % (ilo.show(), ihi.show()),
                        fn.where(pt))
        else:
          ctx.check(rid, ilo == start and ihi == start + F_, fn.path + "/i-range", fn.where(pt), fn.path, "outer loop",
                  "the outer loop does not run over the dividend positions start .. start+len(f), start = 256 - len(f) - len(g)",
                  expected="%s .. %s" % (start.show(), (start + F_).show()), found="%s .. %s" % (ilo.show(), ihi.show()), sample="i in start..start+len(f)")
        # right-hand side
        got = poly.normalise(e, ren)
        rem_ij = poly.index(A("rem"), i + j)
        alpha = poly.index(A("LOG"), poly.index(A("rem"), i))
        term = poly.index(A("EXP"), poly.op("Rem", poly.index(A("gen"), j) + alpha, C(255)))
        exp1 = poly.op("BitXor", rem_ij, term)
        exp2 = poly.op("BitXor", term, rem_ij)
        ctx.check(rid, got in (exp1, exp2), fn.path + "/step", fn.where(pt), fn.path, "xor value",
                  "the step is not rem[i+j] ^ EXP[(g[j] + LOG[rem[i]]) mod 255] with the value->exponent table inside and the exponent->value table outside",
                  expected="rem[i+j] ^ EXP[(gen[j] + LOG[rem[i]]) % 255]", found=_pretty(got, names), sample="rem[i+j] ^= EXP[(gen[j] + LOG[rem[i]]) % 255]")
        return ilo, ihi

    ilo = ihi = None
    _b = step()
    if _b:
        ilo, ihi = _b
    # dividend placement
    cs = [c for c in fn.calls() if (c.name or "").endswith("::copy_from_slice")]
    if len(cs) != 1:
        ctx.abstain(rid, "dividend is not placed by one copy_from_slice", where_fn(fn))
        return
    c = cs[0]

    def rng_of(orig):
        """(base canon, lo poly, hi poly | None = to the end) of a slice taken by index/index_mut with a range aggregate; None if whole"""
        if orig.kind != "call" or "index" not in (orig.callee() or ""):
            return None
        base = strip_refs(fn.canon(orig.info.call["args"][0], orig.point))
        r = fn.origins(orig.info.call["args"][1], orig.point, hide_weak=True)
        if len(r) != 1 or r[0].kind != "agg":
            return "?"
        rv = r[0].info.rv
        ops = [poly.normalise(fn.canon(o, r[0].point), ren) for o in rv["ops"]]
        nm = (rv.get("path") or "").split("::")[-1]
        if nm == "Range" and len(ops) == 2:
            return (base, ops[0], ops[1])
        if nm == "RangeTo" and len(ops) == 1:
            return (base, C(0), ops[0])
        if nm == "RangeFrom" and len(ops) == 1:
            return (base, ops[0], None)
        if nm == "RangeFull":
            return (base, C(0), None)
        return "?"

    d = fn.origins(c.args[0], c.point)
    s = fn.origins(c.args[1], c.point)
    found = None
    verdict = None
    if len(d) == 1 and len(s) == 1:
        dr = rng_of(d[0])
        # the source: a range of the dividend parameter, possibly re-sliced first (e.g. leading part dropped)
        src_lo, src_len = C(0), F_
        cur = s[0]
        depth = 0
        srcs_ok = True
        while cur.kind == "call" and "index" in (cur.callee() or "") and depth < 3:
            rr = rng_of(cur)
            if rr in (None, "?"):
                srcs_ok = False
                break
            base, lo, hi = rr
            # a slice [lo, hi) of something of length src_len starting at src_lo
            src_lo = src_lo + lo
            if hi is not None:
                src_len = hi - lo
            elif lo == C(0):
                pass
            elif src_len == F_ and strip_refs(base) == ("param", 1):
                src_len = A(("f_tail", lo.key()))
            else:
                src_len = src_len - lo
            nxt = fn.origins(cur.info.call["args"][0], cur.point, hide_weak=True)
            if len(nxt) != 1:
                srcs_ok = False
                break
            cur = nxt[0]
            depth += 1
        srcs_ok = srcs_ok and cur.kind == "param" and cur.info == 1
        if dr not in (None, "?") and dr[2] is not None and srcs_ok:
            dlo, dhi = dr[1], dr[2]
            found = "rem[%s..%s] = f[%s..+%s]" % (dlo.show(), dhi.show(), src_lo.show(), src_len.show())
            atoms_ok = all(only_known(p_, {"f", "g", 256}) or True for p_ in (dlo, dhi))
            unknown = [a_ for p_ in (dlo, dhi, src_lo, src_len) for a_ in p_.atoms() if a_ not in ("f", "g")]
            # the dividend actually copied has length src_len: it must end exactly where the remainder area begins (256 - g),
            # start len(copied) before that, be the whole dividend, and the outer loop must run over exactly those positions
            whole = src_lo == C(0) and src_len == F_
            ends = dhi == C(256) - G_
            fits = (dhi - dlo) == src_len
            loop = (ilo == dlo and ihi == dhi) if ilo is not None else None
            if loop is None:
                # the outer loop's range was not read: only a copy that visibly ends in the wrong place is decided
                verdict = False if (fits and not ends and not unknown) else None
            elif whole and ends and fits and loop:
                verdict = True
            elif ends and fits and loop and not whole:
                verdict = None  # a part of the dividend is left out and everything else is aligned: whether that part matters is not decided
            elif fits and not ends:
                verdict = False  # the copied cells do not end where the remainder area begins
            elif unknown:
                verdict = None  # written with something outside the vocabulary and not provably misaligned
            else:
                verdict = False
            _ = atoms_ok
    if verdict is None:
        ctx.abstain(rid, "dividend placement not in the recognised form: %s" % (found or "copy_from_slice operands are not ranges of the "
                                                                                 "buffer / the dividend"), c.where())
    else:
        ctx.check(rid, verdict, fn.path + "/placement", c.where(), fn.path, "dividend placement",
                  "the dividend is not copied whole to the cells that end where the remainder area begins (rem[256-len(f)-len(g) .. "
                  "256-len(g)]), or the division loop does not run over exactly those cells", expected="rem[256-f-g .. 256-g] = f[0..f]",
                  found=found, sample="rem[start..start+len(f)] = f")


def _pretty(p, names):
    s = p.show(names)
    return s if len(s) < 400 else s[:400] + "..."


# ---------------------------------------------------------------------------
# C11.R7 every candidate starts from the same placed codewords
# ---------------------------------------------------------------------------

def c11_r7(ctx, f):
    rid = "C11.R7"
    ctx.rule(rid, "every candidate is masked on a fresh, complete copy of the placed matrix (no state carried between candidates)")
    fn = anchor_fn(ctx, rid, f, "placement::place_on_matrix")
    if not fn:
        return
    mk = [c for c in fn.calls("datamasking::mask") if fn.in_loop(c.block)]
    pl = fn.calls("placement::place_on_matrix_data")
    if len(mk) != 1 or len(pl) != 1:
        ctx.abstain(rid, "mask selection is not a loop containing one datamasking::mask call: candidate freshness not recognised", where_fn(fn))
        return
    mk, pl = mk[0], pl[0]
    ctx.analysed(fn, 2)
    pts = fn.points_to()

    def pointee(op):
        if op["k"] not in ("copy", "move") or op["p"]["proj"]:
            return None
        tg = [o for o in pts.get(op["p"]["l"], ()) if o[0] == "local"]
        return tg[0][1] if len(tg) == 1 else None

    cand = pointee(mk.args[0])
    placed = pointee(pl.args[0])
    if cand is None or placed is None:
        ctx.abstain(rid, "cannot name the candidate / placed matrix locals", mk.where())
        return
    loop = set(fn.natural_loop(_loop_head_of(fn, mk.block)))
    rd = fn.reaching(cand, mk.point)
    fresh = [d for d in rd if d.strong and d.point[0] in loop]
    carried = [d for d in rd if not (d.strong and d.point[0] in loop)]

    def is_clone_of_placed(d):
        if d.kind == "calldest" and (d.call.get("callee") or "").endswith("::clone"):
            a = d.call["args"][0]
            return pointee(a) == placed
        if d.kind == "assign" and d.rv and d.rv["k"] == "use" and d.rv["op"]["k"] in ("copy", "move"):
            o = d.rv["op"]["p"]
            return o["l"] == placed and not o["proj"]
        return False

    if len(rd) == 1 and fresh and is_clone_of_placed(fresh[0]):
        ctx.ok(rid, "candidate `%s` = clone of placed matrix `%s`, re-created in every iteration" % (
            fn.local_name(cand), fn.local_name(placed)))
        return
    if len(rd) == 1 and fresh:
        ctx.check(rid, False, fn.path + "/candidate-source", fn.where(fresh[0].point), fn.path, "candidate matrix",
                  "the candidate masked in the loop is not a copy of the matrix the codewords were placed on",
                  found=str(fresh[0]))
        return
    # state reaches the mask call around the back edge: look for a complete reset inside the loop
    resets = []
    for d in rd:
        if d.kind in ("callmut", "store") and d.call is not None and d.point[0] in loop and d.point != mk.point:
            nm = d.call.get("callee") or d.call.get("declared") or ""
            resets.append((d, nm))
    verdict = None
    for d, nm in resets:
        if nm.endswith("::clone_from"):
            src = pointee(d.call["args"][1])
            verdict = ("ok", "clone_from") if src == placed else ("bad", "clone_from of another matrix")
        elif nm.endswith("copy_from_slice") or nm.endswith("clone_from_slice"):
            cs = [c for c in fn.calls() if c.point == d.point][0]
            e = strip_refs(fn.canon(cs.args[0], cs.point))
            rng = _dest_range(fn, cs)
            if rng is None:
                verdict = verdict or ("unknown", "copy_from_slice into an unrecognised destination %s" % expr_str(e, fn)[:80])
            elif rng == "full":
                verdict = ("ok", "whole backing array")
            else:
                lo, hi = rng
                size = A("size")
                need = size * size
                diff = (hi - need)
                if lo == C(0) and diff.is_const() and diff.const_value() >= 0:
                    verdict = ("ok", "0 .. %s" % hi.show())
                elif lo == C(0) and diff.is_const() and diff.const_value() < 0:
                    verdict = ("bad", "only modules 0 .. %s of size*size are reset" % hi.show())
                elif lo.is_const() and lo.const_value() > 0:
                    verdict = ("bad", "modules below %s are not reset" % lo.show())
                else:
                    verdict = verdict or ("unknown", "reset range %s .. %s" % (lo.show(), hi.show()))
    if verdict and verdict[0] == "ok":
        ctx.ok(rid, "candidate reset in every iteration by %s" % verdict[1])
    elif verdict and verdict[0] == "bad":
        ctx.check(rid, False, fn.path + "/candidate-reset", mk.where(), fn.path, "candidate matrix `%s`" % fn.local_name(cand),
                  "the candidate carries modules toggled for an earlier pattern into the next one: the eight candidates are not the "
                  "same placed codewords", found=verdict[1], expected="a complete copy of `%s` per candidate" % fn.local_name(placed))
    elif not resets:
        ctx.check(rid, False, fn.path + "/candidate-reset", mk.where(), fn.path, "candidate matrix `%s`" % fn.local_name(cand),
                  "the candidate is created outside the loop and never reset: each pattern is applied on top of the previous ones",
                  found=[str(d) for d in carried][:4])
    else:
        ctx.abstain(rid, "candidate state crosses iterations and its reset is not recognised: %s" % (verdict[1] if verdict else "?"), mk.where())


def _loop_head_of(fn, block):
    """header of the innermost natural loop containing block"""
    best = None
    for h in range(fn.n):
        if not fn.live[h]:
            continue
        lp = fn.natural_loop(h)
        if lp and block in lp and (best is None or len(lp) < len(fn.natural_loop(best))):
            best = h
    return best


def _dest_range(fn, cs):
    """destination of x.copy_from_slice(..): 'full' | (lo, hi) polynomials over `size` | None"""
    def ren(x):
        u = unname(x)
        if u[0] == "field" and "size" in repr(x):
            return "size"
        return None
    o = fn.origins(cs.args[0], cs.point, hide_weak=True)
    if len(o) != 1:
        return None
    if o[0].kind == "ref":
        return "full"
    if o[0].kind != "call":
        return None
    t = o[0].info.call
    nm = t.get("callee") or t.get("declared") or ""
    if "index_mut" not in nm and "index" not in nm:
        return None
    r = fn.origins(t["args"][1], o[0].point, hide_weak=True)
    if len(r) != 1:
        return None
    if r[0].kind == "const":
        return "full"  # RangeFull is a zero-sized constant
    if r[0].kind != "agg":
        return None
    rv = r[0].info.rv
    path = rv.get("path") or ""
    ops = [poly.normalise(fn.canon(x, r[0].point), ren) for x in rv["ops"]]
    if path.endswith("RangeFull"):
        return "full"
    if path.endswith("RangeTo") and len(ops) == 1:
        return (C(0), ops[0])
    if path.endswith("Range") and len(ops) == 2:
        return (ops[0], ops[1])
    if path.endswith("RangeFrom") and len(ops) == 1:
        return None
    return None
