"""Run the fqr-facts driver on /repo's working tree and load the JSON fact files.

Every call rebuilds the facts from the current working tree: the crate itself is
always compiled in a fresh target directory (cargo's freshness cache would skip
the wrapper), and the fact file must carry this run's nonce.
"""
import fcntl
import json
import os
import shutil
import subprocess
import sys
import tempfile
import time
import uuid

VERIF = os.path.dirname(os.path.dirname(os.path.abspath(__file__)))
REPO = os.environ.get("FQR_REPO", "/repo")
DRIVER = os.path.join(VERIF, "driver", "target", "release", "fqr-facts")
CACHE = os.path.join(VERIF, ".cache")

# name -> (cargo features, extra rustflags)
CONFIGS = {
    "default": ([], []),
    "svg": (["svg"], []),
    "image": (["image"], []),
    "wasm": (["svg"], ["--cfg", "fast_qr_verif"]),
    # release-like cfg: code under cfg(debug_assertions) disappears, overflow checks off
    "default-rel": ([], ["-C", "debug-assertions=off", "-C", "overflow-checks=off"]),
    "svg-rel": (["svg"], ["-C", "debug-assertions=off", "-C", "overflow-checks=off"]),
    "image-rel": (["image"], ["-C", "debug-assertions=off", "-C", "overflow-checks=off"]),
    "wasm-rel": (["svg"], ["--cfg", "fast_qr_verif", "-C", "debug-assertions=off", "-C", "overflow-checks=off"]),
}


class MachineryError(Exception):
    """The machinery itself failed (driver missing, crate does not compile, stale facts)."""


def nightly_sysroot():
    out = subprocess.run(["rustc", "+nightly", "--print", "sysroot"], capture_output=True, text=True)
    if out.returncode != 0:
        raise MachineryError("nightly toolchain not available: " + out.stderr)
    return out.stdout.strip()


_SYSROOT = None


def _env(extra_flags, out_path, nonce, config, target_dir, crate="fast_qr"):
    global _SYSROOT
    if _SYSROOT is None:
        _SYSROOT = nightly_sysroot()
    env = dict(os.environ)
    env["LD_LIBRARY_PATH"] = _SYSROOT + "/lib" + (":" + env["LD_LIBRARY_PATH"] if env.get("LD_LIBRARY_PATH") else "")
    env["RUSTFLAGS"] = " ".join(["-Zmir-opt-level=0", "-Awarnings"] + extra_flags)
    env["RUSTC_WORKSPACE_WRAPPER"] = DRIVER
    env["FQR_FACTS_OUT"] = out_path
    env["FQR_NONCE"] = nonce
    env["FQR_CONFIG"] = config
    env["FQR_CRATE"] = crate
    env["CARGO_TARGET_DIR"] = target_dir
    env["CARGO_NET_OFFLINE"] = "true"
    env.pop("RUSTC_WRAPPER", None)
    return env


def run_driver(config, repo=None, crate="fast_qr", manifest_dir=None):
    """Return the parsed fact file for `config`, freshly extracted."""
    repo = repo or REPO
    if not os.path.exists(DRIVER):
        raise MachineryError("driver not built: run MANIFEST.setup_cmd (./setup.sh)")
    feats, flags = CONFIGS[config]
    os.makedirs(CACHE, exist_ok=True)
    nonce = uuid.uuid4().hex
    run_dir = tempfile.mkdtemp(prefix="run-", dir=CACHE)
    out_path = os.path.join(run_dir, "facts.json")
    lock = None
    try:
        if "image" in feats and repo == REPO:
            # dependencies (resvg & co) are cached; the crate itself is always re-checked
            key = "tgt-" + config
            target_dir = os.path.join(CACHE, key)
            os.makedirs(target_dir, exist_ok=True)
            lock = open(os.path.join(CACHE, key + ".lock"), "w")
            fcntl.flock(lock, fcntl.LOCK_EX)
            fp = os.path.join(target_dir, "debug", ".fingerprint")
            if os.path.isdir(fp):
                for d in os.listdir(fp):
                    if d.startswith("fast_qr-") or d.startswith("fast-qr-"):
                        shutil.rmtree(os.path.join(fp, d), ignore_errors=True)
        else:
            target_dir = os.path.join(run_dir, "tgt")
        cmd = ["cargo", "+nightly", "check", "--offline", "--lib", "-q"]
        if feats:
            cmd += ["--features", ",".join(feats)]
        env = _env(flags, out_path, nonce, config, target_dir, crate)
        t0 = time.time()
        p = subprocess.run(cmd, cwd=manifest_dir or repo, env=env, capture_output=True, text=True)
        dt = time.time() - t0
        if p.returncode != 0:
            raise MachineryError(
                "cargo check failed for config %s (the tree does not compile?)\n%s" % (config, p.stderr[-4000:])
            )
        if not os.path.exists(out_path):
            raise MachineryError("driver produced no fact file for config %s (wrapper skipped?)\n%s" % (config, p.stderr[-2000:]))
        with open(out_path) as f:
            facts = json.load(f)
        if facts.get("meta", {}).get("nonce") != nonce:
            raise MachineryError("stale fact file for config %s" % config)
        facts["meta"]["extract_s"] = round(dt, 2)
        return facts
    finally:
        if lock is not None:
            fcntl.flock(lock, fcntl.LOCK_UN)
            lock.close()
        shutil.rmtree(run_dir, ignore_errors=True)


class Facts:
    """Indexed view over one configuration's fact file."""

    def __init__(self, raw):
        self.raw = raw
        self.meta = raw["meta"]
        self.config = raw["meta"]["config"]
        self.fns = {f["path"]: f for f in raw["fns"]}
        self.consts = {c["path"]: c for c in raw["consts"]}
        self.statics = raw["statics"]
        self.adts = {a["path"]: a for a in raw["adts"]}
        self.impls = raw["impls"]
        self.unsafe = raw["unsafe"]
        from . import cache as _cache
        _cache.facts_hash(self)  # content hash of this extraction (without the run's nonce), before any rule touches the data
        self.items = raw["items"]
        self._fn_objs = {}

    def fn(self, path):
        """Function object (mir.Function) by def path, or None."""
        from . import mir

        if path not in self.fns:
            return None
        if path not in self._fn_objs:
            self._fn_objs[path] = mir.Function(self.fns[path], self)
        return self._fn_objs[path]

    def all_fns(self):
        for p in self.fns:
            yield self.fn(p)

    def find_fns(self, pred):
        return [self.fn(p) for p, f in self.fns.items() if pred(f)]

    def const(self, path):
        c = self.consts.get(path)
        return None if c is None else c["val"]

    def enum_variants(self, path):
        a = self.adts.get(path)
        if a is None:
            return None
        return [(v["name"], v["discr"]) for v in a["variants"]]


_cache = {}


def get(config, repo=None):
    key = (config, repo or REPO)
    if key not in _cache:
        _cache[key] = Facts(run_driver(config, repo))
    return _cache[key]


def clear_cache():
    _cache.clear()


if __name__ == "__main__":
    f = get(sys.argv[1] if len(sys.argv) > 1 else "default")
    print(json.dumps(f.meta, indent=1))
    print(len(f.fns), "fns")
