"""Constant folding of finite-domain lookup functions and decision-tree extraction.

This evaluates *constants in the program text* (array literals, match arms,
shifts by literals) of loop-free lookup functions whose whole input domain is
finite and exhausted, or whose only unbounded input is compared against
literals (DESIGN.md 1.2, B9/B10).  A revisited block ends the path with 'loop';
anything not foldable becomes TOP and the caller fails closed.
"""
import copy

TOP = ("top",)
UNIT = ("tuple", ())

INT_BITS = {
    "u8": 8, "u16": 16, "u32": 32, "u64": 64, "u128": 128, "usize": 64,
    "i8": 8, "i16": 16, "i32": 32, "i64": 64, "i128": 128, "isize": 64,
}


def is_int_ty(t):
    return t in INT_BITS


def signed(t):
    return t.startswith("i")


def wrap(t, v):
    bits = INT_BITS[t]
    v &= (1 << bits) - 1
    if signed(t) and v >= 1 << (bits - 1):
        v -= 1 << bits
    return v


def fits(t, v):
    bits = INT_BITS[t]
    if signed(t):
        return -(1 << (bits - 1)) <= v < (1 << (bits - 1))
    return 0 <= v < (1 << bits)


def ty_range(t):
    bits = INT_BITS[t]
    if signed(t):
        return (-(1 << (bits - 1)), (1 << (bits - 1)) - 1)
    return (0, (1 << bits) - 1)


def mk_int(t, v):
    return ("int", t, v)


def mk_bool(b):
    return ("bool", bool(b))


def mk_enum(path, name):
    return ("enum", path, name)


ADTS = None  # set by peval.PEval: crate ADT table, so that struct constants decode field by field


def from_json(val, tyt):
    """typed conversion of a driver-decoded constant"""
    if val is None or tyt is None:
        return TOP
    k = tyt["k"]
    if k == "prim":
        n = tyt["name"]
        if n == "bool":
            return mk_bool(val)
        if n == "char":
            return ("char", val)
        if n in INT_BITS:
            return mk_int(n, val)
        if n in ("f64", "f32"):
            return ("float", float(val))
        if n == "str" and isinstance(val, dict) and "str" in val:
            return ("str", val["str"])
        return TOP
    if k == "adt":
        if isinstance(val, str):
            return mk_enum(tyt["path"], val)
        if isinstance(val, dict) and "enum" in val:
            return ("adt", tyt["path"], val.get("vi", 0), val["enum"],
                    tuple(from_json(fl.get("val"), fl.get("tyt")) for fl in val.get("fields", [])))
        if isinstance(val, dict) and "struct" in val and ADTS is not None:
            a = ADTS.get(tyt["path"])
            if a and a.get("kind") == "Struct" and len(a["variants"]) == 1 and not a.get("generic"):
                flds = a["variants"][0]["fields"]
                if len(flds) == len(val["struct"]):
                    return ("adt", tyt["path"], 0, a["variants"][0]["name"],
                            tuple(from_json(v, fl.get("tyt")) for v, fl in zip(val["struct"], flds)))
        if isinstance(val, dict) and "struct" in val and tyt["path"] in ("std::ops::Range", "std::ops::RangeInclusive", "std::ops::RangeFrom",
                                                                     "std::ops::RangeTo", "std::ops::RangeToInclusive") and tyt.get("args"):
            # the std range types: `start`/`end` of the index type (RangeInclusive has a third field `exhausted: bool`)
            et = tyt["args"][0]
            name = tyt["path"].rsplit("::", 1)[1]
            vs = val["struct"]
            flds = [from_json(v, et) for v in vs[:2]] + [from_json(v, {"k": "prim", "name": "bool"}) for v in vs[2:]]
            return ("adt", tyt["path"], 0, name, tuple(flds))
        return TOP
    if k in ("array", "slice"):
        if not isinstance(val, list):
            return TOP
        return ("array", tuple(from_json(v, tyt["inner"]) for v in val))
    if k == "tuple":
        if not isinstance(val, list) or len(val) != len(tyt["elems"]):
            return TOP
        return ("tuple", tuple(from_json(v, t) for v, t in zip(val, tyt["elems"])))
    if k == "ref":
        inner = tyt["inner"]
        if inner["k"] == "prim" and inner["name"] == "str":
            if isinstance(val, dict) and "str" in val:
                return ("ref", ("const", ("str", val["str"])))
            return TOP
        return ("ref", ("const", from_json(val, inner)))
    if k == "fnptr":
        if isinstance(val, str) and val.startswith("fn:"):
            return ("fn", val[3:])
        return TOP
    return TOP


class Result:
    def __init__(self, kind, value=None, trace=None, why=None, lo=None, hi=None, assumed=None):
        self.kind = kind  # 'ret' | 'diverge' | 'top' | 'loop'
        self.value = value
        self.trace = trace or []
        self.why = why
        self.lo = lo
        self.hi = hi
        self.assumed = assumed or []

    def __repr__(self):
        return "Result(%s %s%s)" % (self.kind, self.value if self.kind == "ret" else self.why,
                                    "" if self.lo is None else " [%s,%s]" % (self.lo, self.hi))


class _State:
    __slots__ = ("frames", "sym", "trace", "visited", "assumed", "snaps", "base")

    def __init__(self):
        self.frames = []  # list of [fn, locals dict, block, stmt idx, dest place of the caller, ret target]
        self.sym = None  # (ty, lo, hi)
        self.trace = []
        self.visited = set()
        self.assumed = []
        self.snaps = []  # (depth, frames copy, visited copy, call terminator) for calls with unknown arguments
        self.base = 0  # number of synthetic frames below the function under evaluation

    def copy_frames(self):
        return [[f[0], dict(f[1]), f[2], f[3], f[4], f[5]] for f in self.frames]

    def clone(self):
        s = _State()
        s.frames = self.copy_frames()
        s.sym = self.sym
        s.trace = list(self.trace)
        s.visited = set(self.visited)
        s.assumed = list(self.assumed)
        s.snaps = list(self.snaps)
        s.base = self.base
        return s


class _Fork(Exception):
    def __init__(self, splits):
        self.splits = splits  # list of (lo, hi)


class _Stop(Exception):
    def __init__(self, entry):
        self.entry = entry


class _Abort(Exception):
    def __init__(self, kind, why):
        self.kind = kind
        self.why = why


MODELLED = {}


def modelled(*names):
    def deco(f):
        for n in names:
            MODELLED[n] = f
            # def_path_str prints re-exported core items under std::
            if n.startswith("core::"):
                MODELLED["std::" + n[6:]] = f
            elif n.startswith("std::"):
                MODELLED["core::" + n[5:]] = f
        return f
    return deco


class Folder:
    def __init__(self, facts, max_depth=8, max_steps=400000, stop_at_loop=True):
        self.facts = facts
        self.max_depth = max_depth
        self.max_steps = max_steps
        self.stop = None
        self.stop_block = None

    # ------------------------------------------------------------ public API
    def run(self, fn_path, args, sym=None, cells=None, start=None, env=None, stop=None, stop_block=None):
        """Evaluate crate function `fn_path` on abstract `args`.
        sym=(ty, lo, hi): one argument may be ('sym',) and the result is a list of
        Results tiling [lo, hi]; otherwise a single Result.
        cells: list of values living in a synthetic caller frame; an argument
        ('cell', i) becomes a reference to cell i, and Result.cells holds their final values.
        start=(block, stmt), env={local: value}: evaluate a region of the body instead of
        the whole function (all other locals unknown).
        stop(trace_entry) -> bool: end the path at the first matching call (Result kind 'stop')."""
        fn = self.facts.fn(fn_path)
        if fn is None:
            r = Result("top", why="no such function " + fn_path)
            return [r] if sym else r
        st = _State()
        st.sym = sym
        self.stop = stop
        self.stop_block = stop_block
        if cells is not None:
            st.frames.append([None, {i: v for i, v in enumerate(cells)}, 0, 0, None, None])
            st.base = 1
            args = [("ref", ("place", 0, a[1], ())) if (a != TOP and a[0] == "cell") else a for a in args]
        try:
            self._push_frame(st, fn, args, None, None)
            if start is not None:
                fr = st.frames[-1]
                fr[1] = dict(env or {})
                fr[2], fr[3] = start
                st.visited = {(len(st.frames), fn.path, start[0])}
        except _Abort as a:
            r = Result(a.kind, why=a.why)
            return [r] if sym else r
        results = []
        work = [st]
        steps = 0
        while work:
            s = work.pop()
            r = None
            while r is None:
                try:
                    while True:
                        steps += 1
                        if steps > self.max_steps:
                            raise _Abort("top", "step budget exhausted")
                        done = self._step(s)
                        if done is not None:
                            r = Result("ret", value=done, trace=s.trace, assumed=s.assumed)
                            break
                except _Fork as f:
                    for lo, hi in f.splits:
                        c = s.clone()
                        c.sym = (s.sym[0], lo, hi)
                        work.append(c)
                    r = "forked"
                except _Stop as e:
                    r = Result("stop", value=e.entry, trace=s.trace, assumed=s.assumed)
                except _Abort as a:
                    if a.kind in ("top", "loop") and s.snaps and steps <= self.max_steps:
                        # the failure is inside a callee entered with unknown arguments:
                        # back out and treat that call as opaque
                        depth, frames, visited, t = s.snaps.pop()
                        s.frames = frames
                        s.visited = visited
                        s.snaps = [x for x in s.snaps if x[0] < depth]
                        self._opaque_call(s, t)
                        continue
                    r = Result(a.kind, trace=s.trace, why=a.why, assumed=s.assumed)
            if r == "forked":
                continue
            if s.sym:
                r.lo, r.hi = s.sym[1], s.sym[2]
            if cells is not None:
                r.cells = [s.frames[0][1].get(i, TOP) for i in range(len(cells))] if s.frames else None
            results.append(r)
        if sym:
            results.sort(key=lambda r: r.lo)
            return results
        return results[0]

    # ------------------------------------------------------------- machinery
    def _push_frame(self, st, fn, args, dest, target):
        if len(st.frames) >= self.max_depth:
            raise _Abort("top", "call depth")
        loc = {}
        for i, a in enumerate(args):
            loc[i + 1] = a
        st.frames.append([fn, loc, 0, 0, dest, target])
        self._enter_block(st, 0)

    def _enter_block(self, st, b):
        key = (len(st.frames), st.frames[-1][0].path, b)
        if key in st.visited:
            raise _Abort("loop", "block %d of %s revisited" % (b, st.frames[-1][0].path))
        st.visited.add(key)
        fr = st.frames[-1]
        fr[2] = b
        fr[3] = 0

    def _step(self, st):
        fr = st.frames[-1]
        fn, loc, b, i = fr[0], fr[1], fr[2], fr[3]
        blk = fn.blocks[b]
        if i < len(blk["stmts"]):
            s = blk["stmts"][i]
            if s["k"] == "assign":
                v = self._rvalue(st, s["rv"], s["p"])
                self._store(st, len(st.frames) - 1, s["p"], v)
            elif s["k"] == "setdiscr":
                self._store(st, len(st.frames) - 1, s["p"], TOP)
            fr[3] = i + 1
            return None
        t = blk["term"]
        k = t["k"]
        if self.stop_block is not None and len(st.frames) - st.base == 1 and b == self.stop_block and k == "switch":
            raise _Stop({"switch": self._operand(st, t["op"])})
        if k == "goto":
            self._enter_block(st, t["target"])
        elif k == "drop":
            self._enter_block(st, t["target"])
        elif k == "ret":
            val = loc.get(0, UNIT)
            st.frames.pop()
            st.snaps = [x for x in st.snaps if x[0] < len(st.frames) + 1]
            if len(st.frames) <= st.base:
                return val
            caller = st.frames[-1]
            dest, target = fr[4], fr[5]
            self._store(st, len(st.frames) - 1, dest, val)
            if target is None:
                raise _Abort("diverge", "call without return target")
            self._enter_block(st, target)
            _ = caller
        elif k == "unreachable":
            raise _Abort("diverge", "unreachable")
        elif k == "switch":
            v = self._operand(st, t["op"])
            self._switch(st, t, v)
        elif k == "assert":
            c = self._operand(st, t["cond"])
            if c[0] == "bool":
                if c[1] == t["expected"]:
                    self._enter_block(st, t["target"])
                else:
                    raise _Abort("diverge", "assert %s fails at %s:%s" % (t.get("kind"), t.get("file"), t.get("line")))
            else:
                st.assumed.append("assert %s at line %s" % (t.get("kind"), t.get("line")))
                self._enter_block(st, t["target"])
        elif k == "call":
            self._call(st, t)
        else:
            raise _Abort("top", "terminator " + k)
        return None

    def _switch(self, st, t, v):
        if v[0] == "sym":
            ty, lo, hi = st.sym
            arms = sorted(a[0] for a in t["arms"])
            inside = [a for a in arms if lo <= a <= hi]
            if lo == hi:
                for val, tgt in t["arms"]:
                    if val == lo:
                        self._enter_block(st, tgt)
                        return
                self._enter_block(st, t["otherwise"])
                return
            if not inside:
                self._enter_block(st, t["otherwise"])
                return
            splits = []
            cur = lo
            for a in inside:
                if cur <= a - 1:
                    splits.append((cur, a - 1))
                splits.append((a, a))
                cur = a + 1
            if cur <= hi:
                splits.append((cur, hi))
            raise _Fork(splits)
        iv = self._as_switch_int(v, t["ty"])
        if iv is None:
            raise _Abort("top", "switch on non-constant at %s:%s" % (t.get("file"), t.get("line")))
        for val, tgt in t["arms"]:
            if val == iv:
                self._enter_block(st, tgt)
                return
        self._enter_block(st, t["otherwise"])

    def _as_switch_int(self, v, ty):
        if v[0] == "bool":
            return 1 if v[1] else 0
        if v[0] == "char":
            return v[1]
        if v[0] == "int":
            val = v[2]
            t = v[1] or (ty if ty in INT_BITS else "u128")
            if val < 0:
                val &= (1 << INT_BITS[t]) - 1
            return val
        return None

    # ---------------------------------------------------------------- places
    def _load_local(self, st, fidx, l):
        return st.frames[fidx][1].get(l, TOP)

    def _load(self, st, fidx, p):
        v = self._load_local(st, fidx, p["l"])
        return self._project(st, fidx, v, p["proj"])

    def _project(self, st, fidx, v, proj):
        for e in proj:
            if v == TOP:
                return TOP
            if e == "deref":
                if v[0] != "ref":
                    return TOP
                v = self._load_ptr(st, v[1])
            elif isinstance(e, dict) and "f" in e:
                i = e["f"]
                if v[0] in ("tuple", "array"):
                    v = v[1][i] if i < len(v[1]) else TOP
                elif v[0] == "adt":
                    v = v[4][i] if i < len(v[4]) else TOP
                else:
                    return TOP
            elif isinstance(e, dict) and "idx" in e:
                iv = self._load_local(st, fidx, e["idx"])
                if iv[0] != "int" or v[0] != "array":
                    return TOP
                if not 0 <= iv[2] < len(v[1]):
                    raise _Abort("diverge", "index out of range")
                v = v[1][iv[2]]
            elif isinstance(e, dict) and "cidx" in e:
                if v[0] != "array":
                    return TOP
                k = e["cidx"]
                k = len(v[1]) - k if e["fe"] else k
                if not 0 <= k < len(v[1]):
                    return TOP
                v = v[1][k]
            elif isinstance(e, dict) and "dc" in e:
                if v[0] == "adt" and v[2] == e["vi"]:
                    pass
                else:
                    return TOP
            else:
                return TOP
        return v

    def _load_ptr(self, st, ptr):
        if ptr[0] == "const":
            return ptr[1]
        if ptr[0] == "place":
            _, fidx, l, proj = ptr
            v = self._load_local(st, fidx, l)
            return self._project(st, fidx, v, proj)
        return TOP

    def _store(self, st, fidx, p, val):
        if p is None:
            return
        l = p["l"]
        proj = list(p["proj"])
        if not proj:
            st.frames[fidx][1][l] = val
            return
        # resolve derefs to a (frame, local, proj) target
        cur_f, cur_l, cur_proj = fidx, l, []
        for e in proj:
            if e == "deref":
                base = self._project(st, cur_f, self._load_local(st, cur_f, cur_l), cur_proj)
                if base == TOP or base[0] != "ref" or base[1][0] != "place":
                    return  # unknown target: nothing we track can be named; caller values stay (sound only for folding of by-value functions)
                _, cur_f, cur_l, pp = base[1]
                cur_proj = list(pp)
            else:
                cur_proj.append(e)
        old = self._load_local(st, cur_f, cur_l)
        st.frames[cur_f][1][cur_l] = self._update(st, cur_f, old, cur_proj, val)

    def _update(self, st, fidx, old, proj, val):
        if not proj:
            return val
        e = proj[0]
        if old == TOP:
            return TOP
        if isinstance(e, dict) and "f" in e:
            i = e["f"]
            if old[0] in ("tuple", "array"):
                items = list(old[1])
                if i >= len(items):
                    return TOP
                items[i] = self._update(st, fidx, items[i], proj[1:], val)
                return (old[0], tuple(items))
            if old[0] == "adt":
                items = list(old[4])
                if i >= len(items):
                    return TOP
                items[i] = self._update(st, fidx, items[i], proj[1:], val)
                return old[:4] + (tuple(items),)
            return TOP
        if isinstance(e, dict) and "idx" in e:
            iv = self._load_local(st, fidx, e["idx"])
            if iv[0] != "int" or old[0] != "array" or not 0 <= iv[2] < len(old[1]):
                return TOP
            items = list(old[1])
            items[iv[2]] = self._update(st, fidx, items[iv[2]], proj[1:], val)
            return ("array", tuple(items))
        if isinstance(e, dict) and "dc" in e:
            return self._update(st, fidx, old, proj[1:], val)
        return TOP

    # --------------------------------------------------------------- operands
    def _operand(self, st, op):
        k = op["k"]
        if k in ("copy", "move"):
            return self._load(st, len(st.frames) - 1, op["p"])
        if k == "const":
            if op.get("fn"):
                return ("fn", op["fn"])
            return from_json(op.get("val"), op.get("tyt"))
        return TOP

    def _discr_of(self, v):
        if v[0] == "enum":
            vs = self.facts.enum_variants(v[1])
            if vs is None:
                return None
            for name, d in vs:
                if name == v[2]:
                    return d
            return None
        if v[0] == "adt":
            if v[2] is None or v[2] < 0:
                return None
            vs = self.facts.enum_variants(v[1])
            if vs is not None:
                return vs[v[2]][1] if v[2] < len(vs) else None
            return v[2]
        return None

    def _rvalue(self, st, rv, dest):
        k = rv["k"]
        fidx = len(st.frames) - 1
        fn = st.frames[-1][0]
        if k == "use":
            return self._operand(st, rv["op"])
        if k == "copyforderef":
            return self._load(st, fidx, rv["p"])
        if k == "ref" or k == "rawptr":
            p = rv["p"]
            if p["proj"] and p["proj"][0] == "deref":
                base = self._load_local(st, fidx, p["l"])
                rest = p["proj"][1:]
                if base == TOP or base[0] != "ref":
                    return TOP
                if base[1][0] == "place":
                    _, f2, l2, pp = base[1]
                    if any(e == "deref" for e in rest):
                        return TOP
                    # index projections refer to locals of *this* frame: resolve now
                    res = []
                    for e in rest:
                        if isinstance(e, dict) and "idx" in e:
                            iv = self._load_local(st, fidx, e["idx"])
                            if iv[0] != "int":
                                return TOP
                            res.append({"cidx": iv[2], "fe": False, "min": 0})
                        else:
                            res.append(e)
                    return ("ref", ("place", f2, l2, tuple(pp) + tuple(res)))
                if base[1][0] == "const":
                    v = self._project(st, fidx, base[1][1], rest)
                    return ("ref", ("const", v))
                return TOP
            if any(e == "deref" for e in p["proj"]):
                return TOP
            res = []
            for e in p["proj"]:
                if isinstance(e, dict) and "idx" in e:
                    iv = self._load_local(st, fidx, e["idx"])
                    if iv[0] != "int":
                        return TOP
                    res.append({"cidx": iv[2], "fe": False, "min": 0})
                else:
                    res.append(e)
            return ("ref", ("place", fidx, p["l"], tuple(res)))
        if k == "discr":
            v = self._load(st, fidx, rv["p"])
            d = self._discr_of(v) if v != TOP else None
            if d is None:
                return TOP
            dty = fn.locals[dest["l"]]["ty"] if not dest["proj"] else "isize"
            if dty not in INT_BITS:
                dty = "isize"
            return mk_int(dty, wrap(dty, d))
        if k == "cast":
            v = self._operand(st, rv["op"])
            kind = rv["kind"]
            ty = rv["ty"]
            if v == TOP:
                return TOP
            if kind.startswith("PointerCoercion"):
                return v
            if kind == "IntToInt":
                if v[0] == "sym":
                    sty, lo, hi = st.sym
                    if ty in INT_BITS and fits(ty, lo) and fits(ty, hi):
                        return v
                    if ty in INT_BITS and fits(ty, lo) and lo >= 0:
                        # the interval straddles the target type's maximum: the part that fits goes on, the rest is refused
                        tmax = ty_range(ty)[1]
                        raise _Fork([(lo, tmax), (tmax + 1, hi)])
                    # every value of the interval is truncated: the narrowed copy is unknown (a use of it stops the evaluation,
                    # an unused narrowed copy is harmless)
                    return TOP
                if ty not in INT_BITS:
                    if ty == "char" and v[0] == "int":
                        return ("char", v[2])
                    return TOP
                if v[0] == "int":
                    return mk_int(ty, wrap(ty, v[2]))
                if v[0] == "bool":
                    return mk_int(ty, 1 if v[1] else 0)
                if v[0] == "char":
                    return mk_int(ty, wrap(ty, v[1]))
                if v[0] == "enum":
                    d = self._discr_of(v)
                    return TOP if d is None else mk_int(ty, wrap(ty, d))
                return TOP
            if kind == "IntToFloat" and v[0] == "int":
                return ("float", float(v[2]))
            if kind == "FloatToFloat" and v[0] == "float":
                return v
            if kind == "FloatToInt" and v[0] == "float" and ty in INT_BITS:
                lo, hi = ty_range(ty)
                f = v[1]
                if f != f:
                    return mk_int(ty, 0)
                if f in (float("inf"), float("-inf")):
                    return mk_int(ty, hi if f > 0 else lo)  # `as` saturates
                return mk_int(ty, max(lo, min(hi, int(f))))
            return TOP
        if k == "bin":
            a = self._operand(st, rv["a"])
            b = self._operand(st, rv["b"])
            return self._binop(st, rv["op"], a, b)
        if k == "un":
            a = self._operand(st, rv["a"])
            op = rv["op"]
            if a == TOP:
                return TOP
            if a[0] == "sym":
                raise _Abort("top", "symbolic parameter used in arithmetic (%s)" % op)
            if op == "Not":
                if a[0] == "bool":
                    return mk_bool(not a[1])
                if a[0] == "int" and a[1]:
                    return mk_int(a[1], wrap(a[1], ~a[2]))
                return TOP
            if op == "Neg":
                if a[0] == "int" and a[1]:
                    return mk_int(a[1], wrap(a[1], -a[2]))
                if a[0] == "float":
                    return ("float", -a[1])
                return TOP
            if op == "PtrMetadata":
                if a[0] == "ref":
                    tgt = self._load_ptr(st, a[1])
                    if tgt != TOP and tgt[0] == "array":
                        return mk_int("usize", len(tgt[1]))
                    if tgt != TOP and tgt[0] == "str":
                        return mk_int("usize", len(tgt[1].encode()))
                return TOP
            return TOP
        if k == "agg":
            ops = tuple(self._operand(st, o) for o in rv["ops"])
            agg = rv["agg"]
            if agg == "tuple":
                return ("tuple", ops)
            if agg == "array":
                return ("array", ops)
            if agg == "adt":
                if not ops and self.facts.enum_variants(rv["path"]) is not None and all(
                        not v["fields"] for v in self.facts.adts[rv["path"]]["variants"]):
                    return mk_enum(rv["path"], rv["variant"])
                return ("adt", rv["path"], rv["vi"], rv["variant"], ops)
            return TOP
        if k == "repeat":
            n = rv.get("len")
            if n is None or n > 8192:
                return TOP
            v = self._operand(st, rv["op"])
            return ("array", (v,) * n)
        return TOP

    def _binop(self, st, op, a, b):
        if a[0] == "sym" or b[0] == "sym":
            return self._sym_cmp(st, op, a, b)
        if a == TOP or b == TOP:
            return TOP
        ovf = op.endswith("WithOverflow")
        base = op[: -len("WithOverflow")] if ovf else op
        if base.endswith("Unchecked"):
            base = base[: -len("Unchecked")]
        if a[0] == "float" and b[0] == "float":
            x, y = a[1], b[1]
            if base == "Add": return ("float", x + y)
            if base == "Sub": return ("float", x - y)
            if base == "Mul": return ("float", x * y)
            if base == "Div":
                if y != 0:
                    return ("float", x / y)
                import math
                return ("float", float("nan") if x == 0 or x != x else math.copysign(float("inf"), x) * math.copysign(1.0, y))
            if base == "Rem":
                import math
                if y == 0 or x != x or y != y or math.isinf(x):
                    return ("float", float("nan"))  # IEEE 754: the remainder of an infinite or NaN dividend, or by zero, is NaN
                if math.isinf(y):
                    return ("float", x)
                return ("float", math.fmod(x, y))
            if base in ("Eq", "Ne", "Lt", "Le", "Gt", "Ge"):
                return mk_bool({"Eq": x == y, "Ne": x != y, "Lt": x < y, "Le": x <= y, "Gt": x > y, "Ge": x >= y}[base])
            return TOP
        if a[0] in ("bool", "char") and b[0] == a[0]:
            x, y = a[1], b[1]
            if base in ("Eq", "Ne", "Lt", "Le", "Gt", "Ge"):
                return mk_bool({"Eq": x == y, "Ne": x != y, "Lt": x < y, "Le": x <= y, "Gt": x > y, "Ge": x >= y}[base])
            if a[0] == "bool" and base in ("BitAnd", "BitOr", "BitXor"):
                return mk_bool({"BitAnd": x and y, "BitOr": x or y, "BitXor": x != y}[base])
            return TOP
        if a[0] != "int" or b[0] != "int":
            return TOP
        t = a[1] or b[1]
        x, y = a[2], b[2]
        if base in ("Eq", "Ne", "Lt", "Le", "Gt", "Ge"):
            return mk_bool({"Eq": x == y, "Ne": x != y, "Lt": x < y, "Le": x <= y, "Gt": x > y, "Ge": x >= y}[base])
        if t is None:
            return TOP
        if base in ("Shl", "Shr"):
            t = a[1]
            if t is None:
                return TOP
            bits = INT_BITS[t]
            sh = y % bits if y >= 0 else (y % bits)
            r = (x << sh) if base == "Shl" else (x >> sh)
            return mk_int(t, wrap(t, r))
        if base == "Add": r = x + y
        elif base == "Sub": r = x - y
        elif base == "Mul": r = x * y
        elif base == "Div":
            if y == 0: raise _Abort("diverge", "division by zero")
            r = abs(x) // abs(y) * (1 if (x >= 0) == (y >= 0) else -1)
        elif base == "Rem":
            if y == 0: raise _Abort("diverge", "remainder by zero")
            r = abs(x) % abs(y) * (1 if x >= 0 else -1)
        elif base == "BitAnd": r = x & y
        elif base == "BitOr": r = x | y
        elif base == "BitXor": r = x ^ y
        else:
            return TOP
        if ovf:
            return ("tuple", (mk_int(t, wrap(t, r)), mk_bool(not fits(t, r))))
        return mk_int(t, wrap(t, r))

    def _sym_cmp(self, st, op, a, b):
        """comparison of the symbolic parameter with a constant: decide by interval or fork"""
        if op not in ("Eq", "Ne", "Lt", "Le", "Gt", "Ge"):
            raise _Abort("top", "symbolic parameter used in arithmetic (%s)" % op)
        ty, lo, hi = st.sym
        if a[0] == "sym" and b[0] == "sym":
            return mk_bool(op in ("Eq", "Le", "Ge"))
        flip = {"Lt": "Gt", "Le": "Ge", "Gt": "Lt", "Ge": "Le", "Eq": "Eq", "Ne": "Ne"}
        if b[0] == "sym":
            a, b, op = b, a, flip[op]
        if b == TOP or b[0] != "int":
            raise _Abort("top", "symbolic parameter compared with a non-constant")
        k = b[2]
        # sym op k ; true set as interval(s)
        if op == "Lt":
            tl, th = lo, min(hi, k - 1)
        elif op == "Le":
            tl, th = lo, min(hi, k)
        elif op == "Gt":
            tl, th = max(lo, k + 1), hi
        elif op == "Ge":
            tl, th = max(lo, k), hi
        elif op in ("Eq", "Ne"):
            tl, th = max(lo, k), min(hi, k)
        true_empty = tl > th
        true_all = (tl == lo and th == hi)
        if op == "Ne":
            if true_empty:
                return mk_bool(True)
            if true_all:
                return mk_bool(False)
        else:
            if true_empty:
                return mk_bool(False)
            if true_all:
                return mk_bool(True)
        splits = []
        if tl > lo:
            splits.append((lo, tl - 1))
        splits.append((tl, th))
        if th < hi:
            splits.append((th + 1, hi))
        raise _Fork(splits)

    # ------------------------------------------------------------------ calls
    def _call(self, st, t):
        name = t.get("callee") or t.get("declared")
        if name is None and t.get("indirect"):
            fv = self._operand(st, t["indirect"])
            if fv != TOP and fv[0] == "fn":
                name = fv[1]  # call through a function pointer whose value folded to a crate function
        args = [self._operand(st, a) for a in t["args"]]
        dargs = [self._load_ptr(st, a[1]) if (a != TOP and a[0] == "ref") else a for a in args]
        entry = {"callee": name, "args": args, "dargs": dargs, "line": t.get("line"), "file": t.get("file"),
                 "depth": len(st.frames) - st.base, "in": st.frames[-1][0].path}
        st.trace.append(entry)
        if self.stop is not None and self.stop(entry):
            raise _Stop(entry)
        fidx = len(st.frames) - 1
        if t.get("target") is None:
            raise _Abort("diverge", "diverging call to %s at %s:%s" % (name, t.get("file"), t.get("line")))
        if name in MODELLED:
            v = MODELLED[name](self, st, args, t)
            self._store(st, fidx, t["dest"], v)
            self._enter_block(st, t["target"])
            return
        if name == "<T as std::convert::Into<U>>::into" and len(t.get("generics") or []) == 2:
            # blanket impl: forwards to the crate's From impl, if there is one
            src, dst = t["generics"]
            cands = [p for p, r in self.facts.fns.items() if r.get("name") == "from" and r.get("inputs") == [src]
                     and r.get("output") == dst]
            if len(cands) == 1:
                name = cands[0]
        callee = self.facts.fn(name) if name else None
        if callee is not None and callee.raw["kind"] != "Closure":
            if any(_has_top(a) for a in args):
                st.snaps.append((len(st.frames), st.copy_frames(), set(st.visited), t))
            self._push_frame(st, callee, args, t["dest"], t["target"])
            return
        self._opaque_call(st, t, args)

    def _opaque_call(self, st, t, args=None):
        """unknown callee: result unknown, pointees of mutable reference arguments unknown"""
        fidx = len(st.frames) - 1
        if args is None:
            args = [self._operand(st, a) for a in t["args"]]
        for a, ao in zip(args, t["args"]):
            if a != TOP and a[0] == "ref" and a[1][0] == "place":
                _, f2, l2, pp = a[1]
                caller_fn = st.frames[fidx][0]
                if ao["k"] in ("copy", "move") and not ao["p"]["proj"]:
                    ty = caller_fn.locals[ao["p"]["l"]]["tyt"]
                    if ty["k"] == "ref" and not ty["mut"]:
                        continue
                old = self._load_local(st, f2, l2)
                st.frames[f2][1][l2] = self._update(st, f2, old, list(pp), TOP)
        self._store(st, fidx, t["dest"], TOP)
        if t.get("target") is None:
            raise _Abort("diverge", "diverging call")
        self._enter_block(st, t["target"])


def _has_top(v):
    if v == TOP:
        return True
    if v[0] in ("tuple", "array"):
        return any(_has_top(x) for x in v[1])
    if v[0] == "adt":
        return any(_has_top(x) for x in v[4])
    if v[0] == "ref":
        if v[1][0] == "const":
            return _has_top(v[1][1])
        return True  # pointer into a caller frame: content may be unknown
    return False


# ----------------------------------------------------------------------------
# modelled core functions (documented semantics)
# ----------------------------------------------------------------------------

def _deref(folder, st, v):
    if v != TOP and v[0] == "ref":
        return folder._load_ptr(st, v[1])
    return v


@modelled("core::num::<impl u8>::is_ascii_digit")
def _is_ascii_digit(folder, st, args, t):
    v = _deref(folder, st, args[0])
    if v != TOP and v[0] == "int":
        return mk_bool(0x30 <= v[2] <= 0x39)
    return TOP


@modelled("std::cmp::min", "core::cmp::min", "std::cmp::Ord::min")
def _min(folder, st, args, t):
    a, b = args
    if a != TOP and b != TOP and a[0] == "int" and b[0] == "int":
        return a if a[2] <= b[2] else b
    return TOP


@modelled("std::cmp::max", "core::cmp::max", "std::cmp::Ord::max")
def _max(folder, st, args, t):
    a, b = args
    if a != TOP and b != TOP and a[0] == "int" and b[0] == "int":
        return b if b[2] >= a[2] else a
    return TOP


@modelled("std::convert::num::<impl std::convert::From<bool> for usize>::from",
          "std::convert::num::<impl std::convert::From<bool> for u8>::from",
          "std::convert::num::<impl std::convert::From<bool> for u16>::from",
          "std::convert::num::<impl std::convert::From<bool> for u32>::from")
def _from_bool(folder, st, args, t):
    a = args[0]
    ty = t.get("dest_ty")
    if a != TOP and a[0] == "bool" and ty in INT_BITS:
        return mk_int(ty, 1 if a[1] else 0)
    return TOP


@modelled("std::convert::num::<impl std::convert::From<u8> for u16>::from",
          "std::convert::num::<impl std::convert::From<u8> for u32>::from",
          "std::convert::num::<impl std::convert::From<u8> for usize>::from",
          "std::convert::num::<impl std::convert::From<u16> for u32>::from",
          "std::convert::num::<impl std::convert::From<u16> for usize>::from",
          "std::convert::num::<impl std::convert::From<u32> for u64>::from")
def _from_int(folder, st, args, t):
    a = args[0]
    ty = t.get("dest_ty")
    if a != TOP and a[0] == "int" and ty in INT_BITS:
        return mk_int(ty, a[2])
    return TOP


@modelled("std::intrinsics::discriminant_value", "core::intrinsics::discriminant_value")
def _discriminant_value(folder, st, args, t):
    v = _deref(folder, st, args[0])
    if v == TOP:
        return TOP
    d = folder._discr_of(v)
    if d is None:
        return TOP
    ty = t.get("dest_ty")
    if ty not in INT_BITS:
        ty = "isize"
    return mk_int(ty, wrap(ty, d))


@modelled("std::f64::<impl f64>::round", "core::f64::<impl f64>::round")
def _round(folder, st, args, t):
    import math
    a = args[0]
    if a != TOP and a[0] == "float":
        x = a[1]
        return ("float", float(math.floor(x + 0.5)) if x >= 0 else float(-math.floor(-x + 0.5)))
    return TOP


@modelled("std::option::Option::<T>::is_none")
def _is_none(folder, st, args, t):
    v = _deref(folder, st, args[0])
    if v != TOP and v[0] == "adt":
        return mk_bool(v[3] == "None")
    return TOP


@modelled("std::option::Option::<T>::is_some")
def _is_some(folder, st, args, t):
    v = _deref(folder, st, args[0])
    if v != TOP and v[0] == "adt":
        return mk_bool(v[3] == "Some")
    return TOP


def _u8_or_char(folder, st, v):
    v = _deref(folder, st, v)
    if v != TOP and v[0] == "int":
        return v[2]
    if v != TOP and v[0] == "char":
        return v[1]
    return None


def _char_pred(name, fn):
    @modelled(*name)
    def f(folder, st, args, t):
        c = _u8_or_char(folder, st, args[0])
        return TOP if c is None else mk_bool(fn(c))
    return f


import unicodedata as _ud  # noqa: E402

_char_pred(("core::num::<impl u8>::is_ascii_alphanumeric", "core::char::methods::<impl char>::is_ascii_alphanumeric"),
           lambda c: c < 128 and chr(c).isalnum())
_char_pred(("core::num::<impl u8>::is_ascii_uppercase", "core::char::methods::<impl char>::is_ascii_uppercase"), lambda c: 65 <= c <= 90)
_char_pred(("core::num::<impl u8>::is_ascii_lowercase", "core::char::methods::<impl char>::is_ascii_lowercase"), lambda c: 97 <= c <= 122)
_char_pred(("core::num::<impl u8>::is_ascii_alphabetic", "core::char::methods::<impl char>::is_ascii_alphabetic"),
           lambda c: 65 <= c <= 90 or 97 <= c <= 122)
_char_pred(("core::num::<impl u8>::is_ascii", "core::char::methods::<impl char>::is_ascii"), lambda c: c < 128)
_char_pred(("core::char::methods::<impl char>::is_ascii_digit",), lambda c: 48 <= c <= 57)
_char_pred(("core::char::methods::<impl char>::is_numeric",), lambda c: _ud.category(chr(c)) in ("Nd", "Nl", "No"))
_char_pred(("core::char::methods::<impl char>::is_alphanumeric",), lambda c: _ud.category(chr(c)) in ("Nd", "Nl", "No") or chr(c).isalpha())
_char_pred(("core::char::methods::<impl char>::is_alphabetic",), lambda c: chr(c).isalpha())


@modelled("core::char::convert::<impl std::convert::From<u8> for char>::from")
def _char_from_u8(folder, st, args, t):
    a = args[0]
    if a != TOP and a[0] == "int":
        return ("char", a[2])
    return TOP


@modelled("core::char::methods::<impl char>::is_digit")
def _is_digit_radix(folder, st, args, t):
    c = _u8_or_char(folder, st, args[0])
    r = args[1]
    if c is None or r == TOP or r[0] != "int":
        return TOP
    try:
        int(chr(c), r[2])
        return mk_bool(chr(c).isalnum() and c < 128)
    except ValueError:
        return mk_bool(False)


def to_py(v):
    """abstract value -> plain python (ints, bools, lists, variant names)"""
    if v == TOP:
        return None
    k = v[0]
    if k == "int":
        return v[2]
    if k in ("bool", "char", "float", "str"):
        return v[1]
    if k == "enum":
        return v[2]
    if k in ("tuple", "array"):
        return [to_py(x) for x in v[1]]
    if k == "adt":
        return {"variant": v[3], "fields": [to_py(x) for x in v[4]]}
    if k == "ref":
        if v[1][0] == "const":
            return to_py(v[1][1])
        return None
    if k == "fn":
        return "fn:" + v[1]
    return None
