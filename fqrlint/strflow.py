"""Recognition of string-building idioms in MIR: format!(), literals, pushes."""
from .mir import decode_template

ARG_NEW = "std::fmt::Arguments::<'a>::new"
FMT_FORMAT = "std::fmt::format"
PEEL = {
    "std::hint::must_use",
    "<std::string::String as std::ops::Deref>::deref",
    "std::string::String::as_str",
    "core::str::<impl str>::as_ref",
    "<std::string::String as std::convert::AsRef<str>>::as_ref",
    "<std::string::String as std::borrow::Borrow<str>>::borrow",
}


class FormatSite:
    def __init__(self, fn, new_call, pieces, args):
        self.fn = fn
        self.new_call = new_call  # CallSite of Arguments::new
        self.pieces = pieces
        self.args = args  # list of dict(kind, operand, point, call)

    def literal_text(self):
        return "".join(p[1] for p in self.pieces if p[0] == "lit")

    def skeleton(self):
        return "".join(p[1] if p[0] == "lit" else "{%d}" % p[1] for p in self.pieces)


def format_site_of_new(fn, c):
    """c: CallSite of Arguments::new -> FormatSite | None"""
    if len(c.args) != 2:
        return None
    t = fn.origins(c.args[0], c.point)
    if len(t) != 1 or t[0].kind != "const" or not isinstance(t[0].info.get("val"), list):
        return None
    pieces = decode_template(t[0].info["val"])
    arr = fn.origins(c.args[1], c.point)
    args = []
    if len(arr) == 1 and arr[0].kind == "ref":
        l = arr[0].info.rv["p"]["l"]
        d = fn.single_def(l, arr[0].point)
        if d is not None and d.rv is not None and d.rv["k"] == "agg" and d.rv["agg"] == "array":
            for o in d.rv["ops"]:
                og = fn.origins(o, d.point)
                if len(og) == 1 and og[0].kind == "call":
                    call = og[0].info.call
                    name = call.get("callee") or call.get("declared") or ""
                    kind = name.split("::")[-1]  # new_display, new_lower_hex, ...
                    args.append(dict(kind=kind, operand=call["args"][0], point=og[0].point, call=call))
                else:
                    args.append(dict(kind="?", operand=o, point=d.point, call=None))
    return FormatSite(fn, c, pieces, args)


def format_sites(fn):
    out = []
    for c in fn.calls(ARG_NEW):
        fs = format_site_of_new(fn, c)
        if fs is not None:
            out.append(fs)
    return out


def string_source(fn, op, point, depth=0):
    """classify what a &str / String operand is.  returns dict(kind=lit|fmt|call|indirect|param|field|other, ...)"""
    if depth > 12:
        return dict(kind="other", why="deep")
    orgs = fn.origins(op, point, hide_weak=True)
    if len(orgs) != 1:
        return dict(kind="multi", origins=orgs)
    o = orgs[0]
    if o.kind == "const":
        v = o.info.get("val")
        if isinstance(v, dict) and "str" in v:
            return dict(kind="lit", text=v["str"], point=o.point)
        return dict(kind="const", value=v, point=o.point)
    if o.kind == "ref":
        # reference to a local: classify the local's value
        l = o.info.rv["p"]["l"]
        if not o.info.rv["p"]["proj"]:
            return string_source(fn, {"k": "copy", "p": {"l": l, "proj": []}}, o.point, depth + 1)
        return dict(kind="place", place=o.info.rv["p"], point=o.point, origin=o)
    if o.kind == "call":
        t = o.info.call
        name = t.get("callee") or t.get("declared")
        if name in PEEL:
            return string_source(fn, t["args"][0], o.point, depth + 1)
        if name == FMT_FORMAT:
            a = fn.origins(t["args"][0], o.point)
            if len(a) == 1 and a[0].kind == "call" and a[0].callee() == ARG_NEW:
                from .mir import CallSite
                cs = [c for c in fn.calls(ARG_NEW) if c.point == a[0].point]
                if cs:
                    fs = format_site_of_new(fn, cs[0])
                    if fs:
                        return dict(kind="fmt", site=fs, point=o.point)
            return dict(kind="other", why="format of unknown arguments")
        if name is None and t.get("indirect"):
            return dict(kind="indirect", call=t, point=o.point)
        return dict(kind="call", callee=name, call=t, point=o.point, proj=o.proj)
    if o.kind == "param":
        return dict(kind="param", local=o.info, proj=o.proj)
    return dict(kind="other", origin=o)


def pushes(fn):
    """all String::push_str / String::push calls: (CallSite, target origins, source classification)"""
    out = []
    for c in fn.calls("std::string::String::push_str", "std::string::String::push"):
        tgt = fn.origins(c.args[0], c.point, hide_weak=True)
        out.append((c, tgt, string_source(fn, c.args[1], c.point)))
    return out
