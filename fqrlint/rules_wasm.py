"""C17: the wasm entry points and option layer, analysed as host MIR under --cfg fast_qr_verif."""
from .mir import subexprs, expr_str, unname
from .rules_tables import anchor_fn, where_fn
from .rules_flow import contains, ret_points, strip_refs, def_of, call_name_of_def
from . import poly

W = "wasm_host::"
OPTS = "wasm_host::SvgOptions"
SVGB = "convert::svg::SvgBuilder"

TRAPS_LAST = ("unwrap", "expect", "unwrap_err", "expect_err", "unwrap_unchecked")
COLOUR_FIELDS = ("module_color", "background_color", "image_background_color")


def K(e):
    return e[1] if isinstance(e, tuple) and e and e[0] == "K" else None


def wasm_fns(f):
    return [fn for fn in f.all_fns() if fn.path.startswith(W) or fn.raw.get("parent", "").startswith(W)]


def c17_r1(ctx, f):
    rid = "C17.R1"
    ctx.rule(rid, "no trap in the option layer: no unwrap/expect/panic call in any wasm function or closure")
    fns = wasm_fns(f)
    ctx.floor(rid, "wasm-layer functions", len(fns), 18)
    n = 0
    for fn in fns:
        ctx.analysed(fn, len(fn.calls()))
        for c in fn.calls():
            n += 1
            nm = c.name or ""
            last = nm.split("::")[-1]
            trap = (nm.startswith(("std::option::Option::<T>::", "std::result::Result::<T, E>::")) and last in TRAPS_LAST) \
                or nm.startswith(("core::panicking::", "std::rt::begin_panic", "core::option::unwrap_failed", "core::result::unwrap_failed"))
            if trap and fn.raw.get("from_expansion") and "derive" in str(c.macros):
                continue
            if trap:
                k = sum(1 for v in ctx.violations if v.key.startswith("%s/%s/%s" % (rid, fn.path, last)))
                ctx.fail(rid, "%s/%s#%d" % (fn.path, last, k), c.where(), fn.path, nm,
                         "a call that panics on caller-controlled input is reachable from a JS-facing function: the module traps",
                         found=nm)
            else:
                ctx.ok(rid, "%s: %s cannot trap by itself" % (fn.path.split("::")[-1], last) if n < 4 else None)
    return fns


def _vec_len_guard(fn, block, vec_expr):
    """facts `len(vec) == n` (as (op, n, polarity)) established on edges dominating block"""
    out = []
    for cond, pol, s in fn.guards_of(block):
        if cond[0] == "bin" and cond[1] in ("Eq", "Ne", "Lt", "Le", "Gt", "Ge"):
            a, b = cond[2], cond[3]
            for x, y, flip in ((a, b, False), (b, a, True)):
                if x[0] == "call" and x[1] == "len" and unname(strip_refs(x[2][0])) == unname(strip_refs(vec_expr)) and K(y) is not None:
                    op = cond[1]
                    if flip:
                        op = {"Lt": "Gt", "Le": "Ge", "Gt": "Lt", "Ge": "Le", "Eq": "Eq", "Ne": "Ne"}[op]
                    if not pol:
                        op = {"Eq": "Ne", "Ne": "Eq", "Lt": "Ge", "Ge": "Lt", "Gt": "Le", "Le": "Gt"}[op]
                    out.append((op, K(y)))
    return out


def _implies_in_range(facts, k):
    for op, n in facts:
        if op == "Eq" and k < n:
            return True
        if op == "Ge" and k < n:
            return True
        if op == "Gt" and k <= n:
            return True
    return False


def c17_r2(ctx, f):
    rid = "C17.R2"
    ctx.rule(rid, "every constant index into a Vec is dominated by a length test of that same vector")
    n = 0
    for fn in wasm_fns(f):
        for c in fn.calls("<std::vec::Vec<T, A> as std::ops::Index<I>>::index", "<std::vec::Vec<T, A> as std::ops::IndexMut<I>>::index_mut"):
            v = fn.canon(c.args[0], c.point)
            i = fn.canon(c.args[1], c.point)
            k = K(i)
            n += 1
            if k is None:
                ctx.abstain(rid, "non-constant Vec index %s in %s" % (expr_str(i, fn), fn.path), c.where())
                continue
            facts = _vec_len_guard(fn, c.block, v)
            vname = _field_name(v, fn)
            ctx.check(rid, _implies_in_range(facts, k), "%s/%s[%d]" % (fn.path, vname, k), c.where(), fn.path,
                      "%s[%d]" % (expr_str(strip_refs(v), fn), k),
                      "the index is not protected by a length test of the vector being indexed (a test of another vector does not count): "
                      "out-of-bounds trap when this option is unset or partially set",
                      expected="len(%s) > %d on a dominating edge" % (vname, k), found=["len %s %d" % x for x in facts] or
                      ["%s is %s" % (expr_str(cd, fn), p) for cd, p, s in fn.guards_of(c.block)],
                      sample="%s[%d] under len(%s) %s" % (vname, k, vname, facts))
        # String::remove(0) under starts_with
        for c in fn.calls("std::string::String::remove"):
            n += 1
            sref = fn.canon(c.args[0], c.point)
            ok = False
            for cond, pol, s in fn.guards_of(c.block):
                if cond[0] == "def" and pol is True:
                    nm = call_name_of_def(fn, cond[1]) or ""
                    d = def_of(fn, cond[1])
                    if nm.endswith("::starts_with"):
                        recv = fn.canon(d.call["args"][0], d.point)
                        ok = unname(strip_refs(recv)) == unname(strip_refs(sref)) or _same_root(fn, recv, sref)
            ctx.check(rid, ok and K(fn.canon(c.args[1], c.point)) == 0, "%s/remove0" % fn.path, c.where(), fn.path, "String::remove(0)",
                      "remove(0) is not protected by starts_with on the same string (panics on an empty string)",
                      sample="remove(0) under starts_with")
    ctx.floor(rid, "guarded index sites", n, 5)


def _same_root(fn, a, b):
    def roots(e):
        return {x for x in subexprs(e) if x[0] in ("param", "def", "phi")}
    return bool(roots(a) & roots(b))


def _field_name(e, fn=None):
    for x in subexprs(e):
        if x[0] == "field" and len(x) == 4 and x[3]:
            return x[3]
    return expr_str(strip_refs(e), fn)


def c17_r3(ctx, f):
    rid = "C17.R3"
    ctx.rule(rid, "field invariant: colour fields always hold 4 bytes, size 2 numbers, position 0 or 2 numbers")
    want_len = {"module_color": 4, "background_color": 4, "image_background_color": 4, "image_size": (0, 2), "image_position": (0, 2)}
    adt = f.adts.get(OPTS)
    if not adt:
        ctx.anchor_missing(rid, OPTS)
        return
    n = 0
    # a field whose type fixes the length ([u8; 4], Option<[f64; 2]>, (f64, f64)) holds the invariant by construction
    import re as _re
    for fl in adt["variants"][0]["fields"]:
        w_ = want_len.get(fl["name"])
        if w_ is None:
            continue
        m_ = _re.search(r"\[[^;\]]+; (\d+)\]", fl.get("ty") or "")
        if m_ and (int(m_.group(1)) == w_ or (isinstance(w_, tuple) and int(m_.group(1)) in w_)):
            ctx.ok(rid, "SvgOptions.%s has type %s: its length is fixed by the type" % (fl["name"], fl["ty"]))
            want_len = {k: v for k, v in want_len.items() if k != fl["name"]}
            n += 10
        elif _re.match(r"^(std::option::Option<)?\(f64, f64\)>?$", fl.get("ty") or "") and isinstance(w_, tuple):
            ctx.ok(rid, "SvgOptions.%s has type %s: its shape is fixed by the type" % (fl["name"], fl["ty"]))
            want_len = {k: v for k, v in want_len.items() if k != fl["name"]}
            n += 10
    for fn in wasm_fns(f):
        for b in fn.blocks:
            if b["cleanup"]:
                continue
            for i, st in enumerate(b["stmts"]):
                if st["k"] != "assign":
                    continue
                pt = (b["id"], i)
                if st["rv"]["k"] == "agg" and st["rv"].get("path") == OPTS:
                    rv = st["rv"]
                    for j, fld in enumerate(rv["fields"]):
                        if fld not in want_len:
                            continue
                        n += 1
                        ok, how = _len_invariant(fn, rv["ops"][j], pt, fld, want_len[fld], b["id"])
                        if ok is None:
                            ctx.abstain(rid, "SvgOptions.%s <- %s" % (fld, how), fn.where(pt))
                            continue
                        ctx.check(rid, ok, "%s/%s" % (fn.path, fld), fn.where(pt), fn.path, "SvgOptions.%s" % fld,
                                  "a value of unchecked length is stored in this option: the native conversion/indexing of it panics later",
                                  expected="length %s" % (want_len[fld],), found=how,
                                  sample="%s: %s <- %s" % (fn.path.split("::")[-1], fld, how))
                elif st["p"]["proj"]:
                    # direct field store into an SvgOptions
                    for e in st["p"]["proj"]:
                        if isinstance(e, dict) and e.get("name") in want_len and _base_adt(fn, st["p"]) == OPTS:
                            n += 1
                            ok, how = _len_invariant(fn, st["rv"].get("op"), pt, e["name"], want_len[e["name"]], b["id"])
                            if ok is None:
                                ctx.abstain(rid, "SvgOptions.%s <- %s" % (e["name"], how), fn.where(pt))
                                continue
                            ctx.check(rid, ok, "%s/store/%s" % (fn.path, e["name"]), fn.where(pt), fn.path, "SvgOptions.%s" % e["name"],
                                      "a value of unchecked length is stored in this option", found=how)
    ctx.floor(rid, "stores into length-constrained option fields", n, 50)


def _base_adt(fn, p):
    t = fn.locals[p["l"]]["tyt"]
    for e in p["proj"]:
        if e == "deref" and t["k"] in ("ref", "ptr"):
            t = t["inner"]
        elif isinstance(e, dict) and "f" in e:
            return t["path"] if t["k"] == "adt" else None
    return None


def _len_invariant(fn, op, pt, fld, want, block):
    if op is None:
        return False, "?"
    orgs = fn.origins(op, pt, hide_weak=True)
    hows = []
    for o in orgs:
        # (a) copied from the same field of an existing options value
        if o.kind == "param" and o.proj and o.proj[-1][0] == "f":
            adt_fields = [x["name"] for x in fn.facts.adts[OPTS]["variants"][0]["fields"]]
            if adt_fields[o.proj[-1][1]] == fld:
                hows.append("same field of self")
                continue
            return False, "copied from another field"
        # (b) vec! literal
        n = _vec_literal_len(fn, o)
        if n is not None:
            if (isinstance(want, tuple) and n in want) or n == want:
                hows.append("literal of %d" % n)
                continue
            return False, "literal of %d" % n
        # (c) value whose length was tested on a dominating edge
        e = fn.canon(op, pt)
        facts = _vec_len_guard(fn, block, e)
        wants = want if isinstance(want, tuple) else (want,)
        if any(op_ == "Eq" and k in wants for op_, k in facts):
            hows.append("length-checked value (%s)" % facts)
            continue
        if o.kind == "call" and not (o.callee() or "std::").startswith(("std::", "core::", "alloc::", "<std::", "<core::", "<alloc::")):
            # produced by a helper of the crate: its length facts live in the helper (decided by C17.R6 when that evaluates)
            return None, "%s (helper of the crate: not followed)" % o.describe(fn)
        return False, "%s with length facts %s" % (o.describe(fn), facts)
    return bool(hows), "; ".join(hows)


def _vec_literal_len(fn, o):
    """length of a vec![..] / Vec::new() literal origin, else None"""
    if o.kind != "call":
        return None
    nm = o.callee() or ""
    if nm in ("std::vec::Vec::<T>::new",):
        return 0
    if nm.endswith("box_assume_init_into_vec_unsafe") or nm.endswith("::into_vec"):
        import re
        for a in o.info.call["args"]:
            m = re.search(r"\[[^;\]]+; (\d+)\]", a.get("ty") or "")
            if m:
                return int(m.group(1))
    if nm.endswith("into_vec") or nm.endswith("::into_vec"):
        # vec![a, b, ..] = <[T]>::into_vec(Box::new([..]))
        a = fn.origins(o.info.call["args"][0], o.point)
        for x in a:
            n = _boxed_array_len(fn, x)
            if n is not None:
                return n
        return None
    if nm in ("std::vec::from_elem",):
        return None
    if nm.endswith("::to_vec") or nm.endswith("::to_owned") or "as std::convert::From<" in nm and "Vec" in nm:
        # a copy of a constant array / slice constant: its length is the constant's
        try:
            e = fn.canon(o.info.call["args"][0], o.point)
        except Exception:  # noqa: BLE001
            return None
        from .mir import subexprs as _sub
        ks = [x for x in _sub(e) if x[0] == "K" and isinstance(x[1], (tuple, list))]
        if len(ks) == 1 and all(isinstance(v, int) for v in ks[0][1]):
            return len(ks[0][1])
    return None


def _boxed_array_len(fn, o, depth=0):
    import re
    if depth > 6:
        return None
    if o.kind == "agg" and o.info.rv.get("agg") == "array":
        return len(o.info.rv["ops"])
    if o.kind in ("call", "expr", "agg"):
        # look at the destination local's type: Box<[T; N]>
        l = o.info.local
        ty = fn.locals[l]["ty"] if l > 0 else ""
        m = re.search(r"\[[^;\]]+; (\d+)\]", ty)
        if m:
            return int(m.group(1))
        if o.kind == "call":
            for a in o.info.call["args"]:
                for x in fn.origins(a, o.point):
                    n = _boxed_array_len(fn, x, depth + 1)
                    if n is not None:
                        return n
    return None


FORWARD = {
    "shape": ["shape"], "margin": ["margin"], "background_color": ["background_color"], "module_color": ["module_color"],
    "image": ["image"], "image_background_color": ["image_background_color"], "image_background_shape": ["image_background_shape"],
    "image_size": ["image_size[0]"], "image_gap": ["image_size[1]"], "image_position": ["image_position[0]", "image_position[1]"],
}


def c17_r4(ctx, f):
    rid = "C17.R4"
    ctx.rule(rid, "agreement with native: entry points build with QRCode::new and forward every option to the like-named setter once")
    q = anchor_fn(ctx, rid, f, W + "qr")
    if q:
        cs = q.calls("qr::QRCode::new")
        ok = len(cs) == 1
        if ok:
            c = cs[0]
            e = strip_refs(q.canon(c.args[0], c.point))
            ok = e[0] == "call" and e[1] == "as_bytes" and contains(e, ("param", 1))
            for a in c.args[1:]:
                o = q.origins(a, c.point)
                ok = ok and len(o) == 1 and o[0].kind == "agg" and o[0].info.rv.get("variant") == "None"
        ctx.check(rid, ok, q.path + "/build", where_fn(q), q.path, "QRCode::new call", "qr() does not build content.as_bytes() with all options automatic",
                  sample="QRCode::new(content.as_bytes(), None, None, None, None)")
        _failure_maps_to_empty(ctx, rid, f, q, "std::vec::Vec::<T>::new")
    s = anchor_fn(ctx, rid, f, W + "qr_svg")
    if not s:
        return
    po = [l for l in s.params() if s.locals[l]["ty"] == OPTS]
    cs = s.calls("qr::QRCode::new")
    ok = len(cs) == 1 and len(po) == 1
    if ok:
        c = cs[0]
        e = strip_refs(s.canon(c.args[0], c.point))
        ok = e[0] == "call" and e[1] == "as_bytes" and contains(e, ("param", 1))
        names = []
        for a in c.args[1:]:
            o = s.origins(a, c.point)
            if len(o) == 1 and o[0].kind == "param" and o[0].info == po[0] and o[0].proj:
                names.append(_opt_field(f, o[0].proj))
            elif len(o) == 1 and o[0].kind == "agg" and o[0].info.rv.get("variant") == "None":
                names.append(None)
            else:
                names.append("?")
        ok = ok and names == ["ecl", "version", None, None]
    ctx.check(rid, ok, s.path + "/build", where_fn(s), s.path, "QRCode::new call",
              "qr_svg() does not build content.as_bytes() with the options' level and version (mode and mask automatic)",
              sample="QRCode::new(content.as_bytes(), options.ecl, options.version, None, None)")
    # forwarding
    calls = {}
    bdefault = s.calls("<%s as std::default::Default>::default" % SVGB)
    for c in s.calls():
        nm = c.callee or ""
        pre = "<%s as convert::Builder>::" % SVGB
        if nm.startswith(pre):
            calls.setdefault(nm[len(pre):], []).append(c)
    ctx.analysed(s, sum(len(v) for v in calls.values()))
    if not calls:
        # no setter is called here at all: the forwarding lives in a helper this rule does not follow (C17.R6 evaluates it)
        ctx.abstain(rid, "qr_svg calls no builder setter itself: forwarding moved out of the entry point", where_fn(s))
        _failure_maps_to_empty(ctx, rid, f, s, "std::string::String::new")
        return
    for m, want in FORWARD.items():
        cl = calls.get(m, [])
        ok = len(cl) == 1
        found = None
        if ok:
            c = cl[0]
            got = []
            for a in c.args[1:]:
                o = s.origins(a, c.point)
                if len(o) == 1 and o[0].kind == "param" and o[0].info == po[0] and o[0].proj:
                    got.append(_opt_field(f, o[0].proj))
                else:
                    e = s.canon(a, c.point)
                    got.append(_vec_elem(f, s, e, po[0]))
            found = got
            ok = got == want
            # receiver is the builder created by default() and later rendered
            r = s.origins(c.args[0], c.point)
            ok = ok and len(r) == 1 and r[0].kind == "ref"
        ctx.check(rid, ok, "%s/forward/%s" % (s.path, m), cl[0].where() if cl else where_fn(s), s.path, "builder.%s(..)" % m,
                  "this option is not forwarded exactly once from the like-named option field", expected=want,
                  found=found if cl else "%d calls" % len(cl), sample="builder.%s(options.%s)" % (m, ", options.".join(want)))
    extra = sorted(set(calls) - set(FORWARD))
    ctx.check(rid, not extra, s.path + "/forward/extra", where_fn(s), s.path, "other setter calls", "an unexpected builder option is set", found=extra)
    # conditions: image only when non-empty; size/gap and position under their own vectors' length (C17.R2)
    if calls.get("image"):
        c = calls["image"][0]
        g = [(expr_str(cd, s), p) for cd, p, b in s.guards_of(c.block)]
        ok = any(cd[0] == "call" and cd[1] == "is_empty" and "image" in repr(cd) and p is False for cd, p, b in s.guards_of(c.block))
        ctx.check(rid, ok, s.path + "/image-when-set", c.where(), s.path, "builder.image(..)", "the image is not forwarded exactly when it is non-empty",
                  found=g, sample="image forwarded iff !options.image.is_empty()")
    for m in ("shape", "margin", "background_color", "module_color", "image_background_color", "image_background_shape"):
        if calls.get(m):
            c = calls[m][0]
            ctx.check(rid, all(s.dominates(c.block, r[0]) for r in ret_points(s)), "%s/unconditional/%s" % (s.path, m), c.where(), s.path,
                      "builder.%s(..)" % m, "this option is only forwarded conditionally", sample="%s forwarded unconditionally" % m)
    # rendering: to_str of that builder on the built symbol; failure -> empty string
    ts = [c for fn in wasm_fns(f) for c in fn.calls(SVGB + "::to_str")]
    ctx.check(rid, len(ts) == 1, s.path + "/render", where_fn(s), s.path, "SvgBuilder::to_str", "the SVG is not produced by one call to the native to_str",
              found=len(ts), sample="native SvgBuilder::to_str renders the result")
    _ = bdefault
    _failure_maps_to_empty(ctx, rid, f, s, "std::string::String::new")


def _opt_field(f, proj):
    fields = [x["name"] for x in f.adts[OPTS]["variants"][0]["fields"]]
    if proj and proj[0][0] == "f":
        return fields[proj[0][1]] + ("".join("[%s]" % p[1] for p in proj[1:] if p[0] in ("cidx",)))
    return "?"


def _vec_elem(f, fn, e, opt_local):
    """options.<vec field>[k] read through Vec::index"""
    e = strip_refs(e)
    if e[0] == "call" and e[1] == "vec_index":
        v, k = e[2]
        v = strip_refs(v)
        if v[0] == "field" and v[1] == ("param", opt_local) and K(k) is not None:
            return "%s[%d]" % (v[3], K(k))
    return expr_str(e, fn)


def _failure_maps_to_empty(ctx, rid, f, fn, ctor):
    rps = ret_points(fn)
    ro = [o for rp in rps for o in fn.origins({"k": "copy", "p": {"l": 0, "proj": []}}, rp)]
    ok = len(ro) == 1 and ro[0].kind == "call" and (ro[0].callee() or "").endswith("::unwrap_or")
    if ok:
        t = ro[0].info.call
        d = fn.origins(t["args"][1], ro[0].point)
        ok = len(d) == 1 and d[0].kind == "call" and d[0].callee() == ctor
        m = fn.origins(t["args"][0], ro[0].point)
        ok = ok and len(m) == 1 and m[0].kind == "call" and (m[0].callee() or "").endswith("::map")
        if ok:
            src = fn.origins(m[0].info.call["args"][0], m[0].point)
            ok = len(src) == 1 and src[0].kind == "call" and src[0].callee() == "qr::QRCode::new"
    if not ok:
        ok = _failure_match_form(fn, ro, ctor)
    ctx.check(rid, ok, fn.path + "/failure-empty", where_fn(fn), fn.path, "return value",
              "the result is not `built symbol mapped to output, else the empty value`", found=[o.describe(fn) for o in ro],
              sample="QRCode::new(..).map(render).unwrap_or(empty)")


def _failure_match_form(fn, ro, ctor):
    """`match QRCode::new(..) { Ok(q) => render(q), Err(_) => empty }`: every returned value is either the empty constructor on the
    Err edge or a call made on the Ok edge of a discriminant test of the QRCode::new result"""
    tests = []
    for b in fn.blocks:
        t = b["term"]
        if t["k"] != "switch" or b["cleanup"]:
            continue
        ds = [st for st in b["stmts"] if st["k"] == "assign" and st["rv"]["k"] == "discr" and st["p"]["l"] == t["op"].get("p", {}).get("l")]
        if not ds:
            continue
        src = fn.origins({"k": "copy", "p": ds[-1]["rv"]["p"]}, (b["id"], 0))
        if len(src) == 1 and src[0].kind == "call" and src[0].callee() == "qr::QRCode::new" and not src[0].proj:
            arms = dict((v, tgt) for v, tgt in t["arms"])
            if 0 in arms and (1 in arms or t.get("otherwise") is not None):
                tests.append((b["id"], arms[0], arms.get(1, t.get("otherwise"))))
    if len(tests) != 1 or not ro:
        return False
    sb, okb, errb = tests[0]
    empties = 0
    for o in ro:
        if o.kind != "call" or o.proj:
            return False
        blk = o.point[0]
        if o.callee() == ctor:
            if not (blk == errb or fn.edge_dominates((sb, errb), blk)):
                return False
            empties += 1
        else:
            if not (blk == okb or fn.edge_dominates((sb, okb), blk)) or not o.info.call.get("local"):
                return False
    return empties >= 1


def c17_r5(ctx, f):
    rid = "C17.R5"
    ctx.rule(rid, "matrix export: size*size module values as 0/1 bytes in row-major order")
    fn = anchor_fn(ctx, rid, f, W + "bool_to_u8")
    if not fn:
        return
    # slice bound
    rt = [(st, (b["id"], i)) for b in fn.blocks if not b["cleanup"] for i, st in enumerate(b["stmts"])
          if st["k"] == "assign" and st["rv"]["k"] == "agg" and (st["rv"].get("path") or "").startswith("std::ops::Range")]
    ok = False
    found = None
    if len(rt) == 1:
        st, pt = rt[0]
        rv = st["rv"]

        def ren(x):
            if x[0] == "field" and x[3] == "size":
                return "size"
            return None
        if rv["path"] == "std::ops::RangeTo":
            hi = poly.normalise(fn.canon(rv["ops"][0], pt), ren)
            lo = poly.C(0)
        else:
            lo = poly.normalise(fn.canon(rv["ops"][0], pt), ren)
            hi = poly.normalise(fn.canon(rv["ops"][1], pt), ren)
        found = "%s..%s" % (lo.show(), hi.show())
        ok = lo == poly.C(0) and hi == poly.A("size") * poly.A("size")
    ctx.check(rid, ok, fn.path + "/bound", where_fn(fn), fn.path, "exported range", "the export is not data[0 .. size*size]",
              expected="0..size*size", found=found, sample="data[..size*size]")
    # element map
    clos = [st["rv"]["path"] for b in fn.blocks if not b["cleanup"] for st in b["stmts"]
            if st["k"] == "assign" and st["rv"]["k"] == "agg" and st["rv"].get("agg") == "closure"]
    ok = False
    if len(clos) == 1:
        body = f.fn(clos[0])
        if body:
            ctx.analysed(body)
            rp = ret_points(body)
            e = body.canon({"k": "copy", "p": {"l": 0, "proj": []}}, rp[0])
            ok = e[0] == "call" and e[1] == "from_bool" and e[2][0][0] == "call" and \
                e[2][0][1] == "module::Module::value" and contains(e, ("param", 2))
    ctx.check(rid, ok, fn.path + "/element", where_fn(fn), fn.path, "element mapping", "an exported byte is not u8::from(module.value())",
              sample="u8::from(x.value())")
    names = [c.name.split("::")[-1] for c in fn.calls() if c.name]
    ctx.check(rid, "rev" not in names and "skip" not in names and "step_by" not in names and "filter" not in names, fn.path + "/order", where_fn(fn),
              fn.path, "iteration", "the module sequence is reordered or thinned before export", found=names, sample="iter().map().collect()")
