"""Structural rules (R) over the core pipeline: parameter fidelity, stage chaining,
the capacity gate, one-mask-value, guarded module writes, mask selection."""
import re

from .mir import subexprs, expr_str, place_str, proj_key
from .rules_tables import anchor_fn, where_fn, VERSION, ECL, MODE, MASK, MTYPE
from . import fold, reference as ref

OPT = "std::option::Option<%s>"


# ---------------------------------------------------------------------------
# helpers
# ---------------------------------------------------------------------------

def strip_refs(e):
    while isinstance(e, tuple) and e and e[0] in ("ref", "deref"):
        e = e[1]
    return e


def is_const_variant(e, name):
    e = strip_refs(e)
    if isinstance(e, tuple) and e and e[0] == "K":
        return e[1] == name
    if isinstance(e, tuple) and e and e[0] == "agg":
        return e[3] == name and not e[4]
    return False


def contains(e, sub):
    return any(x == sub for x in subexprs(e))


def def_of(fn, did):
    return fn.defs()[0][did]


def call_name_of_def(fn, did):
    d = def_of(fn, did)
    if d.call is not None:
        return d.call.get("callee") or d.call.get("declared")
    return None


def typed_operands(fn, ty):
    """every operand of type `ty` passed to a call or stored into an aggregate: (operand, point, sink description)"""
    out = []
    for b in fn.blocks:
        if b["cleanup"]:
            continue
        bid = b["id"]
        for i, st in enumerate(b["stmts"]):
            if st["k"] == "assign" and st["rv"]["k"] == "agg":
                rv = st["rv"]
                for j, o in enumerate(rv["ops"]):
                    if o.get("ty") == ty:
                        fld = rv["fields"][j] if rv.get("fields") and j < len(rv["fields"]) else str(j)
                        out.append((o, (bid, i), "%s%s.%s" % (rv.get("path") or rv["agg"], ("::" + rv["variant"]) if rv.get("variant") else "", fld)))
        t = b["term"]
        if t and t["k"] == "call":
            for j, o in enumerate(t["args"]):
                if o.get("ty") == ty:
                    out.append((o, (bid, len(b["stmts"])), "arg#%d of %s" % (j, t.get("callee") or t.get("declared"))))
    return out


def sink_key(s):
    return re.sub(r"[^A-Za-z0-9_:#.<>]+", "_", s)


# ---------------------------------------------------------------------------
# C01.R1 / C04.R2 parameter fidelity
# ---------------------------------------------------------------------------

FIDELITY_FNS = [
    ("placement::create_matrix", 12),
    ("placement::place_on_matrix", 2),
    ("encode::encode", 5),
    ("polynomials::structure", 6),
]


def c01_r1(ctx, f):
    rid = "C01.R1"
    ctx.rule(rid, "parameter fidelity: every level/version/mode operand is the function's own parameter")
    total = 0
    for path, floor in FIDELITY_FNS:
        fn = anchor_fn(ctx, rid, f, path)
        if not fn:
            continue
        n = 0
        for ty in (ECL, VERSION, MODE):
            params = fn.params_of_type(ty)
            for o, pt, sink in typed_operands(fn, ty):
                n += 1
                orgs = fn.origins(o, pt)
                ok = len(params) == 1 and len(orgs) == 1 and orgs[0].kind == "param" and orgs[0].info == params[0] and not orgs[0].proj
                ctx.check(rid, ok, "%s/%s/%s" % (fn.path, ty.split("::")[-1], sink_key(sink)), fn.where(pt), fn.path,
                          "%s operand, %s" % (ty.split("::")[-1], sink),
                          "operand is not a copy of this function's %s parameter: a later stage would work on a different "
                          "configuration than the earlier ones" % ty.split("::")[-1],
                          expected="parameter of type " + ty, found=[x.describe(fn) for x in orgs],
                          sample="%s: %s <- %s" % (fn.path, sink, [x.describe(fn) for x in orgs]))
        ctx.floor(rid, "typed operands in " + path, n, floor)
        total += n
    return total


def option_resolution(fn, op, pt):
    """recognise `opt.unwrap_or(default)` / `opt.unwrap_or_else(closure)` / match with Some payload + default.
    returns dict(option_origin=Origin, default=Origin|None, closure=Origin|None, form=str) or None"""
    orgs = fn.origins(op, pt)
    if len(orgs) == 1 and orgs[0].kind == "call" and not orgs[0].proj:
        t = orgs[0].info.call
        name = t.get("callee") or t.get("declared")
        cpt = orgs[0].point
        if name == "std::option::Option::<T>::unwrap_or" and len(t["args"]) == 2:
            o0 = fn.origins(t["args"][0], cpt)
            o1 = fn.origins(t["args"][1], cpt)
            if len(o0) == 1:
                return dict(option=o0[0], default=o1, closure=None, form="unwrap_or", point=cpt)
        if name == "std::option::Option::<T>::unwrap_or_else" and len(t["args"]) == 2:
            o0 = fn.origins(t["args"][0], cpt)
            o1 = fn.origins(t["args"][1], cpt)
            if len(o0) == 1 and len(o1) == 1:
                return dict(option=o0[0], default=None, closure=o1[0], form="unwrap_or_else", point=cpt)
        return None
    # match form: {payload of Some(option), default}
    some = [o for o in orgs if o.proj and o.proj[0][0] == "dc"]
    rest = [o for o in orgs if o not in some]
    if len(some) == 1 and rest:
        base = some[0]
        from .mir import Origin
        opt = Origin(base.kind, base.info, (), base.point, base.via)
        return dict(option=opt, default=rest, closure=None, form="match", point=pt)
    return None


def c04_r2(ctx, f):
    rid = "C04.R2"
    ctx.rule(rid, "reported = used = forced: level defaults to Q, reported fields are the values used")
    fn = anchor_fn(ctx, rid, f, "qr::QRCode::new")
    if not fn:
        return
    cm = fn.calls("placement::create_matrix")
    if len(cm) != 1:
        ctx.anchor_missing(rid, "single call to placement::create_matrix in qr::QRCode::new")
        return
    c = cm[0]
    ctx.analysed(fn, 1)
    # level
    lev = [a for a in c.args if a.get("ty") == ECL]
    p_ecl = fn.params_of_type(OPT % ECL)
    if len(lev) != 1 or len(p_ecl) != 1:
        ctx.anchor_missing(rid, "level operand / Option<ECL> parameter")
    else:
        r = option_resolution(fn, lev[0], c.point)
        ok = bool(r) and r["option"].kind == "param" and r["option"].info == p_ecl[0] and not r["option"].proj
        ctx.check(rid, ok, fn.path + "/level-source", c.where(), fn.path, "level passed to create_matrix",
                  "the level used is not `caller's option or default`", found=[o.describe(fn) for o in fn.origins(lev[0], c.point)],
                  sample="level = ecl.%s(..)" % (r["form"] if r else "?"))
        if ok:
            d = r["default"] or []
            isq = len(d) == 1 and ((d[0].kind == "agg" and d[0].info.rv.get("variant") == "Q") or
                                   (d[0].kind == "const" and d[0].info.get("val") == "Q"))
            ctx.check(rid, isq, fn.path + "/level-default", fn.where(r["point"]), fn.path, "default level",
                      "the default error-correction level is not Q", expected="ECL::Q", found=[x.describe(fn) for x in d],
                      sample="default level = ECL::Q")
    # every ECL / Mode operand in QRCode::new is the resolved value
    for ty, what in ((ECL, "level"), (MODE, "mode")):
        ops = typed_operands(fn, ty)
        resolved = None
        for o, pt, sink in ops:
            orgs = fn.origins(o, pt)
            if sink.startswith("arg#") and "create_matrix" in sink:
                resolved = {x.key() for x in orgs}
        for o, pt, sink in ops:
            if "unwrap_or" in sink:
                continue  # the default itself
            orgs = {x.key() for x in fn.origins(o, pt)}
            ctx.check(rid, resolved is not None and orgs == resolved, "%s/%s/%s" % (fn.path, what, sink_key(sink)), fn.where(pt),
                      fn.path, "%s operand, %s" % (what, sink),
                      "a second source of the %s is used next to the resolved one" % what,
                      found=[x.describe(fn) for x in fn.origins(o, pt)], sample="%s operand %s = resolved %s" % (what, sink, what))
    # reported fields in placement::create_matrix
    g = anchor_fn(ctx, rid, f, "placement::create_matrix")
    if g:
        aggs = []
        for b in g.blocks:
            if b["cleanup"]:
                continue
            for i, st in enumerate(b["stmts"]):
                if st["k"] == "assign" and st["rv"]["k"] == "agg" and st["rv"].get("path") == "qr::QRCode":
                    aggs.append((st, (b["id"], i)))
        if not aggs:
            ctx.abstain(rid, "create_matrix no longer builds the returned QRCode with a struct literal", where_fn(g))
        for st, pt in aggs:
            rv = st["rv"]
            for j, fld in enumerate(rv["fields"]):
                o = rv["ops"][j]
                orgs = g.origins(o, pt)
                if fld in ("version", "ecl", "mode"):
                    want = {"version": VERSION, "ecl": ECL, "mode": MODE}[fld]
                    params = g.params_of_type(want)
                    ok = False
                    inner = []
                    if len(orgs) == 1 and orgs[0].kind == "agg" and orgs[0].info.rv.get("variant") == "Some":
                        inner = g.origins(orgs[0].info.rv["ops"][0], orgs[0].point)
                        ok = len(params) == 1 and len(inner) == 1 and inner[0].kind == "param" and inner[0].info == params[0]
                    ctx.check(rid, ok, "%s/reported/%s" % (g.path, fld), g.where(pt), g.path, "QRCode.%s" % fld,
                              "the reported %s is not Some(the %s used to build the symbol)" % (fld, fld),
                              found=[x.describe(g) for x in (inner or orgs)], sample="QRCode.%s = Some(param %s)" % (fld, fld))
                elif fld in ("data", "size", "mask"):
                    ok = len(orgs) == 1 and orgs[0].kind == "call" and orgs[0].callee() == "placement::place_on_matrix" \
                        and orgs[0].proj and orgs[0].proj[-1][0] == "f"
                    # the field read must be the like-named field
                    if ok:
                        qa = f.adts["qr::QRCode"]["variants"][0]["fields"]
                        ok = qa[orgs[0].proj[-1][1]]["name"] == fld
                    ctx.check(rid, ok, "%s/reported/%s" % (g.path, fld), g.where(pt), g.path, "QRCode.%s" % fld,
                              "the returned %s is not the one produced by placement" % fld,
                              found=[x.describe(g) for x in orgs], sample="QRCode.%s = place_on_matrix(..).%s" % (fld, fld))
    # size = Version::size(version) of the same version
    h = anchor_fn(ctx, rid, f, "default::create_matrix", [VERSION], "qr::QRCode")
    if h:
        dc = h.calls("qr::QRCode::default")
        if len(dc) != 1:
            ctx.abstain(rid, "blank symbol is no longer created by one call to QRCode::default", where_fn(h))
        else:
            orgs = h.origins(dc[0].args[0], dc[0].point)
            ok = len(orgs) == 1 and orgs[0].kind == "call" and orgs[0].callee() == "version::Version::size"
            if ok:
                vo = h.origins(orgs[0].info.call["args"][0], orgs[0].point)
                ok = len(vo) == 1 and vo[0].kind == "param"
            ctx.check(rid, ok, h.path + "/size", dc[0].where(), h.path, "size of the blank symbol",
                      "symbol size is not Version::size of the version being built", found=[x.describe(h) for x in orgs],
                      sample="QRCode::default(version.size())")


# ---------------------------------------------------------------------------
# C05.R1 / R2 the gate
# ---------------------------------------------------------------------------

class _Soft:
    """view of a Ctx in which a failed shape obligation is an abstention (used when the exact rule C05.R3 has decided)"""

    def __init__(self, ctx):
        self._c = ctx

    def __getattr__(self, k):
        return getattr(self._c, k)

    def check(self, rid, cond, key, where, fn, instance, reason, expected=None, found=None, sample=None):
        if cond:
            self._c.ok(rid, sample)
        else:
            self._c.abstain(rid, "%s: shape not recognised (%s); decided exactly by C05.R3" % (instance, reason[:80]), where)
        return cond

    def fail(self, rid, key, where, fn, instance, reason, expected=None, found=None, path=None):
        self._c.abstain(rid, "%s: shape not recognised (%s); decided exactly by C05.R3" % (instance, reason[:80]), where)

    def anchor_missing(self, rid, what):
        if rid not in self._c.rules:
            self._c.rule(rid, "anchor")
        self._c.abstain(rid, "shape not recognised: %s; decided exactly by C05.R3" % what)


def c05_gate(ctx, f):
    r1 = "C05.R1"
    r2 = "C05.R2"
    ctx.rule(r1, "capacity gate: version used is the needed one or a forced one >= needed")
    ctx.rule(r2, "error edges: None -> EncodedData, gate false -> SpecifiedVersion, nothing else")
    fn = anchor_fn(ctx, r1, f, "qr::QRCode::new")
    if not fn:
        return
    # the outcome table decides the gate exactly; the dominance rules below then only cross-check the shape they know
    from . import rules_geom
    if rules_geom.c05_r3(ctx, f):
        ctx = _Soft(ctx)
    cm = fn.calls("placement::create_matrix")
    gets = fn.calls("version::Version::get")
    if len(cm) != 1 or len(gets) != 1:
        ctx.anchor_missing(r1, "single create_matrix / Version::get call in qr::QRCode::new")
        return
    c, g = cm[0], gets[0]
    ctx.analysed(fn, 2)
    # arguments of Version::get: resolved mode, resolved level, len(input)
    p_in = fn.params_of_type("&[u8]")
    for a in g.args:
        ty = a.get("ty")
        if ty == "usize":
            orgs = fn.origins(a, g.point)
            ok = False
            if len(orgs) == 1 and orgs[0].kind == "call" and orgs[0].callee() in (
                    "core::slice::<impl [T]>::len", "std::vec::Vec::<T, A>::len"):
                src = fn.origins(orgs[0].info.call["args"][0], orgs[0].point)
                ok = len(src) == 1 and src[0].kind == "param" and src[0].info in p_in
            ctx.check(r1, ok, fn.path + "/get-len", g.where(), fn.path, "length passed to Version::get",
                      "capacity is not looked up for the length of the input", found=[x.describe(fn) for x in orgs],
                      sample="Version::get(.., input.len())")
        elif ty in (ECL, MODE):
            used = [x for x in c.args if x.get("ty") == ty]
            same = used and {x.key() for x in fn.origins(a, g.point)} == {x.key() for x in fn.origins(used[0], c.point)}
            ctx.check(r1, bool(same), "%s/get-%s" % (fn.path, ty.split("::")[-1]), g.where(), fn.path,
                      "%s passed to Version::get" % ty.split("::")[-1],
                      "capacity is looked up for a different %s than the one encoded with" % ty.split("::")[-1],
                      found=[x.describe(fn) for x in fn.origins(a, g.point)], sample="Version::get uses the resolved %s" % ty.split("::")[-1])
    # the version operand
    vops = [a for a in c.args if a.get("ty") == VERSION]
    p_v = fn.params_of_type(OPT % VERSION)
    if len(vops) != 1 or len(p_v) != 1:
        ctx.anchor_missing(r1, "version operand / Option<Version> parameter")
        return
    orgs = fn.origins(vops[0], c.point)
    gdef = [d for d in fn.defs()[0] if d.kind == "calldest" and d.point == g.point]
    gid = gdef[0].id if gdef else None
    needed = [o for o in orgs if o.kind == "call" and o.info.id == gid and [x[0] for x in o.proj] == ["dc", "f"]]
    forced = [o for o in orgs if o.kind == "param" and o.info == p_v[0] and [x[0] for x in o.proj] == ["dc", "f"]]
    other = [o for o in orgs if o not in needed and o not in forced]
    ctx.check(r1, len(needed) == 1, fn.path + "/version/needed", c.where(), fn.path, "version passed to create_matrix",
              "the automatically chosen version is not the payload of Version::get", found=[x.describe(fn) for x in orgs],
              sample="automatic version = Version::get(..)?")
    ctx.check(r1, len(forced) == 1, fn.path + "/version/forced", c.where(), fn.path, "version passed to create_matrix",
              "a forced version is never used as given", found=[x.describe(fn) for x in orgs],
              sample="forced version flows to create_matrix")
    ctx.check(r1, not other, fn.path + "/version/other", c.where(), fn.path, "version passed to create_matrix",
              "the version has a third source", found=[x.describe(fn) for x in other])
    gate_block = None
    if forced:
        hop = forced[0].first_hop()
        ok = False
        detail = []
        hops = list(forced[0].via) or [hop]
        for cond, pol, s in [g for h in hops for g in fn.guards_of(h[0])]:
            detail.append("%s is %s" % (expr_str(cond, fn), pol))
            if cond[0] != "bin" or cond[1] not in ("Ge", "Gt", "Le", "Lt"):
                continue

            def side(e):
                e = e[2] if e[0] == "cast" else e
                if e[0] != "discr":
                    return None
                if contains(e, ("param", p_v[0])):
                    return "user"
                if gid is not None and contains(e, ("def", gid)):
                    return "needed"
                return None

            a, b = side(cond[2]), side(cond[3])
            form = (cond[1], a, b, pol)
            if form in (("Ge", "user", "needed", True), ("Le", "needed", "user", True),
                        ("Lt", "user", "needed", False), ("Gt", "needed", "user", False)):
                ok = True
                gate_block = s
        ctx.check(r1, ok, fn.path + "/gate", fn.where(hop), fn.path, "use of the forced version",
                  "the forced version is used without being compared (>=) with the needed version",
                  expected="discr(user) >= discr(needed) on the dominating edge", found=detail,
                  sample="forced version used only under user >= needed")
    if needed:
        # the needed version is used as-is only when no version is forced
        hop = needed[0].first_hop()
        sg = [g for h in (list(needed[0].via) or [hop]) for g in fn.switch_guards(h[0])]
        ok = any(cd[0] == "discr" and contains(cd, ("param", p_v[0])) and how == ("eq", 0) for cd, how, s in sg)
        ctx.check(r1, ok, fn.path + "/auto-only-when-unforced", fn.where(hop), fn.path, "use of the automatic version",
                  "the automatic version replaces a forced one", found=[(expr_str(cd, fn), how) for cd, how, s in sg],
                  sample="automatic version used only when v is None")
    # ---- error edges
    errs = []
    for b in fn.blocks:
        if b["cleanup"]:
            continue
        for i, st in enumerate(b["stmts"]):
            if st["k"] == "assign" and st["rv"]["k"] == "agg" and st["rv"].get("path") == "std::result::Result" \
                    and st["rv"].get("variant") == "Err":
                o = fn.origins(st["rv"]["ops"][0], (b["id"], i))
                var = o[0].info.rv.get("variant") if len(o) == 1 and o[0].kind == "agg" else None
                errs.append((var, b["id"], (b["id"], i)))
    seen = set()
    for var, bid, pt in errs:
        seen.add(var)
        if var == "EncodedData":
            sg = fn.switch_guards(bid)
            ok = any(cd[0] == "discr" and gid is not None and contains(cd, ("def", gid)) and how == ("eq", 0) for cd, how, s in sg)
            ctx.check(r2, ok, fn.path + "/err/EncodedData", fn.where(pt), fn.path, "Err(EncodedData)",
                      "'data too big' is not returned exactly on the None edge of the capacity lookup",
                      found=[(expr_str(cd, fn), how) for cd, how, s in sg], sample="None edge -> Err(EncodedData)")
        elif var == "SpecifiedVersion":
            gs = fn.guards_of(bid)
            ok = gate_block is not None and any(s == gate_block and pol is False for cond, pol, s in gs)
            ctx.check(r2, ok, fn.path + "/err/SpecifiedVersion", fn.where(pt), fn.path, "Err(SpecifiedVersion)",
                      "'specified version too small' is not returned exactly on the failing edge of the gate",
                      found=[(expr_str(cond, fn), pol) for cond, pol, s in gs], sample="gate false edge -> Err(SpecifiedVersion)")
        else:
            ctx.fail(r2, fn.path + "/err/other/%s" % var, fn.where(pt), fn.path, "Err(%s)" % var,
                     "an undocumented error value is constructed")
    for want in ("EncodedData", "SpecifiedVersion"):
        ctx.check(r2, want in seen, fn.path + "/err/missing/" + want, where_fn(fn), fn.path, want,
                  "the documented error is never returned", sample="Err(%s) is constructed" % want)
    # Ok only with the result of create_matrix
    for b in fn.blocks:
        if b["cleanup"]:
            continue
        for i, st in enumerate(b["stmts"]):
            if st["k"] == "assign" and st["rv"]["k"] == "agg" and st["rv"].get("path") == "std::result::Result" \
                    and st["rv"].get("variant") == "Ok":
                o = fn.origins(st["rv"]["ops"][0], (b["id"], i))
                ok = len(o) == 1 and o[0].kind == "call" and o[0].callee() == "placement::create_matrix"
                ctx.check(r2, ok, fn.path + "/ok-value", fn.where((b["id"], i)), fn.path, "Ok(..)",
                          "the Ok value is not the symbol built by create_matrix", found=[x.describe(fn) for x in o],
                          sample="Ok(create_matrix(..))")
    # explicit panics in the entry function
    for cs in fn.calls():
        if cs.name and (cs.name.startswith("core::panicking") or cs.name.startswith("std::rt::begin_panic")
                        or cs.name.endswith("::unwrap") or cs.name.endswith("::expect")):
            ctx.fail(r2, fn.path + "/panic/" + cs.name, cs.where(), fn.path, cs.name, "explicit panic path in QRCode::new")


# ---------------------------------------------------------------------------
# C09.R1
# ---------------------------------------------------------------------------

def c09_r1(ctx, f):
    rid = "C09.R1"
    ctx.rule(rid, "mode used = forced mode, else best_encoding of the same input")
    fn = anchor_fn(ctx, rid, f, "qr::QRCode::new")
    if not fn:
        return
    cm = fn.calls("placement::create_matrix")
    if len(cm) != 1:
        ctx.anchor_missing(rid, "create_matrix call")
        return
    c = cm[0]
    mo = [a for a in c.args if a.get("ty") == MODE]
    p_m = fn.params_of_type(OPT % MODE)
    p_in = fn.params_of_type("&[u8]")
    if len(mo) != 1 or len(p_m) != 1 or len(p_in) != 1:
        ctx.anchor_missing(rid, "mode operand / Option<Mode> parameter / input parameter")
        return
    r = option_resolution(fn, mo[0], c.point)
    ok = bool(r) and r["option"].kind == "param" and r["option"].info == p_m[0] and not r["option"].proj
    ctx.check(rid, ok, fn.path + "/mode-source", c.where(), fn.path, "mode passed to create_matrix",
              "the mode used is not `forced mode or automatic choice`", found=[o.describe(fn) for o in fn.origins(mo[0], c.point)],
              sample="mode = mode.%s(..)" % (r["form"] if r else "?"))
    if not ok:
        return
    # the automatic branch: best_encoding(input)
    auto_ok = False
    detail = None
    if r["closure"] is not None and r["closure"].kind == "agg" and r["closure"].info.rv.get("agg") == "closure":
        cl = r["closure"].info
        up = [fn.origins(o, cl.point) for o in cl.rv["ops"]]
        up_ok = len(up) == 1 and len(up[0]) == 1 and up[0][0].kind == "param" and up[0][0].info == p_in[0]
        body = f.fn(cl.rv["path"])
        if body is not None:
            ctx.analysed(body)
            be = body.calls("encode::best_encoding")
            rets = body.origins({"k": "copy", "p": {"l": 0, "proj": []}}, _ret_point(body)) if be else []
            ret_ok = len(rets) == 1 and rets[0].kind == "call" and rets[0].callee() == "encode::best_encoding"
            arg_ok = False
            if be:
                ao = body.origins(be[0].args[0], be[0].point)
                # the closure's only upvar, dereferenced
                arg_ok = len(ao) == 1 and ao[0].kind == "param" and ao[0].info == 1
            auto_ok = up_ok and ret_ok and arg_ok
            detail = dict(upvar_is_input=up_ok, returns_best_encoding=ret_ok, arg_is_capture=arg_ok)
    elif r["default"]:
        d = r["default"]
        if len(d) == 1 and d[0].kind == "call" and d[0].callee() == "encode::best_encoding":
            ao = fn.origins(d[0].info.call["args"][0], d[0].point)
            auto_ok = len(ao) == 1 and ao[0].kind == "param" and ao[0].info == p_in[0]
            detail = [x.describe(fn) for x in ao]
    ctx.check(rid, auto_ok, fn.path + "/auto-mode", fn.where(r["point"]), fn.path, "automatic mode",
              "the automatic mode is not best_encoding of the input being encoded", found=detail,
              sample="automatic mode = best_encoding(input)")


def _ret_point(fn):
    for b in fn.blocks:
        if not b["cleanup"] and b["term"] and b["term"]["k"] == "ret":
            return (b["id"], len(b["stmts"]))
    return (0, 0)


def ret_points(fn):
    return [(b["id"], len(b["stmts"])) for b in fn.blocks if not b["cleanup"] and b["term"] and b["term"]["k"] == "ret"]


# ---------------------------------------------------------------------------
# C01.R2 stage chaining
# ---------------------------------------------------------------------------

def c01_r2(ctx, f):
    rid = "C01.R2"
    ctx.rule(rid, "stage chaining: encode -> structure -> bit string of 8*total+remainder -> placement")
    fn = anchor_fn(ctx, rid, f, "placement::create_matrix")
    if not fn:
        return
    enc = fn.calls("encode::encode")
    stc = fn.calls("polynomials::structure")
    fa = fn.calls("compact::CompactQR::from_array")
    pm = fn.calls("placement::place_on_matrix")
    if not (len(enc) == 1 and len(stc) == 1 and len(fa) == 1 and len(pm) == 1):
        ctx.anchor_missing(rid, "encode/structure/from_array/place_on_matrix calls in placement::create_matrix")
        return
    ctx.analysed(fn, 4)
    p_in = fn.params_of_type("&[u8]")
    # encode(input, ..)
    o = fn.origins(enc[0].args[0], enc[0].point)
    ctx.check(rid, len(o) == 1 and o[0].kind == "param" and o[0].info in p_in, fn.path + "/encode-input", enc[0].where(), fn.path,
              "input of encode", "the bytes encoded are not the caller's input", found=[x.describe(fn) for x in o],
              sample="encode(input, ..)")
    # structure(data = encode result's data)
    e = fn.canon(stc[0].args[0], stc[0].point)
    enc_def = [d for d in fn.defs()[0] if d.kind == "calldest" and d.point == enc[0].point][0]
    ok = contains(e, ("def", enc_def.id)) and not [x for x in subexprs(e) if x[0] == "def" and x[1] != enc_def.id] \
        and any(x[0] == "call" and x[1] == "compact::CompactQR::get_data" for x in subexprs(e))
    ctx.check(rid, ok, fn.path + "/structure-data", stc[0].where(), fn.path, "data passed to structure",
              "error correction is not computed over the codewords produced by encode", found=expr_str(e, fn),
              sample="structure(encode(..).get_data(), ..)")
    # from_array(&structure, 8*max_bytes(v)+missing_bits(v))
    a0 = fn.canon(fa[0].args[0], fa[0].point)
    st_def = [d for d in fn.defs()[0] if d.kind == "calldest" and d.point == stc[0].point][0]
    ctx.check(rid, contains(a0, ("def", st_def.id)), fn.path + "/bitstring-source", fa[0].where(), fn.path,
              "bytes of the placed bit string", "the bit string placed is not built from structure's output",
              found=expr_str(a0, fn), sample="from_array(&structure, ..)")
    a1 = fn.canon(fa[0].args[1], fa[0].point)
    pv = fn.params_of_type(VERSION)
    vexp = ("param", pv[0]) if len(pv) == 1 else None
    mb = ("call", "version::Version::max_bytes", (vexp,))
    ms = ("call", "version::Version::missing_bits", (vexp,))

    def is_len(e):
        if e[0] in ("ovf", "bin") and e[1] == "Add":
            x, y = e[2], e[3]
            for p, q in ((x, y), (y, x)):
                if q == ms and p[0] in ("ovf", "bin") and p[1] == "Mul":
                    m1, m2 = p[2], p[3]
                    if (m1 == mb and m2[0] == "K" and m2[1] == 8) or (m2 == mb and m1[0] == "K" and m1[1] == 8):
                        return True
        return False

    ctx.check(rid, is_len(a1), fn.path + "/bitstring-len", fa[0].where(), fn.path, "length of the placed bit string",
              "bit string length is not 8*max_bytes(version) + missing_bits(version) of the version being built",
              expected="max_bytes(version)*8 + missing_bits(version)", found=expr_str(a1, fn),
              sample="len = max_bytes(v)*8 + missing_bits(v)")
    # place_on_matrix(&bitstring, ..)
    b0 = fn.canon(pm[0].args[0], pm[0].point)
    fa_def = [d for d in fn.defs()[0] if d.kind == "calldest" and d.point == fa[0].point][0]
    ctx.check(rid, contains(b0, ("def", fa_def.id)), fn.path + "/placed-source", pm[0].where(), fn.path,
              "bit string passed to place_on_matrix", "placement does not receive the structured bit string",
              found=expr_str(b0, fn), sample="place_on_matrix(&structure_binstring, ..)")
    # inside place_on_matrix: data placed on the blank matrix of the same version
    g = anchor_fn(ctx, rid, f, "placement::place_on_matrix")
    if g:
        dm = g.calls("default::create_matrix")
        pd = g.calls("placement::place_on_matrix_data")
        if len(dm) == 1 and len(pd) == 1:
            qo = g.origins(pd[0].args[0], pd[0].point)
            ok = len(qo) == 1 and qo[0].kind == "ref" and g.single_def(qo[0].info.rv["p"]["l"], pd[0].point) is not None
            if ok:
                # the local borrowed is the one initialised by default::create_matrix
                l = qo[0].info.rv["p"]["l"]
                ds = [d for d in g.reaching(l, pd[0].point)]
                ok = len(ds) == 1 and ds[0].kind == "calldest" and ds[0].point == dm[0].point
            ctx.check(rid, ok, g.path + "/blank-matrix", pd[0].where(), g.path, "matrix passed to place_on_matrix_data",
                      "codewords are not placed on the freshly built blank symbol", found=[x.describe(g) for x in qo],
                      sample="place_on_matrix_data(&mut create_matrix(version), bits)")
            so = g.origins(pd[0].args[1], pd[0].point)
            ctx.check(rid, len(so) == 1 and so[0].kind == "param", g.path + "/bits", pd[0].where(), g.path,
                      "bit string passed to place_on_matrix_data", "the bits placed are not the caller's bit string",
                      found=[x.describe(g) for x in so], sample="place_on_matrix_data(.., param bits)")
            # the returned matrix is that same local
            ro = [o for rp in ret_points(g) for o in g.origins({"k": "copy", "p": {"l": 0, "proj": []}}, rp, hide_weak=True)]
            okr = bool(ro) and all(o.kind == "call" and o.point == dm[0].point for o in ro)
            ctx.check(rid, okr, g.path + "/returned-matrix", where_fn(g), g.path, "returned matrix",
                      "the matrix returned is not the one data were placed on (e.g. a scoring copy)",
                      found=[x.describe(g) for x in ro], sample="returns the matrix built by create_matrix")
        else:
            ctx.anchor_missing(rid, "create_matrix / place_on_matrix_data calls in place_on_matrix")


# ---------------------------------------------------------------------------
# C04.R1 one mask value
# ---------------------------------------------------------------------------

def c04_r1(ctx, f):
    rid = "C04.R1"
    ctx.rule(rid, "one mask value: format info, applied mask, out-parameter and reported mask agree")
    fn = anchor_fn(ctx, rid, f, "placement::place_on_matrix")
    if not fn:
        return
    fi = fn.calls("default::create_matrix_format_info")
    ms = [c for c in fn.calls("datamasking::mask") if not fn.in_loop(c.block)]
    if len(fi) != 1 or len(ms) != 1:
        ctx.anchor_missing(rid, "format-info call / final mask call in place_on_matrix")
        return
    ctx.analysed(fn, 2)
    sinks = []
    for c, what in ((fi[0], "mask written in the format information"), (ms[0], "mask applied to the symbol")):
        ops = [a for a in c.args if a.get("ty") == MASK]
        if len(ops) != 1:
            ctx.anchor_missing(rid, "Mask operand of " + c.name)
            continue
        sinks.append((what, fn.origins(ops[0], c.point), c.where(), sink_key(c.name)))
    # stores of Option<Mask>: out-parameter and qr.mask
    for b in fn.blocks:
        if b["cleanup"]:
            continue
        for i, st in enumerate(b["stmts"]):
            if st["k"] == "assign" and st["p"]["proj"] and st.get("pty") == OPT % MASK and st["rv"]["k"] == "use":
                o = fn.origins(st["rv"]["op"], (b["id"], i))
                inner = []
                for x in o:
                    if x.kind == "agg" and x.info.rv.get("variant") == "Some":
                        inner += fn.origins(x.info.rv["ops"][0], x.point)
                    else:
                        inner.append(x)
                tgt = "reported qr.mask" if any(isinstance(e, dict) and e.get("name") == "mask" for e in st["p"]["proj"]) \
                    else "mask out-parameter"
                sinks.append((tgt, inner, fn.where((b["id"], i)), sink_key(tgt)))
    ctx.floor(rid, "mask sinks", len(sinks), 4)
    ref_keys = None
    for what, orgs, where, sk in sinks:
        keys = {o.key() for o in orgs}
        if ref_keys is None:
            ref_keys = keys
            ctx.check(rid, len(keys) == 1, fn.path + "/" + sk, where, fn.path, what,
                      "the mask value has more than one source here", found=[o.describe(fn) for o in orgs],
                      sample="%s <- %s" % (what, [o.describe(fn) for o in orgs]))
        else:
            ctx.check(rid, keys == ref_keys, fn.path + "/" + sk, where, fn.path, what,
                      "this sink receives a different mask value than the format information: the symbol would be "
                      "un-masked with the wrong pattern", expected=sorted(map(str, ref_keys)), found=[o.describe(fn) for o in orgs],
                      sample="%s <- %s" % (what, [o.describe(fn) for o in orgs]))
    # format info is written with the level parameter
    lv = [a for a in fi[0].args if a.get("ty") == ECL]
    if lv:
        o = fn.origins(lv[0], fi[0].point)
        ctx.check(rid, len(o) == 1 and o[0].kind == "param", fn.path + "/format-level", fi[0].where(), fn.path,
                  "level written in the format information", "format information carries a different level",
                  found=[x.describe(fn) for x in o], sample="format info level = param quality")
    # both operate on the returned matrix
    for c, what in ((fi[0], "format-info"), (ms[0], "final-mask")):
        qo = fn.origins(c.args[0], c.point)
        ro = [o for rp in ret_points(fn) for o in fn.origins({"k": "copy", "p": {"l": 0, "proj": []}}, rp, hide_weak=True)]
        same = len(qo) == 1 and qo[0].kind == "ref" and ro and all(
            o.kind == "call" and [d for d in fn.reaching(qo[0].info.rv["p"]["l"], c.point) if d.strong][0].point == o.point for o in ro)
        ctx.check(rid, bool(same), fn.path + "/target/" + what, c.where(), fn.path, what + " target",
                  "%s is applied to a different matrix than the one returned" % what, found=[x.describe(fn) for x in qo],
                  sample="%s applied to the returned matrix" % what)
    # order: format info before or after masking is immaterial (format modules are never toggled, C08.R1)


# ---------------------------------------------------------------------------
# C08.R1 / C03.R1 guarded module writes
# ---------------------------------------------------------------------------

WRITE_EXEMPT_PREFIX = ("default::", "module::")


def module_writes(fn):
    """(kind, place_canon, point, description) for every write to a Module in fn"""
    out = []
    for c in fn.calls("module::Module::set", "module::Module::toggle"):
        e = fn.canon(c.args[0], c.point)
        out.append((c.name.split("::")[-1], strip_ref1(e), c.point, "%s()" % c.name.split("::")[-1]))
    for b in fn.blocks:
        if b["cleanup"]:
            continue
        for i, st in enumerate(b["stmts"]):
            if st["k"] != "assign" or not st["p"]["proj"]:
                continue
            p = st["p"]
            pty = st.get("pty")
            through_mem = any(e == "deref" or (isinstance(e, dict) and ("idx" in e or "cidx" in e)) for e in p["proj"])
            if pty == "module::Module" and through_mem:
                out.append(("assign", fn.canon_place(p, (b["id"], i)), (b["id"], i), "assignment of a Module"))
            elif pty == "u8" and through_mem:
                # `(*m).0 = ..` raw byte of a module
                base = fn.canon_place({"l": p["l"], "proj": p["proj"][:-1]}, (b["id"], i))
                last = p["proj"][-1]
                if isinstance(last, dict) and "f" in last and _place_ty_is_module(fn, p):
                    out.append(("assign", base, (b["id"], i), "assignment of a Module's byte"))
    return out


def _place_ty_is_module(fn, p):
    # conservative: the byte belongs to a Module if the place without its last field projection is typed Module;
    # the driver gives only the full place type, so look at the local's type tree
    t = fn.locals[p["l"]]["tyt"]
    for e in p["proj"][:-1]:
        if e == "deref" and t["k"] in ("ref", "ptr"):
            t = t["inner"]
        elif isinstance(e, dict) and ("idx" in e or "cidx" in e) and t["k"] in ("array", "slice"):
            t = t["inner"]
        else:
            return False
    return t["k"] == "adt" and t["path"] == "module::Module"


def strip_ref1(e):
    return e[1] if isinstance(e, tuple) and e and e[0] == "ref" else ("deref", e)


def is_data_guard(fn, f, place, block, depth=0):
    """is `block` edge-dominated by module_type(place) == Data ?"""
    mt = ("call", "module::Module::module_type", (place,))
    data_discr = 0
    vs = f.enum_variants(MTYPE) or []
    for n, d in vs:
        if n == "Data":
            data_discr = d
    seen = []
    for cond, pol, s in fn.guards_of(block):
        seen.append("%s is %s" % (expr_str(cond, fn), pol))
        if cond[0] == "call" and cond[1] in ("eq", "ne"):
            a, b = cond[2]
            want = (cond[1] == "eq") == pol
            for x, y in ((a, b), (b, a)):
                if strip_refs(x) == mt and is_const_variant(y, "Data") and want:
                    return True, seen
        # crate helper predicate: fn(&Module|Module) -> bool whose body is module_type(arg) == Data
        if cond[0] == "def":
            d = def_of(fn, cond[1])
            if d.call is not None and pol is True:
                name = d.call.get("callee")
                h = f.fn(name) if name else None
                if h is not None and h.raw.get("output") == "bool" and len(d.call["args"]) == 1 and depth == 0:
                    arg = fn.canon(d.call["args"][0], d.point)
                    if strip_refs(arg) == strip_refs(place) or arg == place or strip_ref1(arg) == place:
                        if _helper_is_data_test(h, f):
                            return True, seen
    for cd, how, s in fn.switch_guards(block):
        if cd[0] == "discr" and cd[1] == mt and how == ("eq", data_discr):
            return True, seen
        if cd[0] == "discr" and strip_refs(cd[1]) == mt and how == ("eq", data_discr):
            return True, seen
        seen.append("%s %s" % (expr_str(cd, fn), how))
    return False, seen


def _helper_is_data_test(h, f):
    """every return of h yields the truth of module_type(param) == Data"""
    rps = ret_points(h)
    if len(rps) != 1:
        return False
    e = h.canon({"k": "copy", "p": {"l": 0, "proj": []}}, rps[0])
    if e[0] == "call" and e[1] == "eq":
        a, b = e[2]
        for x, y in ((a, b), (b, a)):
            sx = strip_refs(x)
            if sx[0] == "call" and sx[1] == "module::Module::module_type" and strip_refs(sx[2][0]) == ("param", 1) \
                    and is_const_variant(y, "Data"):
                return True
    return False


def c08_r1(ctx, f, rid="C08.R1", roots=None):
    ctx.rule(rid, "every module write outside blank-symbol construction is guarded by type == Data on the same place")
    n = 0
    by_fn = {}
    for fn in f.all_fns():
        if fn.path.startswith(WRITE_EXEMPT_PREFIX):
            continue
        if fn.raw["kind"] == "Closure" and fn.raw.get("parent", "").startswith(WRITE_EXEMPT_PREFIX):
            continue
        ws = module_writes(fn)
        if not ws:
            continue
        ctx.analysed(fn, len(ws))
        # instance numbering per function and kind, in source order
        counter = {}
        for kind, place, pt, desc in sorted(ws, key=lambda w: (fn.line_of(w[2]) or 0, w[2])):
            k = counter.get(kind, 0)
            counter[kind] = k + 1
            n += 1
            ok, seen = is_data_guard(fn, f, place, pt[0])
            by_fn[fn.path] = by_fn.get(fn.path, 0) + 1
            ctx.check(rid, ok, "%s/%s#%d" % (fn.path, kind, k), fn.where(pt), fn.path,
                      "%s on %s" % (desc, expr_str(place, fn)),
                      "a module is written without a dominating `module_type() == Data` test of that same module: "
                      "function patterns could be altered by data placement or masking",
                      expected="true edge of module_type(%s) == Data" % expr_str(place, fn), found=seen,
                      sample="%s: %s guarded by module_type == Data" % (fn.path, expr_str(place, fn)))
    ctx.inventory["guarded_write_sites"] = by_fn
    ctx.floor(rid, "module write sites outside default::", n, 12)
    return n


def c03_r2(ctx, f):
    rid = "C03.R2"
    ctx.rule(rid, "who may write: QRCode.data is mutably borrowed / size is stored only by the owner or by code whose writes are "
                  "decided exactly; rows handed out are data[i*size .. (i+1)*size]")
    allowed = {"<qr::QRCode as std::ops::IndexMut<usize>>::index_mut", "qr::QRCode::default"}
    exact_prefixes = ("default::", "datamasking::", "placement::place_on_matrix_data")  # write sets decided by C03.R3/C04.R3/C08.R4/C01.R5
    n = 0

    def flows_out(fn, l):
        """the QRCode held in local l is the function's result or belongs to the caller"""
        if l in fn.params():
            return True
        for bb in fn.blocks:
            if bb["cleanup"] or bb["term"]["k"] != "ret":
                continue
            pt = (bb["id"], len(bb["stmts"]))
            try:
                sl = fn.deps({"k": "copy", "p": {"l": 0, "proj": []}}, pt)
                if l in getattr(sl, "locals", set()):
                    return True
            except Exception:  # noqa: BLE001
                return True
            for o in fn.origins({"k": "copy", "p": {"l": 0, "proj": []}}, pt):
                if o.kind in ("local", "param") and o.info == l:
                    return True
        # conservative: a local copied/moved into the return place anywhere
        for bb in fn.blocks:
            if bb["cleanup"]:
                continue
            for st in bb["stmts"]:
                if st["k"] == "assign" and st["p"]["l"] == 0:
                    rv = st["rv"]
                    ops = [rv.get("op")] + list(rv.get("ops") or [])
                    for o in ops:
                        if isinstance(o, dict) and o.get("k") in ("copy", "move") and o["p"]["l"] == l:
                            return True
        return False

    def classify(fn, place, what, pt):
        nonlocal n
        n += 1
        key = "%s/%s" % (fn.path, what)
        if fn.path in allowed:
            ctx.ok(rid, "%s %s (owner)" % (fn.path, what))
        elif fn.path.startswith(exact_prefixes):
            ctx.ok(rid, "%s %s (its write set is decided exactly by partial evaluation)" % (fn.path, what))
        elif not flows_out(fn, place["l"]):
            ctx.ok(rid, "%s %s on a scratch matrix that never leaves the function" % (fn.path, what))
        else:
            ctx.abstain(rid, "%s: %s of the matrix being built, outside the row accessor and outside the code whose write set "
                             "is decided exactly: %s" % (key, what, place_str(place)), fn.where(pt))

    for fn in f.all_fns():
        for b in fn.blocks:
            if b["cleanup"]:
                continue
            for i, st in enumerate(b["stmts"]):
                if st["k"] != "assign":
                    continue
                rv = st["rv"]
                if rv["k"] in ("ref", "rawptr") and (rv.get("mut") or rv["k"] == "rawptr" and "Mut" in rv.get("kind", "")):
                    if _touches_field(fn, rv["p"], "qr::QRCode", "data"):
                        classify(fn, rv["p"], "mut-borrow-data", (b["id"], i))
                p = st["p"]
                if p["proj"]:
                    for fld in ("data", "size"):
                        if _touches_field(fn, p, "qr::QRCode", fld):
                            classify(fn, p, "store-" + fld, (b["id"], i))
    # rows handed out are size-long: data[index*size .. (index+1)*size], compared as polynomials
    from . import poly
    for path in ("<qr::QRCode as std::ops::IndexMut<usize>>::index_mut", "<qr::QRCode as std::ops::Index<usize>>::index"):
        fn = anchor_fn(ctx, rid, f, path)
        if not fn:
            continue

        def ren(x):
            if x[0] == "field" and x[3] == "size":
                return "size"
            if x == ("param", 2):
                return "index"
            return None
        ok = False
        found = None
        for b in fn.blocks:
            if b["cleanup"]:
                continue
            for i, st in enumerate(b["stmts"]):
                if st["k"] == "assign" and st["rv"]["k"] == "agg" and st["rv"].get("path") == "std::ops::Range":
                    lo = poly.normalise(fn.canon(st["rv"]["ops"][0], (b["id"], i)), ren)
                    hi = poly.normalise(fn.canon(st["rv"]["ops"][1], (b["id"], i)), ren)
                    found = "%s..%s" % (lo.show(), hi.show())
                    idx, size = poly.A("index"), poly.A("size")
                    ok = lo == idx * size and hi == (idx + poly.C(1)) * size
        if found is None:
            ctx.abstain(rid, "%s does not slice the backing array with a Range" % path, where_fn(fn))
            continue
        ctx.check(rid, ok, fn.path + "/row-range", where_fn(fn), fn.path, "row slice",
                  "a row is not the slice data[i*size .. (i+1)*size]", expected="index*size..(index+1)*size", found=found,
                  sample="%s -> data[%s]" % (path.split("::")[-1], found))
    ctx.floor(rid, "data/size write or borrow sites", n, 1)


def _touches_field(fn, p, adt, field):
    t = fn.locals[p["l"]]["tyt"]
    for e in p["proj"]:
        if e == "deref":
            if t["k"] in ("ref", "ptr"):
                t = t["inner"]
            else:
                return False
        elif isinstance(e, dict) and "f" in e:
            if t["k"] == "adt" and t["path"] == adt and e.get("name") == field:
                return True
            return False
        else:
            return False
    return False


# ---------------------------------------------------------------------------
# C11 mask selection
# ---------------------------------------------------------------------------

def c11_rules(ctx, f):
    r1, r2, r3, r4, r5 = "C11.R1", "C11.R2", "C11.R3", "C11.R4", "C11.R5"
    ctx.rule(r1, "all eight masks are tried")
    ctx.rule(r2, "each candidate is ranked by its own penalty (every score argument depends on the masked candidate)")
    ctx.rule(r3, "argmin: best mask updated only on score < best, with the candidate scored")
    ctx.rule(r4, "a forced mask overrides the selection")
    ctx.rule(r5, "total penalty sums all five components")
    fn = anchor_fn(ctx, r1, f, "placement::place_on_matrix")
    if not fn:
        return
    sc = [c for c in fn.calls("score::score") if fn.in_loop(c.block)]
    mk = [c for c in fn.calls("datamasking::mask") if fn.in_loop(c.block)]
    if len(sc) != 1 or len(mk) != 1:
        for r_ in (r1, r2, r3, r4):
            ctx.abstain(r_, "mask selection is not a loop containing one datamasking::mask and one score::score call (iterator adaptor, "
                            "closure or helper): not recognised", where_fn(fn))
        return
    ctx.analysed(fn, 2)
    sc, mk = sc[0], mk[0]
    # ---- R1: the loop variable is the payload of next() on into_iter(const MASKS)
    mop = [a for a in mk.args if a.get("ty") == MASK][0]
    lo = fn.origins(mop, mk.point)
    decided = False
    if len(lo) == 1 and lo[0].kind == "call" and (lo[0].callee() or "").endswith("::next"):
        it = fn.origins(lo[0].info.call["args"][0], lo[0].point)
        if len(it) == 1 and it[0].kind == "ref":
            iter_local = it[0].info.rv["p"]["l"]
            src = fn.origins({"k": "copy", "p": {"l": iter_local, "proj": []}}, lo[0].point, hide_weak=True)
            if len(src) == 1 and src[0].kind == "call" and (src[0].info.call.get("declared") or "").endswith("IntoIterator::into_iter"):
                arr = fn.origins(src[0].info.call["args"][0], src[0].point)
                if len(arr) == 1 and arr[0].kind == "const" and isinstance(arr[0].info.get("val"), list):
                    decided = True
                    vals = arr[0].info["val"]
                    ok = len(vals) == 8 and set(vals) == set(ref.MASKS)
                    ctx.check(r1, ok, fn.path + "/candidates", fn.where(src[0].point), fn.path, "iterated mask set",
                              "the selection loop does not iterate the eight distinct patterns", expected=ref.MASKS, found=vals,
                              sample="for mask in %s (%d distinct)" % (arr[0].info.get("item"), len(set(vals))))
                elif len(arr) == 1 and arr[0].kind == "call":
                    # an adaptor between the constant and the loop (take/skip/filter/..)
                    decided = True
                    ctx.fail(r1, fn.path + "/candidates", fn.where(src[0].point), fn.path, "iterated mask set",
                             "the candidate list passes through %s before the loop: not all eight patterns are tried" % arr[0].callee(),
                             found=arr[0].describe(fn))
    if not decided:
        ctx.abstain(r1, "selection loop is not `for mask in <constant array>`; iterated set not recognised", mk.where())
    loopvar_keys = {o.key() for o in lo}
    # ---- R2
    for i, a in enumerate(sc.args):
        sl = fn.deps(a, sc.point)
        hit = False
        for blk, t in sl.calls:
            if (t.get("callee") or t.get("declared")) == "datamasking::mask" and blk == mk.block:
                hit = True
        pth = sorted({(t.get("callee") or t.get("declared") or "?").split("::")[-1] + "@%s" % t.get("line") for _, t in sl.calls})
        ctx.check(r2, hit, "%s/score.arg%d" % (fn.path, i), sc.where(), fn.path, "arg#%d of score::score" % i,
                  "no data dependence on the masked candidate (`datamasking::mask(.., mask)` of this iteration): this part of "
                  "the penalty is identical for all eight candidates", found="defs: " + ", ".join(pth),
                  sample="score arg#%d depends on mask(copy, mask)" % i)
    # the candidate scored is the one masked with the loop variable
    ctx.check(r2, len(lo) >= 1 and all(o.kind == "call" for o in lo), fn.path + "/candidate-mask", mk.where(), fn.path,
              "mask applied to the candidate", "the candidate is not masked with the loop's pattern",
              found=[o.describe(fn) for o in lo], sample="candidate masked with the loop variable")
    # ---- R3
    sdef = [d for d in fn.defs()[0] if d.kind == "calldest" and d.point == sc.point][0]
    test = None
    for b in range(fn.n):
        if not fn.live[b]:
            continue
        bt = fn.bool_test(b)
        if not bt:
            continue
        c = fn.canon(bt[0], bt[3])
        if c[0] == "bin" and c[1] in ("Lt", "Le", "Gt", "Ge") and (contains(c[2], ("def", sdef.id)) or contains(c[3], ("def", sdef.id))):
            test = (b, c, bt)
    if not test:
        ctx.abstain(r3, "no comparison of the candidate's score found", sc.where())
    else:
        b, c, bt = test
        left_is_score = contains(c[2], ("def", sdef.id))
        # best = the other side: a phi of (u32::MAX, score)
        other = c[3] if left_is_score else c[2]
        # polarity for 'update': score < best  (or <=)
        good_true = (c[1] in ("Lt", "Le")) if left_is_score else (c[1] in ("Gt", "Ge"))
        good_false = (c[1] in ("Ge", "Gt")) if left_is_score else (c[1] in ("Le", "Lt"))
        # assignments to Mask-typed locals inside the loop fed by the loop variable
        updates = []
        for blk in fn.blocks:
            if blk["cleanup"] or not fn.in_loop(blk["id"]):
                continue
            for i, st in enumerate(blk["stmts"]):
                if st["k"] == "assign" and not st["p"]["proj"] and st.get("pty") == MASK and fn.locals[st["p"]["l"]]["kind"] == "var" \
                        and st["rv"]["k"] == "use" and st["rv"]["op"]["k"] in ("copy", "move"):
                    og = fn.origins(st["rv"]["op"], (blk["id"], i))
                    if {o.key() for o in og} == loopvar_keys and fn.local_name(st["p"]["l"]) != fn.local_name(mop["p"]["l"]):
                        updates.append((blk["id"], i, st))
        updates = [u for u in updates if fn.dominates(b, u[0]) and u[0] != b]
        if not updates:
            ctx.abstain(r3, "no update of a best-mask variable from the loop variable found", fn.where(bt[3]))
        for ub, ui, st in updates:
            pol = None
            for cond, p, s in fn.guards_of(ub):
                if s == b:
                    pol = p
            ok = (pol is True and good_true) or (pol is False and good_false)
            ctx.check(r3, ok, fn.path + "/update-guard", fn.where((ub, ui)), fn.path,
                      "update of `%s`" % fn.local_name(st["p"]["l"]),
                      "the best mask is replaced when the candidate's penalty is NOT lower (or unconditionally)",
                      expected="on the edge where score < best", found="%s is %s" % (expr_str(c, fn), pol),
                      sample="best mask updated on %s" % expr_str(c, fn))
        # best score initial value and update
        bl = [x for x in subexprs(other) if x[0] == "phi"]
        if bl:
            l = bl[0][1]
            og = fn.origins({"k": "copy", "p": {"l": l, "proj": []}}, bt[3])
            kinds = set()
            for o in og:
                if o.kind == "const" and o.info.get("val") == 0xFFFFFFFF:
                    kinds.add("max")
                elif o.kind == "call" and o.info.id == sdef.id:
                    kinds.add("score")
                else:
                    kinds.add("other:" + o.describe(fn))
            ctx.check(r3, kinds == {"max", "score"}, fn.path + "/best-score", fn.where(bt[3]), fn.path,
                      "running best score `%s`" % fn.local_name(l),
                      "the running minimum is not initialised to u32::MAX and updated with the candidate's score",
                      found=sorted(kinds), sample="best_score in {u32::MAX, score}")
        else:
            ctx.abstain(r3, "running best score not recognised as a loop-carried variable", fn.where(bt[3]))
    # ---- R4
    fm = [c for c in fn.calls("datamasking::mask") if not fn.in_loop(c.block)]
    pm = [l for l in fn.params() if fn.locals[l]["ty"] == "&mut " + OPT % MASK]
    pv = [l for l in fn.params() if fn.locals[l]["ty"] == OPT % MASK]
    if len(fm) == 1 and len(pm) + len(pv) == 1:
        op = [a for a in fm[0].args if a.get("ty") == MASK][0]
        r = option_resolution(fn, op, fm[0].point)
        want_info = -pm[0] if pm else pv[0]
        ok = bool(r) and r["option"].kind == "param" and r["option"].info == want_info and not r["option"].proj
        ctx.check(r4, ok, fn.path + "/forced-mask", fm[0].where(), fn.path, "mask finally applied",
                  "the mask applied is not `caller's forced mask, else the selected one`",
                  found=[o.describe(fn) for o in fn.origins(op, fm[0].point)], sample="final mask = mask.%s(best)" % (r["form"] if r else "?"))
        if ok and r["default"] is not None:
            dk = {o.key() for o in r["default"]}
            ctx.check(r4, loopvar_keys <= dk, fn.path + "/selected-mask", fn.where(r["point"]), fn.path, "fallback when no mask is forced",
                      "the fallback is not the loop's selected mask", found=[o.describe(fn) for o in r["default"]],
                      sample="fallback = best mask of the loop")
    else:
        ctx.anchor_missing(r4, "final mask call / &mut Option<Mask> parameter")
    # ---- R5
    g = anchor_fn(ctx, r5, f, "score::score")
    if g:
        rps = ret_points(g)
        e = g.canon({"k": "copy", "p": {"l": 0, "proj": []}}, rps[0]) if len(rps) == 1 else None
        leaves = []

        def walk(x):
            if x[0] in ("ovf", "bin") and x[1] == "Add":
                walk(x[2])
                walk(x[3])
            else:
                leaves.append(x)

        if e is None:
            ctx.abstain(r5, "score has several returns", where_fn(g))
        else:
            walk(e)
            names = []
            for lf in leaves:
                if lf[0] == "def":
                    names.append(call_name_of_def(g, lf[1]) or "?")
                elif lf[0] == "field" and lf[1][0] == "def":
                    names.append("%s.%d" % (call_name_of_def(g, lf[1][1]), lf[2]))
                else:
                    names.append("non-additive:" + expr_str(lf, g))
            want = ["score::dark_module_score", "score::matrix_score_squares", "score::matrix_pattern_and_line.0",
                    "score::matrix_pattern_and_line.1", "score::matrix_pattern_and_line.2"]
            if not any(w in names for w in want):
                # the total is not written as a sum of the component calls (sum over an array, an accumulator type, ..)
                ctx.abstain(r5, "the total penalty is not an addition of the component calls: %s" % names[:3], where_fn(g))
                want = []
            for w in want:
                ctx.check(r5, names.count(w) == 1, g.path + "/term/" + w.split("::")[-1], where_fn(g), g.path, w,
                          "this penalty component is not added exactly once to the total", found=names,
                          sample="total includes %s" % w.split("::")[-1])
            extra = [n for n in names if n not in want]
            ctx.check(r5, not extra, g.path + "/extra-terms", where_fn(g), g.path, "other terms",
                      "the total contains something other than the five documented components", found=extra)
            # each component is computed on the candidate (param 1), columns on the transposed candidate (param 2)
            for c in g.calls("score::dark_module_score", "score::matrix_score_squares", "score::matrix_pattern_and_line"):
                for i, a in enumerate(c.args):
                    o = g.origins(a, c.point)
                    exp = 1 if i == 0 else 2
                    ctx.check(r5, len(o) == 1 and o[0].kind == "param" and o[0].info == exp,
                              "%s/arg/%s#%d" % (g.path, c.name.split("::")[-1], i), c.where(), g.path,
                              "arg#%d of %s" % (i, c.name), "component is not computed on the corresponding matrix parameter",
                              found=[x.describe(g) for x in o], sample="%s(param %d)" % (c.name.split("::")[-1], exp))
