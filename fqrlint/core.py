"""Check context: obligations, violations, abstentions, evidence, known findings."""
import json
import os
import re
import sys
import time

from . import facts as factsmod

VERIF = factsmod.VERIF
EVIDENCE_DIR = os.path.join(VERIF, "evidence")
REPLAY_DIR = os.path.join(EVIDENCE_DIR, "replay")
KNOWN_FILE = os.path.join(VERIF, "known_findings.json")


class Violation:
    def __init__(self, rule, key, where, fn, instance, reason, expected=None, found=None, title=None, path=None):
        self.rule = rule
        self.key = key
        self.where = where
        self.fn = fn
        self.instance = instance
        self.reason = reason
        self.expected = expected
        self.found = found
        self.title = title
        self.path = path

    def to_json(self):
        return {k: v for k, v in self.__dict__.items() if v is not None}


class AnchorMissing(Exception):
    def __init__(self, rule, what):
        self.rule = rule
        self.what = what


class Ctx:
    def __init__(self, prop, tier="quick", seed=0, repo=None):
        self.prop = prop
        self.tier = tier
        self.seed = seed
        self.repo = repo
        self.t0 = time.time()
        self.rules = {}  # rule id -> {"title", "obligations", "discharged", "undecided", "samples"}
        self.violations = []
        self.undecided = []
        self.configs = {}
        self.functions = set()
        self.callsites = 0
        self.notes = []
        self.inventory = {}
        self.assumptions = []
        self.cur_rule = None
        self.config_suffix = ""
        self._und_seen = set()
        self.subsets = []  # parts of a finite space this run did not enumerate completely (quick-tier version subsets, lattices)

    # ----------------------------------------------------------------- facts
    def facts(self, config):
        config = config + self.config_suffix
        f = factsmod.get(config, self.repo)
        self.configs[config] = {
            "cfgs": f.meta["cfgs"],
            "functions": len(f.fns),
            "sources": dict((a, b) for a, b in f.meta["sources"]),
            "extract_s": f.meta.get("extract_s"),
        }
        return f

    # ----------------------------------------------------------------- rules
    def rule(self, rid, title):
        self.cur_rule = rid
        if rid not in self.rules:
            self.rules[rid] = {"title": title, "obligations": 0, "discharged": 0, "undecided": 0, "samples": []}
        return self.rules[rid]

    def analysed(self, fn, callsites=0):
        if fn is not None:
            self.functions.add(fn.path if hasattr(fn, "path") else str(fn))
        self.callsites += callsites

    def ok(self, rid, sample=None, n=1):
        r = self.rules[rid]
        r["obligations"] += n
        r["discharged"] += n
        if sample is not None and len(r["samples"]) < 4:
            r["samples"].append(sample)

    def fail(self, rid, key, where, fn, instance, reason, expected=None, found=None, path=None):
        und = _undecided_fold(found)
        if und:
            # the function under the rule could not be folded (code outside the folder's language): that is not evidence of a
            # defect.  One abstention per (rule, reason).
            tag = (rid, und[:160])
            if tag not in self._und_seen:
                self._und_seen.add(tag)
                self.abstain(rid, "%s: not foldable (%s), e.g. %s" % (fn, und[:200], instance), where)
            else:
                self.rules[rid]["obligations"] += 1
                self.rules[rid]["undecided"] += 1
            return
        r = self.rules[rid]
        r["obligations"] += 1
        self.violations.append(
            Violation(rid, "%s/%s" % (rid, key), where, fn, instance, reason, expected, found, r["title"], path)
        )

    def check(self, rid, cond, key, where, fn, instance, reason, expected=None, found=None, sample=None):
        if cond:
            self.ok(rid, sample)
        else:
            self.fail(rid, key, where, fn, instance, reason, expected, found)
        return cond

    def subset(self, rid, what):
        """this run covers only part of a finite space for rule rid (stated, so that `exhaustive` is honest)"""
        s = "%s: %s" % (rid, what)
        if s not in self.subsets:
            self.subsets.append(s)

    def abstain(self, rid, reason, where=None):
        r = self.rules[rid]
        r["obligations"] += 1
        r["undecided"] += 1
        self.undecided.append({"rule": rid, "reason": reason, "where": where})

    def anchor_missing(self, rid, what):
        """fail closed: the construct the rule vouches for cannot be found"""
        if rid not in self.rules:
            self.rule(rid, "anchor")
        self.fail(rid, "anchor-missing/" + re.sub(r"[^A-Za-z0-9_:.<>-]+", "_", what)[:80], "-", "-", what,
                  "anchor not found: the rule cannot vouch for code it cannot find")

    def floor(self, rid, what, found, minimum):
        """instance floor: a rule that matches fewer sites than were counted by hand fails"""
        if found >= minimum:
            self.ok(rid)
        elif found == 0:
            # nothing matched at all: the rule would pass vacuously -> fail closed
            self.fail(rid, "floor/" + what, "-", "-", what,
                      "rule matched no instance of %s (%d confirmed on the pinned tree): it cannot vouch for code it cannot find" % (what, minimum),
                      expected=">= %d" % minimum, found=found)
        else:
            # fewer sites than on the pinned tree (code merged into helpers, loops fused, ...): every site found was checked, but the
            # rule may be missing some -> not an accusation, not a pass
            self.abstain(rid, "matched %d instance(s) of %s, fewer than the %d confirmed on the pinned tree" % (found, what, minimum))

    # ------------------------------------------------------------- reporting
    def finish(self, level, explanation, trusted_base, checker_cmd, assumptions=None, level_note=None):
        known = load_known()
        global EVIDENCE_DIR, REPLAY_DIR
        if self.repo and os.path.realpath(self.repo) != os.path.realpath(factsmod.REPO):
            # scratch copies (self-test, development) never overwrite the evidence of /repo itself
            EVIDENCE_DIR = os.path.join(factsmod.CACHE, "scratch-evidence")
            REPLAY_DIR = os.path.join(EVIDENCE_DIR, "replay")
        os.makedirs(REPLAY_DIR, exist_ok=True)
        wall = time.time() - self.t0
        new_violations = []
        known_hits = []
        for v in self.violations:
            k = [e for e in known.get("known", []) if e["key"] == v.key and self.prop in e.get("properties", [self.prop])]
            if k:
                known_hits.append((v, k[0]))
            else:
                new_violations.append(v)
        # summary lines
        for rid, r in sorted(self.rules.items()):
            print("  rule %-8s %-58s obligations=%d discharged=%d%s" % (
                rid, r["title"][:58], r["obligations"], r["discharged"],
                (" undecided=%d" % r["undecided"]) if r["undecided"] else ""))
        for u in self.undecided:
            print("UNDECIDED rule=%s %s" % (u["rule"], u["reason"]))
        for v, e in known_hits:
            print("KNOWN-FINDING: property=%s %s [%s at %s]" % (self.prop, e["what"], v.key, v.where))
        for v in new_violations:
            fname = re.sub(r"[^A-Za-z0-9_.-]+", "_", v.key)[:150]
            path = os.path.join(REPLAY_DIR, "%s-%s.json" % (self.prop, fname))
            with open(path, "w") as f:
                json.dump({"property": self.prop, "violation": v.to_json(), "tier": self.tier}, f, indent=1, default=str)
            print("VIOLATION property=%s replay=%s" % (self.prop, path))
            print("  rule=%s %s  at %s in %s" % (v.rule, v.title or "", v.where, v.fn))
            print("  instance=%s  reason=%s" % (v.instance, v.reason))
            if v.expected is not None or v.found is not None:
                print("  expected=%s found=%s" % (_short(v.expected), _short(v.found)))
        obligations = sum(r["obligations"] for r in self.rules.values())
        discharged = sum(r["discharged"] for r in self.rules.values())
        samples = []
        for rid, r in sorted(self.rules.items()):
            for s in r["samples"][:2]:
                samples.append({"rule": rid, "obligation": s})
        if not samples:
            samples.append({"rule": "-", "obligation": "none"})
        ev = {
            "property_id": self.prop,
            "tier": self.tier,
            "seed": int(self.seed),
            "level": level,
            "coverage": {
                "obligations": obligations,
                "discharged": discharged,
                "undecided": len(self.undecided),
                "evaluations": obligations,
                "distinct_nontrivial": discharged,
                "rule": "one obligation per table cell / operand / call site / path condition named by a rule; "
                        "distinct by (rule, function, instance); non-trivial = the rule inspected a construct of "
                        "/repo's current MIR (instance floors forbid vacuous passes)",
                "samples": samples[:40],
                "checker_cmd": checker_cmd,
                "trusted_base": trusted_base,
                "explanation": explanation,
                "exhaustive": not self.subsets,
                "not_enumerated_completely": self.subsets,
                "rules": {rid: {k: r[k] for k in ("title", "obligations", "discharged", "undecided")}
                          for rid, r in sorted(self.rules.items())},
                "configurations": self.configs,
                "functions_analysed": sorted(self.functions),
                "functions_analysed_count": len(self.functions),
                "call_sites_inspected": self.callsites,
                "abstentions": self.undecided,
                "known_findings_hit": [{"key": v.key, "where": v.where, "what": e["what"]} for v, e in known_hits],
                "violations_detail": [v.to_json() for v in new_violations][:50],
                "inventory": self.inventory,
                "job_pools": dict(__import__("fqrlint.cache", fromlist=["EVENTS"]).EVENTS),
                "notes": self.notes,
            },
            "assumptions": (assumptions or []) + self.assumptions,
            "wall_s": round(wall, 3),
            "violations": len(new_violations),
        }
        os.makedirs(EVIDENCE_DIR, exist_ok=True)
        with open(os.path.join(EVIDENCE_DIR, "%s.json" % self.prop), "w") as f:
            json.dump(ev, f, indent=1, default=str)
        print("%s %s tier=%s: %d obligations, %d discharged, %d undecided, %d known finding(s), %d violation(s), %.1fs" % (
            "PASS" if not new_violations else "FAIL", self.prop, self.tier, obligations, discharged,
            len(self.undecided), len(known_hits), len(new_violations), wall))
        return 1 if new_violations else 0


class Soft:
    """View of a Ctx for a shape-recognising rule whose clause has been decided exactly by another rule (named in `by`):
    an obligation the shape rule cannot discharge is then a note, not an accusation - the code merely left the shapes the
    rule knows.  Successful obligations are counted as usual."""

    def __init__(self, ctx, by, only=None):
        object.__setattr__(self, "_c", ctx)
        object.__setattr__(self, "_by", by)
        object.__setattr__(self, "_only", only)  # soften these rule ids only (None = all)

    def _hard(self, rid):
        return self._only is not None and rid not in self._only

    def __getattr__(self, k):
        return getattr(self._c, k)

    def __setattr__(self, k, v):
        setattr(self._c, k, v)

    def _note(self, rid, instance, reason, where):
        if rid not in self._c.rules:
            self._c.rule(rid, "cross-check")
        self._c.abstain(rid, "%s: shape not recognised (%s); this clause is decided exactly by %s" % (instance, str(reason)[:90], self._by), where)

    def check(self, rid, cond, key, where, fn, instance, reason, expected=None, found=None, sample=None):
        if self._hard(rid):
            return self._c.check(rid, cond, key, where, fn, instance, reason, expected=expected, found=found, sample=sample)
        if cond:
            self._c.ok(rid, sample)
        else:
            self._note(rid, instance, reason, where)
        return cond

    def fail(self, rid, key, where, fn, instance, reason, expected=None, found=None, path=None):
        if self._hard(rid):
            return self._c.fail(rid, key, where, fn, instance, reason, expected=expected, found=found, path=path)
        self._note(rid, instance, reason, where)

    def anchor_missing(self, rid, what):
        if self._hard(rid):
            return self._c.anchor_missing(rid, what)
        self._note(rid, what, "anchor not found", None)

    def floor(self, rid, what, found, minimum):
        if self._hard(rid):
            return self._c.floor(rid, what, found, minimum)
        if found >= minimum:
            self._c.ok(rid)
        else:
            self._note(rid, what, "matched %d of %d sites" % (found, minimum), None)


def soft_if(ctx, decided, by, only=None):
    return Soft(ctx, by, only) if decided else ctx


def _undecided_fold(found):
    """describe() of a fold that ended in 'top'/'loop' (undecidable for the folder), anywhere in `found`"""
    if isinstance(found, str):
        return found if found.startswith(("top:", "loop:")) else None
    if isinstance(found, (list, tuple)):
        for x in found:
            u = _undecided_fold(x)
            if u:
                return u
    if isinstance(found, dict):
        for x in found.values():
            u = _undecided_fold(x)
            if u:
                return u
    return None


def _short(x, n=300):
    s = json.dumps(x, default=str) if not isinstance(x, str) else x
    return s if len(s) <= n else s[:n] + "..."


def load_known():
    if os.path.exists(KNOWN_FILE):
        with open(KNOWN_FILE) as f:
            return json.load(f)
    return {"known": [], "fixed": []}
