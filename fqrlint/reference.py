"""ISO/IEC 18004 reference data and generators, written from the standard and
independent of the repository (DESIGN.md Appendix C).

Only ISO Table 9's two primary columns are embedded (EC codewords per block and
number of blocks); every block layout, data-codeword count, total and remainder
is *derived* from them with the geometric module-count formula.
"""

LEVELS = ["L", "M", "Q", "H"]
MODES = ["Numeric", "Alphanumeric", "Byte"]
VERSIONS = ["V%02d" % v for v in range(1, 41)]
MASKS = ["Checkerboard", "HorizontalLines", "VerticalLines", "DiagonalLines",
         "LargeCheckerboard", "Fields", "Diamonds", "Meadow"]

# ISO/IEC 18004:2015 Table 9 — EC codewords per block
EC_PER_BLOCK = {
    "L": [7, 10, 15, 20, 26, 18, 20, 24, 30, 18, 20, 24, 26, 30, 22, 24, 28, 30, 28, 28, 28, 28, 30, 30, 26, 28, 30, 30, 30, 30, 30, 30, 30, 30, 30, 30, 30, 30, 30, 30],
    "M": [10, 16, 26, 18, 24, 16, 18, 22, 22, 26, 30, 22, 22, 24, 24, 28, 28, 26, 26, 26, 26, 28, 28, 28, 28, 28, 28, 28, 28, 28, 28, 28, 28, 28, 28, 28, 28, 28, 28, 28],
    "Q": [13, 22, 18, 26, 18, 24, 18, 22, 20, 24, 28, 26, 24, 20, 30, 24, 28, 28, 26, 30, 28, 30, 30, 30, 30, 28, 30, 30, 30, 30, 30, 30, 30, 30, 30, 30, 30, 30, 30, 30],
    "H": [17, 28, 22, 16, 22, 28, 26, 26, 24, 28, 24, 28, 22, 24, 24, 30, 28, 28, 26, 28, 30, 24, 30, 30, 30, 30, 30, 30, 30, 30, 30, 30, 30, 30, 30, 30, 30, 30, 30, 30],
}
# ISO/IEC 18004:2015 Table 9 — number of error-correction blocks
NUM_BLOCKS = {
    "L": [1, 1, 1, 1, 1, 2, 2, 2, 2, 4, 4, 4, 4, 4, 6, 6, 6, 6, 7, 8, 8, 9, 9, 10, 12, 12, 12, 13, 14, 15, 16, 17, 18, 19, 19, 20, 21, 22, 24, 25],
    "M": [1, 1, 1, 2, 2, 4, 4, 4, 5, 5, 5, 8, 9, 9, 10, 10, 11, 13, 14, 16, 17, 17, 18, 20, 21, 23, 25, 26, 28, 29, 31, 33, 35, 37, 38, 40, 43, 45, 47, 49],
    "Q": [1, 1, 2, 2, 4, 4, 6, 6, 8, 8, 8, 10, 12, 16, 12, 17, 16, 18, 21, 20, 23, 23, 25, 27, 29, 34, 34, 35, 38, 40, 43, 45, 48, 51, 53, 56, 59, 62, 65, 68],
    "H": [1, 1, 2, 4, 4, 4, 5, 6, 8, 8, 11, 11, 16, 16, 18, 16, 19, 21, 25, 25, 25, 34, 30, 32, 35, 37, 40, 42, 45, 48, 51, 54, 57, 60, 63, 66, 70, 74, 77, 81],
}

# ISO/IEC 18004 Annex E (literal table); must agree with the constructive formula below
ALIGN_TABLE = [
    [], [6, 18], [6, 22], [6, 26], [6, 30], [6, 34], [6, 22, 38], [6, 24, 42], [6, 26, 46], [6, 28, 50],
    [6, 30, 54], [6, 32, 58], [6, 34, 62], [6, 26, 46, 66], [6, 26, 48, 70], [6, 26, 50, 74], [6, 30, 54, 78],
    [6, 30, 56, 82], [6, 30, 58, 86], [6, 34, 62, 90], [6, 28, 50, 72, 94], [6, 26, 50, 74, 98],
    [6, 30, 54, 78, 102], [6, 28, 54, 80, 106], [6, 32, 58, 84, 110], [6, 30, 58, 86, 114], [6, 34, 62, 90, 118],
    [6, 26, 50, 74, 98, 122], [6, 30, 54, 78, 102, 126], [6, 26, 52, 78, 104, 130], [6, 30, 56, 82, 108, 134],
    [6, 34, 60, 86, 112, 138], [6, 30, 58, 86, 114, 142], [6, 34, 62, 90, 118, 146],
    [6, 30, 54, 78, 102, 126, 150], [6, 24, 50, 76, 102, 128, 154], [6, 28, 54, 80, 106, 132, 158],
    [6, 32, 58, 84, 110, 136, 162], [6, 26, 54, 82, 110, 138, 166], [6, 30, 58, 86, 114, 142, 170],
]


def side(v):
    return 17 + 4 * v


def align_count(v):
    return 0 if v == 1 else v // 7 + 2


def raw_modules(v):
    """data+EC+remainder modules: side^2 minus function patterns, format and version areas"""
    r = (16 * v + 128) * v + 64
    if v >= 2:
        a = align_count(v)
        r -= (25 * a - 10) * a - 55
        if v >= 7:
            r -= 36
    return r


def raw_modules_by_geometry(v):
    """independent count: paint the function regions on a grid and count what is left"""
    n = side(v)
    used = [[False] * n for _ in range(n)]

    def rect(r0, c0, h, w):
        for r in range(r0, r0 + h):
            for c in range(c0, c0 + w):
                if 0 <= r < n and 0 <= c < n:
                    used[r][c] = True

    # finders + separators + format areas
    rect(0, 0, 9, 9)
    rect(0, n - 8, 9, 8)
    rect(n - 8, 0, 8, 9)
    # timing
    rect(6, 0, 1, n)
    rect(0, 6, n, 1)
    # alignment
    cs = align_positions(v)
    for i, r in enumerate(cs):
        for j, c in enumerate(cs):
            if (i == 0 and j == 0) or (i == 0 and j == len(cs) - 1) or (i == len(cs) - 1 and j == 0):
                continue
            rect(r - 2, c - 2, 5, 5)
    if v >= 7:
        rect(0, n - 11, 6, 3)
        rect(n - 11, 0, 3, 6)
    return sum(1 for r in range(n) for c in range(n) if not used[r][c])


def total_codewords(v):
    return raw_modules(v) // 8


def remainder_bits(v):
    return raw_modules(v) % 8


def ec_per_block(v, l):
    return EC_PER_BLOCK[l][v - 1]


def num_blocks(v, l):
    return NUM_BLOCKS[l][v - 1]


def data_codewords(v, l):
    return total_codewords(v) - ec_per_block(v, l) * num_blocks(v, l)


def layout(v, l):
    """(short blocks, short data len, long blocks, long data len | 0)"""
    tot = total_codewords(v)
    nb = num_blocks(v, l)
    ec = ec_per_block(v, l)
    long_n = tot % nb
    short_n = nb - long_n
    slen = tot // nb - ec
    return (short_n, slen, long_n, slen + 1 if long_n else 0)


def align_positions(v):
    """Annex E construction"""
    if v == 1:
        return []
    a = align_count(v)
    step = 26 if v == 32 else 2 * ((4 * v + 2 * a + 1) // (2 * a - 2))
    last = side(v) - 7
    res = [last - i * step for i in range(a - 1)]
    res.append(6)
    return sorted(res)


def cci_bits(v, mode):
    i = 0 if v <= 9 else (1 if v <= 26 else 2)
    return {"Numeric": [10, 12, 14], "Alphanumeric": [9, 11, 13], "Byte": [8, 16, 16]}[mode][i]


def payload_bits(mode, n):
    if mode == "Numeric":
        return 10 * (n // 3) + [0, 4, 7][n % 3]
    if mode == "Alphanumeric":
        return 11 * (n // 2) + 6 * (n % 2)
    return 8 * n


def capacity(v, l, mode):
    """largest character count that fits: 4 + cci + bits(n) <= 8*data and n < 2^cci"""
    avail = 8 * data_codewords(v, l) - 4 - cci_bits(v, mode)
    lo, hi = 0, 1 << 16
    while lo < hi:
        mid = (lo + hi + 1) // 2
        if payload_bits(mode, mid) <= avail:
            lo = mid
        else:
            hi = mid - 1
    return min(lo, (1 << cci_bits(v, mode)) - 1)


# ------------------------------------------------------------------ GF(256)
PRIM = 0x11D


def gf_tables():
    exp = [0] * 255
    log = [None] * 256
    x = 1
    for i in range(255):
        exp[i] = x
        log[x] = i
        x <<= 1
        if x & 0x100:
            x ^= PRIM
    return exp, log


GF_EXP, GF_LOG = gf_tables()


def gf_mul(a, b):
    if a == 0 or b == 0:
        return 0
    return GF_EXP[(GF_LOG[a] + GF_LOG[b]) % 255]


def generator(degree):
    """coefficients (highest first) of prod_{i<degree} (x - alpha^i)"""
    g = [1]
    for i in range(degree):
        root = GF_EXP[i]
        ng = g + [0]
        for j in range(len(g)):
            ng[j + 1] ^= gf_mul(g[j], root)
        g = ng
    return g


def generator_exponents(degree):
    """the same polynomial in alpha-exponent form (as the repository stores it)"""
    return [GF_LOG[c] for c in generator(degree)]


DEGREES_IN_USE = sorted({EC_PER_BLOCK[l][v] for l in LEVELS for v in range(40)})


# --------------------------------------------------------------------- BCH
def bch_remainder(value, poly, total_bits, data_bits):
    r = value << (total_bits - data_bits)
    plen = poly.bit_length()
    for i in range(total_bits - 1, plen - 2, -1):
        if r & (1 << i):
            r ^= poly << (i - (plen - 1))
    return r


LEVEL_BITS = {"L": 0b01, "M": 0b00, "Q": 0b11, "H": 0b10}


def format_word(level, mask):
    b = (LEVEL_BITS[level] << 3) | mask
    return ((b << 10) | bch_remainder(b, 0x537, 15, 5)) ^ 0x5412


def version_word(v):
    return (v << 12) | bch_remainder(v, 0x1F25, 18, 6)


# ------------------------------------------------------------------- masks
def mask_cond(k, r, c):
    """ISO Table 10: i = row, j = column"""
    if k == 0:
        return (r + c) % 2 == 0
    if k == 1:
        return r % 2 == 0
    if k == 2:
        return c % 3 == 0
    if k == 3:
        return (r + c) % 3 == 0
    if k == 4:
        return (r // 2 + c // 3) % 2 == 0
    if k == 5:
        return (r * c) % 2 + (r * c) % 3 == 0
    if k == 6:
        return ((r * c) % 2 + (r * c) % 3) % 2 == 0
    if k == 7:
        return ((r + c) % 2 + (r * c) % 3) % 2 == 0
    raise ValueError(k)


def percent_score(p):
    """10 points per 5% step of the dark ratio away from 50% (ISO 7.8.3.1 N4, integer percent)"""
    d = max(45 - p, p - 54, 0)
    return 10 * ((d + 4) // 5)


# ------------------------------------------------------------ alphanumeric
ALNUM = "0123456789ABCDEFGHIJKLMNOPQRSTUVWXYZ $%*+-./:"


def function_dark_ratio_bounds(v):
    """(min, max) achievable dark percentage given only the fixed function patterns
    (every other module free): used to show which PERCENT_SCORE cells are reachable."""
    n = side(v)
    fixed_dark = 3 * 33 + 1  # finders (33 dark each) + dark module
    # timing: modules 8..n-9 on row 6 and column 6, dark at even index
    t = n - 16
    fixed_dark += 2 * ((t + 1) // 2)
    cs = align_positions(v)
    na = max(0, len(cs) * len(cs) - 3) if cs else 0
    # alignment patterns overlapping timing lines share modules; a bound only needs a safe estimate
    fixed_dark_min = fixed_dark  # ignore alignment (only lowers the lower bound)
    fixed_light = 3 * (16 + 15) + (t - (t + 1) // 2) * 2  # finder light ring + separators + timing light
    total = n * n
    lo = 100 * fixed_dark_min // total
    hi = 100 * (total - fixed_light) // total
    _ = na
    return lo, hi


# ---------------------------------------------------------- symbol geometry
# Region map of an empty symbol, written from ISO/IEC 18004 6.3 (finder 6.3.3, separators 6.3.4,
# timing 6.3.5, alignment 6.3.6 + Annex E), 7.9 (format information, Figure 25) and 7.10 (version
# information, Figure 27/28).  Independent of the repository's drawing code.
FINDER, SEPARATOR, TIMING, ALIGNMENT, DARK_MODULE, FORMAT, VERSION_INFO, DATA = (
    "FinderPattern", "Empty", "Timing", "Alignment", "DarkModule", "Format", "Version", "Data")


def format_positions(n):
    """bit k (0 = least significant) of the 15-bit format word -> its two (row, column) positions"""
    pos = {}
    for k in range(0, 6):
        pos[k] = [(k, 8)]
    pos[6] = [(7, 8)]
    pos[7] = [(8, 8)]
    pos[8] = [(8, 7)]
    for k in range(9, 15):
        pos[k] = [(8, 14 - k)]
    for k in range(0, 8):
        pos[k].append((8, n - 1 - k))
    for k in range(8, 15):
        pos[k].append((n - 15 + k, 8))
    return pos


def version_positions(n):
    """bit k of the 18-bit version word -> its two positions (upper-right block, lower-left block)"""
    return {k: [(k // 3, n - 11 + k % 3), (n - 11 + k % 3, k // 3)] for k in range(18)}


def region_map(v):
    """{(row, col): (region, value)} for every module of a version-v symbol.
    value is True (dark) / False (light) for function modules whose value the standard fixes,
    the version-word bit for version information, and None for format and data modules.
    Where an alignment pattern lies on a timing line (row/column 6) both regions prescribe the
    same value; the region is reported as ALIGNMENT and `also` lists TIMING."""
    n = side(v)
    m = {}
    for r in range(n):
        for c in range(n):
            m[(r, c)] = (DATA, None)
    # timing first (everything else overrides it)
    for i in range(8, n - 8):
        m[(6, i)] = (TIMING, i % 2 == 0)
        m[(i, 6)] = (TIMING, i % 2 == 0)
    # finders with separators
    for (r0, c0) in ((0, 0), (0, n - 7), (n - 7, 0)):
        for dr in range(-1, 8):
            for dc in range(-1, 8):
                r, c = r0 + dr, c0 + dc
                if not (0 <= r < n and 0 <= c < n):
                    continue
                if 0 <= dr <= 6 and 0 <= dc <= 6:
                    ring = max(abs(dr - 3), abs(dc - 3))
                    m[(r, c)] = (FINDER, ring != 2)
                else:
                    m[(r, c)] = (SEPARATOR, False)
    # alignment patterns
    cs = ALIGN_TABLE[v - 1]
    for i, r0 in enumerate(cs):
        for j, c0 in enumerate(cs):
            if (i == 0 and j == 0) or (i == 0 and j == len(cs) - 1) or (i == len(cs) - 1 and j == 0):
                continue
            for dr in range(-2, 3):
                for dc in range(-2, 3):
                    m[(r0 + dr, c0 + dc)] = (ALIGNMENT, max(abs(dr), abs(dc)) != 1)
    # dark module
    m[(4 * v + 9, 8)] = (DARK_MODULE, True)
    # format information
    for k, ps in format_positions(n).items():
        for p in ps:
            m[p] = (FORMAT, None)
    # version information
    if v >= 7:
        w = version_word(v)
        for k, ps in version_positions(n).items():
            for p in ps:
                m[p] = (VERSION_INFO, bool((w >> k) & 1))
    return m


def placement_order(v):
    """ISO/IEC 18004 7.7.3: the data-module coordinates in the order codeword bits are placed: two-module-wide
    columns from the right edge leftwards, alternately upwards and downwards, right module before left,
    skipping the vertical timing column, skipping every function module"""
    n = side(v)
    rm = region_map(v)
    out = []
    col = n - 1
    upward = True
    while col > 0:
        if col == 6:
            col -= 1
        rows = range(n - 1, -1, -1) if upward else range(n)
        for r in rows:
            for c in (col, col - 1):
                if rm[(r, c)][0] == DATA:
                    out.append((r, c))
        upward = not upward
        col -= 2
    return out


def alignment_on_timing(v):
    """coordinates where an alignment pattern overlaps a timing line"""
    n = side(v)
    out = set()
    cs = ALIGN_TABLE[v - 1]
    for i, r0 in enumerate(cs):
        for j, c0 in enumerate(cs):
            if (i == 0 and j == 0) or (i == 0 and j == len(cs) - 1) or (i == len(cs) - 1 and j == 0):
                continue
            for dr in range(-2, 3):
                for dc in range(-2, 3):
                    r, c = r0 + dr, c0 + dc
                    if (r == 6 or c == 6) and 8 <= (c if r == 6 else r) < n - 8:
                        out.add((r, c))
    return out


def self_check():
    """internal consistency of the reference itself"""
    errs = []
    for v in range(1, 41):
        if align_positions(v) != ALIGN_TABLE[v - 1]:
            errs.append("alignment formula vs Annex E table at V%d" % v)
        if raw_modules(v) != raw_modules_by_geometry(v):
            errs.append("raw module formula vs geometry at V%d" % v)
        for l in LEVELS:
            s, sl, g, gl = layout(v, l)
            if s * sl + g * gl != data_codewords(v, l):
                errs.append("layout sum V%d %s" % (v, l))
            if s + g != num_blocks(v, l):
                errs.append("block count V%d %s" % (v, l))
    if format_word("M", 0) != 0b101010000010010 or format_word("L", 0) != 0b111011111000100:
        errs.append("format BCH")
    if version_word(7) != 0b000111110010010100 or version_word(40) != 0b101000110001101001:
        errs.append("version BCH")
    if generator_exponents(7) != [0, 87, 229, 146, 149, 238, 102, 21]:
        errs.append("generator degree 7")
    for v in range(1, 41):
        rm = region_map(v)
        if sum(1 for t, _ in rm.values() if t == DATA) != raw_modules(v):
            errs.append("region map data-module count at V%d" % v)
        for (r, c) in alignment_on_timing(v):
            if rm[(r, c)][1] != ((c if r == 6 else r) % 2 == 0):
                errs.append("alignment/timing disagreement at V%d (%d,%d)" % (v, r, c))
        if len(placement_order(v)) != raw_modules(v) or len(set(placement_order(v))) != raw_modules(v):
            errs.append("placement order at V%d" % v)
        if len({p for ps in format_positions(side(v)).values() for p in ps}) != 30:
            errs.append("format positions at V%d" % v)
    if capacity(1, "L", "Numeric") != 41 or capacity(40, "H", "Byte") != 1273 or capacity(40, "L", "Numeric") != 7089:
        errs.append("capacity")
    return errs


if __name__ == "__main__":
    print(self_check() or "reference self-check ok")
