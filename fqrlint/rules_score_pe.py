"""C11.R9: the penalty terms on finite domains, by partial evaluation (engine E4).

The scorers are pure functions of module values and labels.  They are evaluated on complete small domains and compared with a model
written from the property's own words (N-2 per maximal run of N >= 5 equal encoding-region modules, 40 per 1011101 window of seven
encoding-region modules, 3 per 2x2 block of equal encoding-region modules, the ISO Table 24 step for the dark ratio, total = rows +
columns + blocks + ratio):

  score::line                   every line of length 1..L over {light, dark} data modules, every line of length 1..6 over
                                {data, function} x {light, dark}                      (L = 11 quick, 13 thorough)
  score::matrix_score_squares   every 2x2 symbol over the four module kinds, every 3x3 symbol of data modules, every 3x3 symbol with
                                one function module outside column 0
  score::dark_module_score      a 5x5 symbol with 0..24 dark modules
  score::score                  a fixed list of 8x8 symbols with mixed labels: the total is the sum of the four terms on (symbol,
                                transposed symbol)

Fabricated symbols keep one shape fact of real ones that the block scorer relies on: a function module in column 0 has a function
module to its right (finder, separator, format and version areas are at least two modules wide); the rule checks that fact against
the ISO region map of all 40 versions before using it.
"""
import itertools
import multiprocessing
import os
import random

from .fold import TOP, mk_int, mk_bool, to_py
from . import cache, peval, reference as ref
from .rules_tables import anchor_fn, where_fn

QRC = "qr::QRCode"
_G = {}


# ----------------------------------------------------------------------------------------------------------------- the model
def model_line(line):
    """line: [(is_data, value)] -> (pattern score, run score)"""
    patt = runs = 0
    run, cur, vals = 0, None, []
    for is_data, v in line:
        if not is_data:
            if run >= 5:
                runs += run - 2
            run, cur, vals = 0, None, []
            continue
        if cur is None or v != cur:
            if run >= 5:
                runs += run - 2
            run, cur = 0, v
        run += 1
        vals.append(v)
        if vals[-7:] == [1, 0, 1, 1, 1, 0, 1]:
            patt += 40
    if run >= 5:
        runs += run - 2
    return patt, runs


def model_squares(m):
    n = len(m)
    s = 0
    for i in range(n - 1):
        for j in range(n - 1):
            cells = [m[i][j], m[i][j + 1], m[i + 1][j], m[i + 1][j + 1]]
            if all(c[0] for c in cells) and len({c[1] for c in cells}) == 1:
                s += 3
    return s


def model_dark(m):
    n = len(m)
    dark = sum(1 for r in m for c in r if c[1])
    return ref.percent_score(dark * 100 // (n * n))


def transpose(m):
    n = len(m)
    return [[m[c][r] for c in range(n)] for r in range(n)]


def model_total(m, t=None):
    """penalty of candidate m; the column terms are read from t (the transposed candidate) when one is given"""
    t = transpose(m) if t is None else t
    rows = [model_line(r) for r in m]
    cols = [model_line(r) for r in t]
    return sum(a + b for a, b in rows) + sum(a + b for a, b in cols) + model_squares(m) + model_dark(m)


def _premise_holds():
    """in every ISO symbol a non-data module in column 0 (row 0) has a non-data module next to it in column 1 (row 1)"""
    for v in range(1, 41):
        rm = ref.region_map(v)
        n = ref.side(v)
        for k in range(n):
            if rm[(k, 0)][0] != ref.DATA and rm[(k, 1)][0] == ref.DATA:
                return False
            if rm[(0, k)][0] != ref.DATA and rm[(1, k)][0] == ref.DATA:
                return False
    return True


# ------------------------------------------------------------------------------------------------------------ evaluation
def _mods(pe):
    out = {}
    for key, ctor in (((1, 0), "data"), ((1, 1), "data"), ((0, 0), "timing"), ((0, 1), "timing")):
        r = pe.call("module::Module::" + ctor, [mk_bool(bool(key[1]))])
        if r.kind != "ret" or r.value == TOP:
            return None
        out[key] = r.value
    # cross-check with the accessors: label and value as intended
    for (is_data, v), m in out.items():
        a = pe.call("module::Module::value", [m])
        b = pe.call("module::Module::module_type", [m])
        if a.kind != "ret" or to_py(a.value) is not bool(v) or b.kind != "ret" or (to_py(b.value) == "Data") != bool(is_data):
            return None
    return out


def _line_job(chunk):
    f = _G["facts"]
    pe = peval.PEval(f, max_steps=2_000_000)
    mods = _mods(pe)
    if mods is None:
        return [("top", "module constructors/accessors do not fold", None, None)]
    out = []
    for line in chunk:
        arr = ("array", tuple(mods[c] for c in line))
        r = pe.call("score::line", [("ref", ("const", arr))])
        if r.kind == "ret" and r.value != TOP and r.value[0] == "tuple" and all(x != TOP and x[0] == "int" for x in r.value[1]):
            out.append(("ret", tuple(x[2] for x in r.value[1]), line, None))
        else:
            out.append((r.kind if r.kind != "ret" else "top", r.why or "line() does not return two known integers", line, None))
    return out


def _matrix_eval(pe, mods, fn_path, m, with_transpose=False, extra=None):
    n = len(m)

    def build(mm):
        r = pe.call("qr::QRCode::default", [mk_int("usize", n)])
        if r.kind != "ret" or r.value == TOP or r.value[0] != "adt" or r.value[4][0] == TOP or r.value[4][0][0] != "harr":
            return None
        h = r.value[4][0]
        for rr in range(n):
            for cc in range(n):
                pe.heap.put(h, rr * n + cc, mods[mm[rr][cc]])
        return r.value
    second = None
    if with_transpose:
        m, second = m
        n = len(m)
    q = build(m)
    if q is None:
        return "top", "QRCode::default does not fold"
    args = [("ref", ("const", q))]
    if with_transpose:
        qt = build(second)
        args.append(("ref", ("const", qt)))
    if extra is not None:
        args.append(mk_int(extra[0], extra[1]))
    pe.memo = {}
    r = pe.call(fn_path, args)
    if r.kind == "ret" and r.value != TOP and r.value[0] == "int":
        return "ret", r.value[2]
    return (r.kind if r.kind != "ret" else "top"), (r.why or "not a known integer")


def _matrix_job(job):
    fn_path, mats, with_t = job[:3]
    bound_ty = job[3] if len(job) > 3 else None  # score(candidate, transposed, bound: <integer type>)
    f = _G["facts"]
    pe = peval.PEval(f, max_steps=400_000_000)
    mods = _mods(pe)
    if mods is None:
        return [("top", "module constructors/accessors do not fold", None)]
    out = []
    for m in mats:
        if bound_ty is None:
            k, v = _matrix_eval(pe, mods, fn_path, m, with_t)
            out.append((k, v, m))
        else:
            from .fold import ty_range
            hi = ty_range(bound_ty)[1]
            tot = model_total(m[0], m[1])
            res = []
            for c in ((hi, tot + 1, tot, max(tot - 1, 0), tot // 2, 1, 0) if len(m[0]) <= 8 else (hi, tot)):
                k, v = _matrix_eval(pe, mods, fn_path, m, with_t, extra=(bound_ty, c))
                res.append((c, k, v))
                pe.heap = peval.Heap()
            out.append(("bound", res, m))
        pe.heap = peval.Heap()
    return out


def _real_symbol(v, bias):
    rm = ref.region_map(v)
    n = ref.side(v)
    rnd = random.Random(1000 * v + int(bias * 100))
    m = []
    for r in range(n):
        row = []
        for c in range(n):
            reg, val = rm[(r, c)]
            if reg == ref.DATA:
                # long uniform stretches now and then, as padding codewords produce
                row.append((1, 1 if rnd.random() < bias else 0))
            else:
                row.append((0, (1 if val else 0) if val is not None else (1 if rnd.random() < 0.5 else 0)))
        m.append(row)
    return m


def _long_lines():
    """fixed lines of real symbol widths (up to 177 modules): what a narrowed counter, a window that is not cleared or a state carried
    across a function module would get wrong only beyond the complete small domain"""
    out = []
    D0, D1, F0, F1 = (1, 0), (1, 1), (0, 0), (0, 1)
    widths = (21, 25, 57, 64, 65, 100, 128, 129, 177)
    for n in widths:
        out.append((D0,) * n)
        out.append((D1,) * n)
        out.append(tuple((D1 if i % 2 else D0) for i in range(n)))
    patt = (D1, D0, D1, D1, D1, D0, D1)
    for gap in (0, 1, 3, 4, 5):
        for n in (57, 129, 177):
            unit = patt + (D0,) * gap
            out.append((unit * (n // len(unit) + 1))[:n])
    for k in range(4, 13):
        for n in (100, 177):
            out.append(tuple((D1 if (i // k) % 2 else D0) for i in range(n)))
    # function modules inside: a finder-like head and tail, timing/alignment-like islands
    for n in (57, 129, 177):
        for period, width in ((20, 1), (28, 5), (11, 2)):
            base = [D1 if (i * 7 // 3) % 3 == 0 else D0 for i in range(n)]
            for i in range(n):
                if i < 8 or i >= n - 8 or (i % period) < width:
                    base[i] = F1 if i % 2 else F0
            out.append(tuple(base))
        # runs and windows cut by a single function module
        for cut in (4, 5, 6, 7, 60):
            base = [D1] * n
            if cut < n:
                base[cut] = F1
            out.append(tuple(base))
            b2 = list((patt + (D0, D0, D0, D0)) * (n // 11 + 1))[:n]
            if cut < n:
                b2[cut] = F0
            out.append(tuple(b2))
    rnd = random.Random(20261001)
    for n in (57, 129, 177, 177):
        for bias in (0.2, 0.5, 0.8):
            for _ in range(4):
                out.append(tuple((D1 if rnd.random() < bias else D0) if rnd.random() > 0.05 else (F1 if rnd.random() < 0.5 else F0) for _ in range(n)))
    return out


def _chunks(xs, n):
    k = max(1, (len(xs) + n - 1) // n)
    return [xs[i:i + k] for i in range(0, len(xs), k)]


def _show_line(line):
    return "".join(("D" if d else "F") + str(v) for d, v in line)


def _show_m(m):
    return "/".join(_show_line(r) for r in m)


def c11_r9(ctx, f, rid="C11.R9"):
    ctx.rule(rid, "penalty terms by partial evaluation on complete small domains: runs (N-2 for N >= 5) and 1011101 windows (40) of "
                  "encoding-region modules per line, 3 per uniform 2x2 encoding-region block, the dark-ratio step, and the total as "
                  "rows + columns + blocks + ratio of (candidate, transposed candidate)")
    ln = f.fn("score::line")
    sq = f.fn("score::matrix_score_squares")
    dm = f.fn("score::dark_module_score")
    # the three term scorers are private helpers: they are evaluated directly only in the shape the rule can drive (a line of
    # modules / one symbol -> a number); reshaped or renamed, the terms are decided through score::score alone
    if ln is not None and (ln.raw.get("inputs") or []) != ["&[module::Module]"]:
        ln = None
    if sq is not None and (sq.raw.get("inputs") or []) != ["&qr::QRCode"]:
        sq = None
    if dm is not None and (dm.raw.get("inputs") or []) != ["&qr::QRCode"]:
        dm = None
    sc = anchor_fn(ctx, rid, f, "score::score")
    if not sc:
        return None
    _G["facts"] = f
    L = 11 if ctx.tier != "thorough" else 13
    ctx.subset(rid, "every line up to length %d (data modules) / 6 (mixed labels) plus %d fixed long lines (widths 21..177: uniform, alternating, "
                    "repeated 1011101 patterns, runs of 4..12, function-module islands, pseudo-random), 2x2 and 3x3 symbols, 5x5 dark "
                    "counts, 60 8x8 symbols" % (L, len(_long_lines())))
    decided = True
    mp = multiprocessing.get_context("fork")
    ncpu = min(16, os.cpu_count() or 1)
    fails = {}

    def bad(key, inst, expected, found, where):
        e = fails.setdefault(key, {"insts": [], "expected": expected, "found": found, "where": where})
        if len(e["insts"]) < 50:
            e["insts"].append(inst)
        e["n"] = e.get("n", 0) + 1

    und = {}
    # ---- lines
    if ln is None:
        ctx.abstain(rid, "private helper score::line no longer exists: the per-line terms are decided through score::score only")
        decided_line = False
    else:
        lines = []
        for n in range(1, L + 1):
            for vs in itertools.product((0, 1), repeat=n):
                lines.append(tuple((1, v) for v in vs))
        for n in range(1, 7):
            for cs in itertools.product(((1, 0), (1, 1), (0, 0), (0, 1)), repeat=n):
                if any(not c[0] for c in cs):
                    lines.append(tuple(cs))
        lines += _long_lines()
        res = [x for part in cache.pmap(f, "score-lines", _line_job, _chunks(lines, ncpu * 4), procs=ncpu) for x in part]
        order = None
        n_ok = 0
        for kind, val, line, _ in res:
            if kind == "diverge":
                bad("line/panics", _show_line(line), "a score", val, where_fn(ln))
                continue
            if kind != "ret":
                und.setdefault("score::line does not fold: %s" % val, []).append(_show_line(line) if line else "-")
                continue
            want = model_line(line)
            if len(val) != 2:
                und.setdefault("score::line does not return a pair", []).append(_show_line(line))
                continue
            if val == want and (order in (None, "pl") or want[0] == want[1]):
                order = order or ("pl" if want[0] != want[1] else None)
                n_ok += 1
            elif val == want[::-1] and order in (None, "lp"):
                order = order or ("lp" if want[0] != want[1] else None)
                n_ok += 1
            else:
                what = "pattern" if val[0] != want[0] and val[1] == want[1] else ("runs" if val[0] == want[0] else "line")
                bad("line/%s" % what, _show_line(line), "(pattern, runs) = %s" % (want,), str(val), where_fn(ln))
        decided_line = not any(k.startswith("score::line") for k in und)
        if n_ok:
            ctx.ok(rid, "score::line agrees with the model on %d lines" % n_ok, n=n_ok)
    # ---- blocks, ratio, total
    premise = _premise_holds()
    if not premise:
        ctx.abstain(rid, "the ISO region map has a function module in column 0 next to a data module: the block domain is not justified")
    kinds = ((1, 0), (1, 1), (0, 0), (0, 1))

    def admissible(m):
        n = len(m)
        return all(m[r][0][0] or not m[r][1][0] for r in range(n)) and all(m[0][c][0] or not m[1][c][0] for c in range(n))

    jobs = []
    if sq is not None and premise:
        m2 = [[[a, b], [c, d]] for a in kinds for b in kinds for c in kinds for d in kinds]
        m3 = [[[(1, vs[r * 3 + c]) for c in range(3)] for r in range(3)] for vs in itertools.product((0, 1), repeat=9)]
        m3f = []
        for pos in range(9):
            if pos % 3 == 0 or pos // 3 == 0:
                continue
            for fv in (0, 1):
                for vs in itertools.product((0, 1), repeat=8):
                    it = iter(vs)
                    m3f.append([[((0, fv) if r * 3 + c == pos else (1, next(it))) for c in range(3)] for r in range(3)])
        mats = [m for m in m2 + m3 + m3f if admissible(m)]
        for part in _chunks(mats, ncpu * 2):
            jobs.append(("score::matrix_score_squares", part, False))
    elif sq is None:
        ctx.abstain(rid, "private helper score::matrix_score_squares no longer exists: decided through score::score only")
    if dm is not None:
        mats = []
        for k in range(25):
            mats.append([[(1 if (r + c) % 3 else 0, 1 if r * 5 + c < k else 0) for c in range(5)] for r in range(5)])
            mats.append([[(1, 1 if (r * 5 + c) * 7 % 25 < k else 0) for c in range(5)] for r in range(5)])
        for k in range(100):  # a 10x10 symbol: the percentage is the dark count itself, every table cell is read
            mats.append([[(1 if (r * c) % 4 else 0, 1 if (r * 10 + c) * 37 % 100 < k else 0) for c in range(10)] for r in range(10)])
        jobs.append(("score::dark_module_score", mats, False))
    else:
        ctx.abstain(rid, "private helper score::dark_module_score no longer exists: decided through score::score only")
    if premise:
        rnd = random.Random(20240611)

        def sample(k, n=8):
            pf = (0.0, 0.1, 0.3)[k % 3]
            pd = (0.5, 0.2, 0.8, 0.35)[k % 4]
            m = [[((0 if rnd.random() < pf else 1), 1 if rnd.random() < pd else 0) for c in range(n)] for r in range(n)]
            if k % 5 == 0:  # long runs and finder-like rows
                m[k % n] = [(1, v) for v in (1, 0, 1, 1, 1, 0, 1, 0)]
                m[(k + 3) % n] = [(1, 1)] * n
            for r in range(n):
                if not m[r][0][0]:
                    m[r][1] = (0, m[r][1][1])
            for c in range(n):
                if not m[0][c][0]:
                    m[1][c] = (0, m[1][c][1])
            if all(c[1] for r in m for c in r):
                m[0][0] = (m[0][0][0], 0)
            return m
        mats = []
        for k in range(60):
            a = sample(k)
            # even: the genuine transposed candidate; odd: an unrelated second symbol (tells which argument each term reads)
            mats.append((a, transpose(a) if k % 2 == 0 else sample(k + 1)))
        sc_in = sc.raw.get("inputs") or []
        bound_ty = sc_in[2] if len(sc_in) == 3 and sc_in[2] in ("u8", "u16", "u32", "u64", "usize") else None
        # every dark percentage 0..99 through the total as well (a 10x10 symbol with k dark modules is k% dark): the ratio term is
        # decided even when its helper is not driven directly
        for k in range(100):
            a = [[(1 if (r * c) % 4 else 0, 1 if (r * 10 + c) * 37 % 100 < k else 0) for c in range(10)] for r in range(10)]
            for r in range(10):
                if not a[r][0][0]:
                    a[r][1] = (0, a[r][1][1])
            for c in range(10):
                if not a[0][c][0]:
                    a[1][c] = (0, a[1][c][1])
            mats.append((a, transpose(a)))
        for part in _chunks(mats, ncpu):
            jobs.append(("score::score", part, True) + ((bound_ty,) if bound_ty else ()))
        # symbols of real sizes with the ISO function-pattern layout (function modules at their fixed values, encoding region
        # pseudo-random with a bias): sums beyond any narrowed accumulator, every line width up to 177
        # (quick: up to V25, whose biased symbols already total more than 65 535 penalty points; V40 in the thorough tier)
        big_v = (1, 3, 7, 14, 25) if ctx.tier != "thorough" else (1, 2, 3, 6, 7, 10, 14, 20, 25, 32, 40)
        for v in big_v:
            for bias in ((0.5,) if v not in (1, 25, 40) else (0.5, 0.12, 1.0)):
                a = _real_symbol(v, bias)
                jobs.append(("score::score", [(a, transpose(a))], True) + ((bound_ty,) if bound_ty else ()))
            if dm is not None and v in (25, 40):
                for bias in (0.5, 0.03, 0.47, 0.97):
                    jobs.append(("score::dark_module_score", [_real_symbol(v, bias)], False))
        jobs.sort(key=lambda j: -max(len(m[0] if j[2] else m) for m in j[1]) ** 2 * len(j[1]))
    contract = {"exact": 0, "bound": 0}
    res = cache.pmap(f, "score-matrices", _matrix_job, jobs, procs=ncpu)
    models = {"score::matrix_score_squares": lambda m: (model_squares(m),), "score::dark_module_score": lambda m: (model_dark(m),),
              # columns from the second argument (the crate's contract), or from the candidate itself (second argument unused)
              "score::score": lambda ab: (model_total(ab[0], ab[1]), model_total(ab[0]))}
    oks = {}
    for job_, part in zip(jobs, res):
        fn_path, mats, with_t = job_[:3]
        fn = f.fn(fn_path)
        for kind, val, m in part:
            short = fn_path.rsplit("::", 1)[1]
            if kind == "bound":
                # score(candidate, transposed, bound): with the bound at its maximum the result is the documented total; for any
                # bound it is either that total or a cut: some value from the bound up to the total (a lower bound the caller
                # must treat as "not better") - anything else is not the documented penalty
                tot = model_total(m[0], m[1])
                tot2 = model_total(m[0])
                verdict = "ok"
                for c, k_, v_ in val:
                    if k_ == "diverge":
                        verdict = ("panics", "bound %d" % c, v_)
                        break
                    if k_ != "ret":
                        verdict = ("top", v_)
                        break
                    if v_ in (tot, tot2):
                        continue
                    if c <= v_ <= max(tot, tot2) and c <= max(tot, tot2):
                        contract["bound"] += 1
                        continue
                    verdict = ("value", "bound %d: %s" % (c, tot), v_)
                    break
                if verdict == "ok":
                    oks[short] = oks.get(short, 0) + 1
                    contract["exact"] += 1
                elif verdict[0] == "top":
                    und.setdefault("%s does not fold: %s" % (fn_path, verdict[1]), []).append(_show_m(m[0]))
                elif verdict[0] == "panics":
                    bad("%s/panics" % short, _show_m(m[0]), "a score", verdict[2], where_fn(fn))
                else:
                    bad("%s/value" % short, _show_m(m[0]) + " | " + _show_m(m[1]) + " with " + verdict[1].split(":")[0], verdict[1], verdict[2], where_fn(fn))
                continue
            if kind == "diverge":
                bad("%s/panics" % short, _show_m(m[0] if with_t else m), "a score", val, where_fn(fn))
            elif kind != "ret":
                und.setdefault("%s does not fold: %s" % (fn_path, val), []).append((_show_m(m[0] if with_t else m)) if m else "-")
            else:
                want = models[fn_path](m)
                if val not in want:
                    bad("%s/value" % short, _show_m(m[0]) + (" | " + _show_m(m[1]) if with_t else "") if with_t else _show_m(m), want[0], val, where_fn(fn))
                else:
                    oks[short] = oks.get(short, 0) + 1
    try:
        if contract["bound"]:
            ctx.inventory["score_contract"] = "bound"  # score may return a cut (bound <= result <= total): C11.R8 plays it adversarially
        elif contract["exact"]:
            ctx.inventory["score_contract"] = "exact"
    except Exception:  # noqa: BLE001
        pass
    for short, n in sorted(oks.items()):
        ctx.ok(rid, "score::%s agrees with the model on %d symbols" % (short, n), n=n)
    for key, e in sorted(fails.items()):
        ctx.fail(rid, "score/%s" % key, e["where"], "score::" + key.split("/")[0], "%s on %d input(s), e.g. %s" % (key, e["n"], ", ".join(e["insts"][:3])),
                 "a penalty term differs from the documented one (inputs: D = encoding region, F = function module, digit = dark)",
                 expected=e["expected"], found=e["found"])
    for why, insts in sorted(und.items()):
        ctx.abstain(rid, "%s (%d input(s), e.g. %s)" % (why, len(insts), insts[0]), where_fn(sc))
    # decided when the total agrees with the model on every evaluated symbol (the helpers are cross-checks of the single terms)
    return premise and bool(oks.get("score")) and not any(k.startswith("score::score") for k in und)
