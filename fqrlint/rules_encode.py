"""C06 (bit-stream constants and stage order), C02.R2 (EC codewords come from the
division of the same block by the selected generator), C15.R1, C10 inventory."""
from .mir import subexprs, expr_str
from .rules_tables import anchor_fn, where_fn, args_for, VERSION, ECL, MODE, retval
from .rules_flow import contains, ret_points, call_name_of_def, def_of
from . import fold, reference as ref, poly
from .fold import TOP, mk_enum, to_py

PUSH_BITS = "compact::CompactQR::push_bits"
MODE_INDICATOR = {"Numeric": 0b0001, "Alphanumeric": 0b0010, "Byte": 0b0100}


def K(e):
    return e[1] if isinstance(e, tuple) and e and e[0] == "K" else None


def c06_t2(ctx, f):
    rid = "C06.T2"
    ctx.rule(rid, "pad codewords are [0xEC, 0x11], alternating from 0xEC (index = pad count mod 2)")
    fn = anchor_fn(ctx, rid, f, "compact::CompactQR::fill")
    if not fn:
        return
    hit = None
    for b in fn.blocks:
        if b["cleanup"]:
            continue
        for i, st in enumerate(b["stmts"]):
            if st["k"] != "assign" or st["rv"]["k"] != "use" or st["rv"]["op"]["k"] not in ("copy", "move"):
                continue
            p = st["rv"]["op"]["p"]
            idx = [e for e in p["proj"] if isinstance(e, dict) and "idx" in e]
            if not idx:
                continue
            base = fn.single_def(p["l"], (b["id"], i))
            if base is None or base.rv is None or base.rv["k"] != "use" or base.rv["op"]["k"] != "const":
                continue
            val = base.rv["op"].get("val")
            if isinstance(val, list) and len(val) == 2 and base.rv["op"].get("ty") == "[u8; 2]":
                hit = (val, fn.canon_local(idx[0]["idx"], (b["id"], i)), (b["id"], i), st["p"]["l"], base.rv["op"].get("item"))
    if not hit:
        ctx.abstain(rid, "pad bytes are no longer taken from a two-element constant indexed in fill()", where_fn(fn))
        return
    val, idx, pt, dest, item = hit
    ctx.check(rid, val == [0xEC, 0x11], fn.path + "/pad-bytes", fn.where(pt), fn.path, item or "pad constant",
              "pad codewords are not 11101100, 00010001", expected=[0xEC, 0x11], found=val, sample="PAD_BYTES = %s" % val)
    # index = (ordinal of the pad codeword) % 2: the ordinal is the enumerate() counter of the fill loop
    from .mir import unname
    seen_enum = {}

    def ren(x):
        u = unname(x)
        # Some(payload).0.k of an Enumerate::next
        if u[0] == "field" and u[1][0] == "field" and u[1][2] == 0 and u[1][1][0] == "downcast" and u[1][1][1][0] == "def":
            name = call_name_of_def(fn, u[1][1][1][1]) or ""
            if "Enumerate" in name and name.endswith("::next"):
                seen_enum[u[2]] = u[1][1][1][1]
                return "ordinal" if u[2] == 0 else "bitpos"
        # plain loop variable of a non-enumerated loop over bit positions
        if u[0] == "field" and u[2] == 0 and u[1][0] == "downcast" and u[1][1][0] == "def":
            name = call_name_of_def(fn, u[1][1][1]) or ""
            if name.endswith("::next") and "Enumerate" not in name:
                return "bitpos"
        return None

    got = poly.normalise(idx, ren)
    exp = poly.op("Rem", poly.A("ordinal"), poly.C(2))
    vocab_ok = all(a in ("ordinal", "bitpos") or (isinstance(a, tuple) and a[0] in ("Rem", "Div", "BitAnd", "Shr")) for a in got.atoms()) \
        and ("ordinal" in repr(got.key()) or "bitpos" in repr(got.key()))
    names = [c.name or "" for c in fn.calls()]
    plain = not any(n.endswith("::skip") or n.endswith("::rev") for n in names)
    if got == exp:
        ctx.check(rid, plain, fn.path + "/pad-parity", fn.where(pt), fn.path, "pad byte index",
                  "pad alternation does not start at 0xEC with the first pad codeword (the pad loop is skipped/reversed)", found=expr_str(idx, fn),
                  sample="pad index = enumerate() % 2")
    elif vocab_ok:
        ctx.fail(rid, fn.path + "/pad-parity", fn.where(pt), fn.path, "pad byte index",
                 "the pad codeword is not selected by the parity of its ordinal among the pad codewords (first pad = 11101100): "
                 "selecting by absolute position starts with 00010001 whenever the data end on an odd codeword",
                 expected="ordinal % 2", found=got.show())
    else:
        ctx.abstain(rid, "pad index expression outside the recognised vocabulary: %s" % expr_str(idx, fn), fn.where(pt))
    # the byte pushed is that element
    pu = fn.calls("compact::CompactQR::push_u8")
    if len(pu) == 1:
        o = fn.origins(pu[0].args[1], pu[0].point)
        good = len(o) == 1 and o[0].kind == "const" and o[0].info.get("val") == val and o[0].proj and o[0].proj[0][0] == "idx"
        ctx.check(rid, good, fn.path + "/pad-pushed", pu[0].where(), fn.path, "byte pushed by fill",
                  "fill does not push the selected pad codeword", found=[x.describe(fn) for x in o], sample="push_u8(PAD_BYTES[i % 2])")


def push_sites(fn):
    out = []
    for c in fn.calls(PUSH_BITS):
        v = fn.canon(c.args[1], c.point)
        w = fn.canon(c.args[2], c.point)
        out.append((c, v, w))
    return out


def c06_t3(ctx, f):
    rid = "C06.T3"
    ctx.rule(rid, "mode indicators, count field, group widths (4/7/10, 11/6), terminator min(.,4), byte alignment")
    enc = anchor_fn(ctx, rid, f, "encode::encode", ["&[u8]", ECL, MODE, VERSION], "compact::CompactQR")
    if not enc:
        return
    F = fold.Folder(f)
    disp = {}
    for m in ref.MODES:
        r = F.run(enc.path, args_for(enc, {MODE: mk_enum(MODE, m)}))
        first = [e for e in r.trace if e["depth"] == 1 and e["callee"] and e["callee"].startswith("encode::encode_")]
        if len(first) != 1:
            ctx.fail(rid, "%s/dispatch/%s" % (enc.path, m), where_fn(enc), enc.path, m, "mode is not dispatched to exactly one encoder",
                     found=[e["callee"] for e in first])
            continue
        disp[m] = first[0]["callee"]
        ctx.ok(rid, "%s -> %s" % (m, disp[m]))
    ctx.check(rid, len(set(disp.values())) == len(disp) == 3, enc.path + "/dispatch-injective", where_fn(enc), enc.path, "dispatch",
              "two modes share an encoder", found=disp)
    # the count width handed to the encoder is cci_bits(version, mode)
    for c in enc.calls(*set(disp.values())):
        ws = [a for a in c.args if a.get("ty") == "usize"]
        if len(ws) == 1:
            o = enc.origins(ws[0], c.point)
            ok = len(o) == 1 and o[0].kind == "call" and o[0].callee() == "hardcode::cci_bits"
            ctx.check(rid, ok, "%s/cci/%s" % (enc.path, c.name.split("::")[-1]), c.where(), enc.path, "count width passed to " + c.name,
                      "the character-count width is not cci_bits(version, mode)", found=[x.describe(enc) for x in o],
                      sample="%s(.., cci_bits(version, mode))" % c.name.split("::")[-1])
    for m, path in disp.items():
        fn = anchor_fn(ctx, rid, f, path)
        if not fn:
            continue
        sites = push_sites(fn)
        ctx.analysed(fn, len(sites))
        cc = [(c, K(v), K(w)) for c, v, w in sites if K(v) is not None and K(w) is not None]
        ctx.check(rid, len(cc) == 1 and cc[0][1] == MODE_INDICATOR[m] and cc[0][2] == 4, "%s/mode-indicator" % fn.path,
                  cc[0][0].where() if cc else where_fn(fn), fn.path, "mode indicator push",
                  "the encoder does not push exactly one constant field: the ISO mode indicator on 4 bits",
                  expected=(MODE_INDICATOR[m], 4), found=[(x[1], x[2]) for x in cc], sample="%s pushes (%d, 4)" % (m, MODE_INDICATOR[m]))
        if cc:
            first = cc[0][0]
            ctx.check(rid, all(fn.dominates(first.block, c.block) for c, _, _ in sites), fn.path + "/mode-first", first.where(), fn.path,
                      "mode indicator push", "the mode indicator is not the first field pushed", sample="mode indicator dominates all pushes")
        # count field
        pin = fn.params_of_type("&[u8]")
        pw = fn.params_of_type("usize")
        cnt = [(c, v, w) for c, v, w in sites if len(pw) == 1 and w == ("param", pw[0])]
        okc = len(cnt) == 1 and len(pin) == 1 and cnt[0][1][0] == "call" and cnt[0][1][1] == "len" and contains(cnt[0][1], ("param", pin[0]))
        ctx.check(rid, okc, fn.path + "/count-field", cnt[0][0].where() if cnt else where_fn(fn), fn.path, "character count push",
                  "the count field is not (input.len(), cci width)", found=[(expr_str(v, fn), expr_str(w, fn)) for c, v, w in cnt],
                  sample="%s pushes (input.len(), cci)" % m)
        if okc and cc:
            ctx.check(rid, fn.dominates(cc[0][0].block, cnt[0][0].block) and all(
                fn.dominates(cnt[0][0].block, c.block) for c, v, w in sites if c is not cc[0][0]),
                fn.path + "/count-second", cnt[0][0].where(), fn.path, "character count push",
                "the count field does not directly follow the mode indicator", sample="count field precedes all data pushes")
        # data widths
        rest = [(c, v, w) for c, v, w in sites if (not cc or c is not cc[0][0]) and (not cnt or c is not cnt[0][0])]
        if m == "Alphanumeric":
            widths = sorted(K(w) for c, v, w in rest if K(w) is not None)
            ctx.check(rid, widths == [6, 11], fn.path + "/widths", where_fn(fn), fn.path, "data push widths",
                      "alphanumeric data are not pushed as 11-bit pairs and a 6-bit tail", expected=[6, 11], found=widths,
                      sample="alphanumeric widths 11 and 6")
            A = lambda x: poly.call("encode::ascii_to_alphanumeric", x)  # noqa: E731
            for c, v, w in rest:
                if K(w) == 11:
                    # value = 45*A(chunk[0]) + A(chunk[1]) over the two bytes of one chunk
                    names = {}

                    def ren(x):
                        if x[0] == "index" and K(x[2]) in (0, 1) and x[1][0] == "deref":
                            names.setdefault(x[1], "chunk")
                            return ("chunk", K(x[2]))
                        return None
                    got = poly.normalise(v, ren)
                    exp = poly.C(45) * A(poly.A(("chunk", 0))) + A(poly.A(("chunk", 1)))
                    chunk_ok = len(names) == 1
                    # the chunk is an element of chunks_exact(2) over the input
                    ce = [x for x in fn.calls() if (x.name or "").endswith("::chunks_exact")]
                    ce_ok = len(ce) == 1 and K(fn.canon(ce[0].args[1], ce[0].point)) == 2 and contains(fn.canon(ce[0].args[0], ce[0].point), ("param", pin[0]))
                    if not got.atoms() or any(not (isinstance(a, tuple) and a[0] in ("call",)) for a in got.atoms()):
                        ctx.abstain(rid, "pair value not an arithmetic expression over ascii_to_alphanumeric(chunk[k]): %s" % expr_str(v, fn), c.where())
                    else:
                        ctx.check(rid, got == exp and chunk_ok and ce_ok, fn.path + "/pair-value", c.where(), fn.path, "11-bit pair value",
                                  "the pair value is not 45*first + second over consecutive pairs of the input",
                                  expected=exp.show(), found=got.show(), sample="pair value = 45*A(c0) + A(c1)")
        elif m == "Numeric":
            helper = [x for x in fn.calls() if x.callee and x.callee.startswith(fn.path + "::")]
            hp = sorted({x.callee for x in helper})
            widths = {}
            for h in hp:
                hf = f.fn(h)
                ctx.analysed(hf)
                encty = [t for t in hf.raw["inputs"] if t.startswith(fn.path + "::")]
                if len(encty) != 1 or not f.enum_variants(encty[0]):
                    continue
                for name, d in f.enum_variants(encty[0]):
                    r = F.run(h, args_for(hf, {encty[0]: mk_enum(encty[0], name)}))
                    pb = [e for e in r.trace if e["callee"] == PUSH_BITS and e["depth"] == 1]
                    if len(pb) == 1:
                        widths[name] = to_py(pb[0]["args"][2])
            if not widths:
                ctx.abstain(rid, "digit groups are not pushed through a helper taking a group-kind enum: widths not recognised", where_fn(fn))
            else:
                ctx.check(rid, widths == {"Single": 4, "Double": 7, "Triple": 10}, fn.path + "/group-widths", where_fn(fn), fn.path,
                          "digit group widths", "digit groups are not 1->4, 2->7, 3->10 bits", expected={"Single": 4, "Double": 7, "Triple": 10},
                          found=widths, sample="digit group widths %s" % widths)
            # which group kind is used where: residue switch and the triple loop
            _numeric_groups(ctx, rid, f, fn, helper)
        elif m == "Byte":
            ps = fn.calls("compact::CompactQR::push_u8_slice")
            ok = len(ps) == 1 and not rest
            if ok:
                o = fn.origins(ps[0].args[1], ps[0].point)
                ok = len(o) == 1 and o[0].kind == "param" and o[0].info == pin[0]
            ctx.check(rid, ok, fn.path + "/bytes", where_fn(fn), fn.path, "byte payload", "bytes are not appended unchanged (8 bits each)",
                      sample="push_u8_slice(input)")
    # terminator and alignment
    at = f.fn("encode::add_terminator")
    if at is None:
        # a private helper: inlining it is not a defect
        ctx.abstain(rid, "private helper encode::add_terminator not found (inlined or renamed): terminator width not recognised")
    else:
        ctx.analysed(at)
    if at:
        s = push_sites(at)
        if len(s) == 1:
            c, v, w = s[0]
            okm = K(v) == 0 and w[0] == "def" and call_name_of_def(at, w[1]) in ("std::cmp::min", "core::cmp::min", "std::cmp::Ord::min")
            four = False
            remaining = None
            if okm:
                t = def_of(at, w[1])
                a = [at.canon(x, t.point) for x in t.call["args"]]
                ks = [K(x) for x in a]
                four = 4 in ks
                other = [x for x in a if K(x) is None]
                if other:
                    names = {}

                    def ren(x):
                        if x[0] == "param":
                            return "param%d" % x[1]
                        if x[0] == "call" and x[1] == "compact::CompactQR::len":
                            return "bits_so_far"
                        return None
                    remaining = poly.normalise(other[0], ren)
            pc = at.params_of_type("usize")
            exp = poly.A("param%d" % pc[0]) - poly.A("bits_so_far") if len(pc) == 1 else None
            if okm and four and remaining is not None and exp is not None and remaining != exp and not all(
                    a_ in ("param%d" % pc[0], "bits_so_far") for a_ in remaining.atoms()):
                # the remaining capacity is computed through something outside the vocabulary (saturating_sub, a helper..)
                ctx.abstain(rid, "terminator width min(.., 4): remaining capacity not in the recognised form (%s)" % remaining.show(), c.where())
            else:
              ctx.check(rid, okm and four and remaining == exp, at.path + "/terminator", c.where(), at.path, "terminator push",
                      "the terminator is not min(capacity - bits so far, 4) zero bits", expected="push_bits(0, min(data_bits - len, 4))",
                      found="push_bits(%s, %s) remaining=%s" % (expr_str(v, at), expr_str(w, at), remaining.show() if remaining else None),
                      sample="terminator = min(data_bits - len, 4) zero bits")
        else:
            ctx.abstain(rid, "add_terminator does not consist of one push_bits", where_fn(at))
    p8 = f.fn("encode::pad_to_8")
    if p8 is None:
        ctx.abstain(rid, "private helper encode::pad_to_8 not found (inlined or renamed): byte alignment not recognised")
    else:
        ctx.analysed(p8)
    if p8:
        s = push_sites(p8)
        if len(s) == 1:
            c, v, w = s[0]

            def ren(x):
                if x[0] == "call" and x[1] == "compact::CompactQR::len":
                    return "len"
                return None
            got = poly.normalise(w, ren)
            ln = poly.A("len")
            exp1 = poly.op("Rem", poly.C(8) - poly.op("Rem", ln, poly.C(8)), poly.C(8))
            vocab_ok = all(isinstance(a, tuple) and a[0] in ("Rem", "BitAnd", "Sub") for a in got.atoms()) or got.is_const()
            if got == exp1:
                ctx.check(rid, K(v) == 0, p8.path + "/align", c.where(), p8.path, "byte alignment", "alignment bits are not zero",
                          found=expr_str(v, p8), sample="alignment = (8 - len % 8) % 8 zero bits")
            elif vocab_ok and "len" in repr(got.key()):
                ctx.fail(rid, p8.path + "/align", c.where(), p8.path, "byte alignment",
                         "the number of alignment bits is not (8 - len mod 8) mod 8", expected=exp1.show(), found=got.show())
            else:
                ctx.abstain(rid, "alignment width not in the recognised vocabulary: %s" % expr_str(w, p8), c.where())
        else:
            ctx.abstain(rid, "pad_to_8 does not consist of one push_bits", where_fn(p8))


def _numeric_groups(ctx, rid, f, fn, helper_calls):
    """Triple inside the 3-digit loop with value 100a+10b+c; residue 1 -> Single, 2 -> Double"""
    D = lambda x: poly.call("encode::ascii_to_digit", x)  # noqa: E731
    pin = fn.params_of_type("&[u8]")
    for c in helper_calls:
        enc_arg = [a for a in c.args if a.get("ty", "").endswith("NumericEncoding")]
        val_arg = [a for a in c.args if a.get("ty") == "usize"]
        if len(enc_arg) != 1 or len(val_arg) != 1:
            continue
        eo = fn.origins(enc_arg[0], c.point)
        variants = sorted({o.info.rv.get("variant") for o in eo if o.kind == "agg"})
        if variants == ["Triple"]:
            v = fn.canon(val_arg[0], c.point)
            ivar = {}

            def ren(x):
                # input[i + k]
                if x[0] == "index" and contains(x[1], ("param", pin[0])):
                    ip = poly.normalise(x[2], lambda y: ("i",) if y[0] == "phi" else None)
                    k = ip - poly.A(("i",))
                    if k.is_const():
                        for y in subexprs(x[2]):
                            if y[0] == "phi":
                                ivar[y[1]] = 1
                        return ("digit", k.const_value())
                return None
            got = poly.normalise(v, ren)
            exp = poly.C(100) * D(poly.A(("digit", 0))) + poly.C(10) * D(poly.A(("digit", 1))) + D(poly.A(("digit", 2)))
            if any(not (isinstance(a, tuple) and a[0] == "call") for a in got.atoms()) or not got.atoms():
                ctx.abstain(rid, "triple value not arithmetic over ascii_to_digit(input[i+k]): %s" % expr_str(v, fn), c.where())
            else:
                ctx.check(rid, got == exp and len(ivar) == 1, fn.path + "/triple-value", c.where(), fn.path, "3-digit group value",
                          "a 3-digit group is not 100*d0 + 10*d1 + d2 of consecutive digits", expected=exp.show(), found=got.show(),
                          sample="triple = 100*D(i) + 10*D(i+1) + D(i+2)")
        elif variants and set(variants) <= {"Single", "Double"}:
            # the tail group's width must be a function of the digit COUNT only
            mapping = {}
            payload_dep = []
            for o in eo:
                if o.kind != "agg":
                    continue
                blk = o.point[0]
                for cd, how, s in fn.switch_guards(blk):
                    if cd[0] == "bin" and cd[1] == "Rem" and K(cd[3]) == 3 and how[0] == "eq":
                        mapping[how[1]] = o.info.rv.get("variant")
                for cd, pol, s in fn.guards_of(blk):
                    if cd[0] == "bin" and cd[1] in ("Eq", "Ne") and (cd[1] == "Eq") == pol:
                        for a, b in ((cd[2], cd[3]), (cd[3], cd[2])):
                            if a[0] == "bin" and a[1] == "Rem" and K(a[3]) == 3 and K(b) is not None:
                                mapping[K(b)] = o.info.rv.get("variant")
                    # does the condition read payload bytes?
                    bt = fn.bool_test(s)
                    if bt:
                        sl = fn.deps(bt[0], bt[3])
                        reads_payload = any((t.get("callee") or "") in ("encode::ascii_to_digit",) for _, t in sl.calls)
                        if reads_payload and s not in [x[0] for x in payload_dep]:
                            payload_dep.append((s, expr_str(cd, fn)))
            if payload_dep:
                ctx.fail(rid, fn.path + "/residue-groups", c.where(), fn.path, "tail group kind",
                         "the width of the last digit group is selected by a condition that depends on digit VALUES (%s); it must depend "
                         "on the number of remaining digits only: a group like \"05\" would be written in 4 bits instead of 7" % payload_dep[0][1],
                         expected="1 digit -> Single, 2 digits -> Double", found=[x[1] for x in payload_dep])
            elif mapping:
                ctx.check(rid, mapping == {1: "Single", 2: "Double"} or (mapping.get(1) == "Single" and set(mapping.values()) <= {"Single", "Double"}
                                                                         and len(variants) == 2 and mapping.get(2, "Double") == "Double"),
                          fn.path + "/residue-groups", c.where(), fn.path, "tail group kind",
                          "the tail group kind is not chosen as 1 digit -> Single, 2 digits -> Double", expected={1: "Single", 2: "Double"},
                          found=mapping, sample="residue 1 -> Single, 2 -> Double")
            else:
                ctx.abstain(rid, "selection of the tail digit group not recognised (no test of a count modulo 3)", c.where())


def c06_r1(ctx, f):
    rid = "C06.R1"
    ctx.rule(rid, "tail stages in order on one buffer: encoder -> terminator(data_bits) -> byte alignment -> pad fill")
    fn = anchor_fn(ctx, rid, f, "encode::encode")
    if not fn:
        return
    names = ["encode::add_terminator", "encode::pad_to_8", "compact::CompactQR::fill"]
    cs = [fn.calls(n) for n in names]
    if any(len(c) != 1 for c in cs):
        ctx.abstain(rid, "encode::encode does not call add_terminator / pad_to_8 / fill exactly once each: stage order not recognised", where_fn(fn))
        return
    at, p8, fl = [c[0] for c in cs]
    encs = [c for c in fn.calls() if (c.name or "").startswith("encode::encode_")]
    ctx.analysed(fn, 3 + len(encs))
    for e in encs:
        ctx.check(rid, fn.reaches(e.block, at.block) and not fn.reaches(at.block, e.block), fn.path + "/order/encoder-first", e.where(), fn.path,
                  e.name, "payload is encoded after the terminator", sample="%s precedes add_terminator" % e.name.split("::")[-1])
    ctx.check(rid, fn.dominates(at.block, p8.block) and fn.dominates(p8.block, fl.block), fn.path + "/order/tail", at.where(), fn.path,
              "terminator, alignment, fill", "terminator, byte alignment and pad fill do not run in this order on every path",
              sample="add_terminator -> pad_to_8 -> fill")
    # same buffer everywhere, and it is what is returned
    bufs = set()
    for c in encs + [at, p8, fl]:
        o = fn.origins(c.args[0], c.point)
        bufs |= {(x.kind, x.info.rv["p"]["l"]) if x.kind == "ref" else ("?", x.describe(fn)) for x in o}
    ro = [o for rp in ret_points(fn) for o in fn.origins({"k": "copy", "p": {"l": 0, "proj": []}}, rp, hide_weak=True)]
    same = len(bufs) == 1 and list(bufs)[0][0] == "ref"
    if same:
        l = list(bufs)[0][1]
        ds = [d for d in fn.reaching(l, fl.point) if d.strong]
        same = len(ds) == 1 and all(o.kind == "call" and o.point == ds[0].point for o in ro)
    ctx.check(rid, same, fn.path + "/one-buffer", where_fn(fn), fn.path, "bit buffer",
              "the stages do not all work on the buffer that is returned", found=sorted(map(str, bufs)), sample="one CompactQR through all stages")
    # capacity argument
    o = fn.origins(at.args[1], at.point)
    ok = len(o) == 1 and o[0].kind == "call" and o[0].callee() == "hardcode::data_bits"
    ctx.check(rid, ok, fn.path + "/terminator-capacity", at.where(), fn.path, "capacity passed to add_terminator",
              "the terminator is not computed against data_bits(version, level)", found=[x.describe(fn) for x in o],
              sample="add_terminator(.., data_bits(version, ecl))")
    # buffer sized from the version
    fv = fn.calls("compact::CompactQR::from_version")
    ctx.check(rid, len(fv) == 1, fn.path + "/buffer-from-version", where_fn(fn), fn.path, "buffer creation",
              "the bit buffer is not created by from_version(version)", sample="CompactQR::from_version(version)")


# ---------------------------------------------------------------------------
# C02.R2
# ---------------------------------------------------------------------------

def c02_r2(ctx, f):
    rid = "C02.R2"
    ctx.rule(rid, "EC codewords = division(block of data, generator of (version, level)); both block groups")
    fn = anchor_fn(ctx, rid, f, "polynomials::structure")
    if not fn:
        return
    divs = fn.calls("polynomials::division")
    gp = fn.calls("hardcode::get_polynomial")
    ctx.analysed(fn, len(divs) + len(gp))
    ctx.floor(rid, "division call sites", len(divs), 2)
    if len(gp) != 1:
        ctx.anchor_missing(rid, "single get_polynomial call in structure")
        return
    pdata = fn.params_of_type("&[u8]")
    gdef = [d for d in fn.defs()[0] if d.kind == "calldest" and d.point == gp[0].point][0]
    for k, c in enumerate(sorted(divs, key=lambda c: c.line)):
        o = fn.origins(c.args[1], c.point)
        ctx.check(rid, len(o) == 1 and o[0].kind == "call" and o[0].info.id == gdef.id, "%s/division#%d/generator" % (fn.path, k), c.where(),
                  fn.path, "generator passed to division #%d" % k, "the block is not divided by get_polynomial(version, level)",
                  found=[x.describe(fn) for x in o], sample="division(block, get_polynomial(version, quality))")
        e = fn.canon(c.args[0], c.point)
        ctx.check(rid, len(pdata) == 1 and contains(e, ("param", pdata[0])) and any(x[0] == "call" and x[1] == "slice_index" for x in subexprs(e)),
                  "%s/division#%d/block" % (fn.path, k), c.where(), fn.path, "block passed to division #%d" % k,
                  "the dividend is not a sub-slice of the data codewords", found=expr_str(e, fn), sample="division(&data[a..b], ..)")
    # every store into the output buffer reads either data or a division result
    out_local = None
    ro = [o for rp in ret_points(fn) for o in fn.origins({"k": "copy", "p": {"l": 0, "proj": []}}, rp, hide_weak=True)]
    stores = []
    for b in fn.blocks:
        if b["cleanup"]:
            continue
        for i, st in enumerate(b["stmts"]):
            if st["k"] == "assign" and st["p"]["proj"] and st.get("pty") == "u8" and any(isinstance(e, dict) and "idx" in e for e in st["p"]["proj"]):
                stores.append((st, (b["id"], i)))
    ddefs = {d.id for d in fn.defs()[0] if d.kind == "calldest" and d.call.get("callee") == "polynomials::division"}
    kinds = {"ec": 0, "data": 0}
    for st, pt in stores:
        e = fn.canon_rv(st["rv"], pt, 0, None)
        from_div = any(x[0] == "def" and x[1] in ddefs for x in subexprs(e))
        from_data = len(pdata) == 1 and contains(e, ("param", pdata[0]))
        if from_div:
            kinds["ec"] += 1
        elif from_data:
            kinds["data"] += 1
        ctx.check(rid, from_div or from_data, "%s/store/%s" % (fn.path, "other"), fn.where(pt), fn.path, "store into the codeword sequence",
                  "a codeword written to the output is neither a data codeword nor a division result", found=expr_str(e, fn),
                  sample="output[..] = %s" % expr_str(e, fn))
    ctx.floor(rid, "EC stores", kinds["ec"], 2)
    ctx.floor(rid, "data stores", kinds["data"], 2)
    _ = (out_local, ro)
    # zero initialisation (remainder bits / unused tail are zero)
    z = [st for b in fn.blocks if not b["cleanup"] for st in b["stmts"] if st["k"] == "assign" and st["rv"]["k"] == "repeat"]
    ok = any(st["rv"]["op"]["k"] == "const" and st["rv"]["op"].get("val") == 0 for st in z)
    ctx.check(rid, ok, fn.path + "/zero-init", where_fn(fn), fn.path, "output buffer initialisation",
              "the output buffer is not zero-initialised (remainder bits must be zero)", sample="[0; N]")


# ---------------------------------------------------------------------------
# C15.R1
# ---------------------------------------------------------------------------

DRAWERS = {
    "default::create_matrix_pattern": {"finder_pattern"},
    "default::create_matrix_timing": {"timing"},
    "default::create_matrix_dark_module": {"dark"},
    "default::create_matrix_alignments": {"alignment"},
    "default::create_matrix_version_info": {"version"},
    "default::create_matrix_format_info": {"format"},
    "default::create_matrix_empty": {"empty"},
}


def c15_r1(ctx, f, ctor_types=None):
    rid = "C15.R1"
    ctx.rule(rid, "each region writer of the blank symbol constructs modules of exactly one label")
    n = 0
    for path, want in DRAWERS.items():
        fn = anchor_fn(ctx, rid, f, path)
        if not fn:
            continue
        ctors = set()
        sites = 0
        for c in fn.calls():
            if c.callee and c.callee.startswith("module::Module::") and c.term.get("dest_ty") == "module::Module":
                ctors.add(c.callee.split("::")[-1])
                sites += 1
        n += sites
        ctx.analysed(fn, sites)
        if not ctors:
            # no constructor call in the writer (modules come from a constant table or a helper): nothing to read here
            ctx.abstain(rid, "%s constructs no module through Module::<label>() calls: its labels are decided by the blank-symbol evaluation only" % fn.path,
                        where_fn(fn))
            continue
        ctx.check(rid, ctors == want, fn.path + "/label", where_fn(fn), fn.path, "constructors used",
                  "this writer labels its modules with a different (or a second) region type: shape callbacks and the "
                  "data/function distinction would see a wrong map", expected=sorted(want), found=sorted(ctors),
                  sample="%s uses Module::%s (%d sites)" % (path.split("::")[-1], sorted(ctors), sites))
    # the blank symbol starts as all-data, and the format strip is reserved with format-typed modules
    d = anchor_fn(ctx, rid, f, "qr::QRCode::default")
    if d:
        cs = [c.callee.split("::")[-1] for c in d.calls() if c.callee and c.callee.startswith("module::Module::")]
        ctx.check(rid, cs == ["data"], d.path + "/fill", where_fn(d), d.path, "initial fill", "the blank array is not filled with data-typed modules",
                  found=cs, sample="QRCode::default fills with Module::data")
    cm = anchor_fn(ctx, rid, f, "default::create_matrix")
    if cm:
        cs = {c.callee.split("::")[-1] for c in cm.calls() if c.callee and c.callee.startswith("module::Module::") and c.term.get("dest_ty") == "module::Module"}
        ctx.check(rid, cs == {"format"}, cm.path + "/reserve", where_fn(cm), cm.path, "format strip reservation",
                  "the format strip is not reserved with format-typed modules (data placement would overwrite it)", found=sorted(cs),
                  sample="create_matrix reserves the strip with Module::format")
        order = [c.callee for c in cm.calls() if c.callee in DRAWERS]
        ctx.check(rid, set(order) == set(DRAWERS) - {"default::create_matrix_format_info"}, cm.path + "/writers", where_fn(cm), cm.path,
                  "region writers called", "a region writer is missing from (or foreign to) blank-symbol construction",
                  expected=sorted(set(DRAWERS) - {"default::create_matrix_format_info"}), found=order,
                  sample="create_matrix calls %d region writers" % len(order))
        # separators are drawn after version info / alignment so that nothing overwrites finder zones later:
        # `empty` must come after `pattern`
        if "default::create_matrix_pattern" in order and "default::create_matrix_empty" in order:
            ctx.check(rid, order.index("default::create_matrix_pattern") < order.index("default::create_matrix_empty"),
                      cm.path + "/order", where_fn(cm), cm.path, "finder before separators",
                      "separators are drawn before the finder patterns (finder border would overwrite them)",
                      sample="finder patterns drawn before separators")
    ctx.floor(rid, "module constructor call sites in region writers", n, 40)


# ---------------------------------------------------------------------------
# C10 inventory (no verdict)
# ---------------------------------------------------------------------------

def reachable_fns(f, roots):
    seen = set()
    work = list(roots)
    while work:
        p = work.pop()
        if p in seen or p not in f.fns:
            continue
        seen.add(p)
        fn = f.fn(p)
        for c in fn.calls():
            if c.callee and c.callee in f.fns:
                work.append(c.callee)
        # closures created here
        for b in fn.blocks:
            for st in b["stmts"]:
                if st["k"] == "assign" and st["rv"]["k"] == "agg" and st["rv"].get("agg") == "closure":
                    work.append(st["rv"]["path"])
                if st["k"] == "assign" and st["rv"]["k"] in ("use", "cast"):
                    o = st["rv"].get("op")
                    if o and o["k"] == "const" and o.get("fn") in f.fns:
                        work.append(o["fn"])
    return seen


PANIC_PREFIXES = ("core::panicking::", "std::rt::begin_panic", "core::option::unwrap_failed", "core::result::unwrap_failed",
                  "core::option::expect_failed")
UNWRAPS = ("std::option::Option::<T>::unwrap", "std::option::Option::<T>::expect", "std::result::Result::<T, E>::unwrap",
           "std::result::Result::<T, E>::expect", "std::result::Result::<T, E>::unwrap_err")


def panic_inventory(ctx, f, roots, label):
    fns = reachable_fns(f, roots)
    sites = []
    asserts = {}
    for p in sorted(fns):
        fn = f.fn(p)
        for c in fn.calls():
            nm = c.name or ""
            if nm.startswith(PANIC_PREFIXES) or nm in UNWRAPS:
                sites.append({"fn": p, "callee": nm, "line": c.line, "macro": (c.macros or [None])[0]})
        for b in fn.blocks:
            t = b["term"]
            if not b["cleanup"] and t and t["k"] == "assert":
                asserts[t["kind"]] = asserts.get(t["kind"], 0) + 1
    ctx.inventory["panic_sites_" + label] = sites
    ctx.inventory["compiler_asserts_" + label] = asserts
    ctx.inventory["functions_reachable_" + label] = len(fns)
    return fns, sites
