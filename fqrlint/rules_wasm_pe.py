"""C17.R6 / C17.R7: the wasm option layer and entry points by partial evaluation (engine E4).

C17.R6 drives a fixed list of option-setter programs through SvgOptions::new, the setters and qr_svg. QRCode::new and
SvgBuilder::to_str are summarised (their behaviour is the subject of C01..C12): the first returns Ok(token) or Err(token), the second
records the builder it is handed. The recorded builder is compared, field by field, with the builder the native API produces
(SvgBuilder::default() plus one native setter call per option that the program set to a well-formed value); options the program
never set must therefore keep the native defaults. A panic anywhere (setter, conversion, indexing) is a violation; after a malformed
value the option's content is unspecified and only the absence of a panic is decided.

C17.R7 evaluates qr() on a symbol whose modules are symbolic: size*size bytes, byte r*size+c is the value of module (r, c).
"""
from .fold import TOP, mk_int, mk_bool
from . import peval
from .peval import _deref_all, _seq_items, _vec_of, NONE, some
from .rules_tables import anchor_fn, where_fn

W = "wasm_host::"
OPTS = "wasm_host::SvgOptions"
SVGB = "convert::svg::SvgBuilder"
BUILDER = "<%s as convert::Builder>::" % SVGB
RESULT = "std::result::Result"

# (text, parsed RGBA or None when malformed)
COLOURS = [
    ("#ff0000", (255, 0, 0, 255)), ("00ff7f", (0, 255, 127, 255)), ("#11223344", (0x11, 0x22, 0x33, 0x44)), ("#FFaa00", (255, 170, 0, 255)),
    ("#000000ff", (0, 0, 0, 255)),
    ("", None), ("#", None), ("#12", None), ("#1234", None), ("#12345", None), ("#1234567890", None), ("zzzzzz", None), ("#gg0000", None),
    ("#é00000", None), ("#0é0000", None), ("##ff0000", None), ("€€", None), ("# ff0000", None),
    # malformed, but with three or four well-formed hex pairs somewhere inside
    ("#zzb2c3d4", None), (" #a1b2c3", None), ("0xa1b2c3", None), ("#a1b2c3zz", None), ("#a1zzb2c3d4", None),
]
POSITIONS = [((), None), ((1.5,), None), ((3.0, 4.5), (3.0, 4.5)), ((1.0, 2.0, 3.0), None), ((0.0, 0.0), (0.0, 0.0))]
IMAGES = ["", "data:image/png;base64,AAAA", "a\"b<c&d'e>", "é.png"]
CONTENTS = ["", "héllo", "7" * 3000]


def _programs(shapes, ibs, ecls, versions):
    """setter programs: list of [(setter, value)]; value is a Python description turned into an abstract value by _mkarg"""
    progs = [[]]
    for txt, _ in COLOURS:
        for fld in ("module_color", "background_color", "image_background_color"):
            progs.append([(fld, txt)])
    for s in shapes:
        progs.append([("shape", s)])
    for s in ibs:
        progs.append([("image_background_shape", s)])
    for m in (0, 1, 4, 9):
        progs.append([("margin", m)])
    for p, _ in POSITIONS:
        progs.append([("image_position", p)])
    progs.append([("image_size", (2.5, 0.25))])
    for im in IMAGES:
        progs.append([("image", im)])
    for e in ecls:
        progs.append([("ecl", e)])
    for v in versions:
        progs.append([("version", v)])
    # sequences: last well-formed value wins, malformed values never trap later, size without position and vice versa
    progs += [
        [("module_color", "#ff0000"), ("module_color", "#00ff00")],
        [("module_color", "zz"), ("module_color", "#0000ff")],
        [("module_color", "#0000ff"), ("module_color", "#12")],
        [("background_color", "#1234567890"), ("image_background_color", "#")],
        [("image_size", (1.0, 0.5)), ("image_size", (4.0, 0.0))],
        [("image_size", (3.0, 1.0)), ("image_position", (1.0,))],
        [("image_position", (5.0, 6.0)), ("image_position", ())],
        [("image_position", (1.0, 2.0, 3.0)), ("image_position", (7.0, 8.0))],
        [("image", "x.png"), ("image", "")],
        [("margin", 2), ("margin", 7)],
        [("shape", shapes[-1]), ("shape", shapes[1 % len(shapes)])],
        [("shape", shapes[2 % len(shapes)]), ("margin", 3), ("module_color", "#010203"), ("background_color", "#04050607"),
         ("image", "logo.svg"), ("image_background_color", "#08090a"), ("image_background_shape", ibs[-1]), ("image_size", (6.0, 1.5)),
         ("image_position", (10.5, 11.0)), ("ecl", ecls[-1]), ("version", versions[-1])],
    ]
    return progs


def _variant(f, path, name):
    ad = f.adts[path]
    names = [v["name"] for v in ad["variants"]]
    if all(not v["fields"] for v in ad["variants"]):
        return ("enum", path, name)
    return ("adt", path, names.index(name), name, ())


def _mkarg(f, pe, ty, val):
    """abstract value of a setter argument of declared type ty, or None when the type is not one the rule can build"""
    if ty == "std::string::String" and isinstance(val, str):
        return ("string", tuple(ord(c) for c in val))
    if ty == "&str" and isinstance(val, str):
        return ("ref", ("const", ("str", val)))
    if ty == "usize" and isinstance(val, int):
        return mk_int("usize", val)
    if ty == "f64" and isinstance(val, float):
        return ("float", val)
    if ty == "std::vec::Vec<f64>" and isinstance(val, tuple):
        return _vec_of(pe, [("float", x) for x in val])
    if ty in f.adts and isinstance(val, str) and f.adts[ty].get("kind", "enum") != "struct":
        names = [v["name"] for v in f.adts[ty]["variants"]]
        if val in names:
            return _variant(f, ty, val)
    return None


def _unit_variants(f, path):
    ad = f.adts.get(path)
    if not ad:
        return []
    return [v["name"] for v in ad["variants"] if not v["fields"]]


class NotComparable(Exception):
    """a value holds something the evaluator left unevaluated: comparing it would compare artefacts, not values"""


def _norm(pe, v, depth=0):
    """a heap-independent, comparable rendering of an abstract value"""
    if v == TOP:
        return "?"
    k = v[0]
    if k in ("harr", "hview", "array"):
        return ("seq", tuple(_norm(pe, x, depth + 1) for x in _seq_items(pe, v)))
    if k == "adt":
        return (v[1].rsplit("::", 1)[-1], v[3], tuple(_norm(pe, x, depth + 1) for x in v[4]))
    if k == "enum":
        return (v[1].rsplit("::", 1)[-1], v[2], ())
    if k == "tuple":
        return ("tuple", tuple(_norm(pe, x, depth + 1) for x in v[1]))
    if k == "string":
        if all(isinstance(x, int) for x in v[1]):
            return "".join(chr(x) for x in v[1])
        txt = peval._pystr(pe, None, v)
        if txt is not None:
            return txt
        raise NotComparable("a string with parts the evaluator could not render: %s" % str([x for x in v[1] if not isinstance(x, int)][:1])[:120])
    if k == "str":
        return v[1]
    if k in ("fn", "fnaddr"):
        return ("fn", v[1])
    if k == "int":
        return v[2]
    if k == "float":
        return float(v[1])
    return v


def _show(x):
    return str(x)[:160]


class _Native:
    """the native builder for a list of (setter, abstract args), by partial evaluation of the native setters themselves"""

    def __init__(self, f):
        self.f = f
        self.fields = [x["name"] for x in f.adts[SVGB]["variants"][0]["fields"]]

    def build(self, pe, calls):
        r = pe.call("<%s as std::default::Default>::default" % SVGB, [])
        if r.kind != "ret" or r.value == TOP:
            return None, "native SvgBuilder::default does not fold: %s" % (r.why,)
        b = r.value
        for name, args, tys in calls:
            r = pe.call(BUILDER + name, [("cell", 0)] + list(args), cells=[b], subst=tys)
            if r.kind != "ret" or not r.cells or r.cells[0] == TOP:
                return None, "native setter %s does not fold: %s" % (name, r.why)
            b = r.cells[0]
        return b, None

    def normal(self, pe, b):
        """field name -> comparable value; an empty layer list is the documented default layer (one square in the module colour)"""
        out = {}
        for n, v in zip(self.fields, b[4]):
            out[n] = _norm(pe, v)
        if out.get("commands") == ("seq", ()) and out.get("command_colors") == ("seq", ()):
            out["commands"] = ("seq", (("fn", "convert::Shape::square"),))
            out["command_colors"] = ("seq", (("Option", "None", ()),))
        return out


def _effective(prog):
    """option -> ('set', value) | ('unspecified',) for the options a program touches (last call decides)"""
    eff = {}
    for name, val in prog:
        if name in ("module_color", "background_color", "image_background_color"):
            rgba = dict(COLOURS).get(val, "missing")
            assert rgba != "missing" or val in ("#00ff00", "#0000ff", "zz", "#010203", "#04050607", "#08090a")
            if rgba == "missing":
                rgba = _parse_plain(val)
            if rgba is None:
                # a malformed colour is not a setting: the value in force before the call (an earlier well-formed one, else the
                # native default) stays in force
                pass
            else:
                eff[name] = ("set", rgba)
        elif name == "image_position":
            if len(val) == 2:
                eff[name] = ("set", val)
            else:
                eff[name] = ("unspecified",)
        else:
            eff[name] = ("set", val)
    return eff


def _parse_plain(txt):
    t = txt[1:] if txt.startswith("#") else txt
    if len(t) in (6, 8) and all(c in "0123456789abcdefABCDEF" for c in t):
        v = [int(t[i:i + 2], 16) for i in range(0, len(t), 2)]
        return tuple(v + [255]) if len(v) == 3 else tuple(v)
    return None


def _native_calls(f, eff):
    """(native setter, args, type parameter bindings) for every option with a well-formed value; fields left unspecified"""
    calls, skip = [], set()
    field_of = {"module_color": ["dot_color"], "background_color": ["background_color"], "image_background_color": ["image_background_color"],
                "image_position": ["image_position"], "shape": ["commands", "command_colors"], "margin": ["margin"], "image": ["image"],
                "image_background_shape": ["image_background_shape"], "image_size": ["image_size", "image_gap"]}
    for name, e in eff.items():
        if name in ("ecl", "version"):
            continue
        if e[0] == "unspecified":
            skip.update(field_of[name])
            continue
        val = e[1]
        if name in ("module_color", "background_color", "image_background_color"):
            calls.append((name, [("array", tuple(mk_int("u8", x) for x in val))], {"C": "[u8; 4]"}))
        elif name == "shape":
            calls.append((name, [_variant(f, "convert::Shape", val)], None))
        elif name == "image_background_shape":
            calls.append((name, [_variant(f, "convert::ImageBackgroundShape", val)], None))
        elif name == "margin":
            calls.append((name, [mk_int("usize", val)], None))
        elif name == "image":
            if val != "":
                calls.append((name, [("string", tuple(ord(c) for c in val))], None))
        elif name == "image_size":
            calls.append(("image_size", [("float", val[0])], None))
            calls.append(("image_gap", [("float", val[1])], None))
        elif name == "image_position":
            calls.append((name, [("float", val[0]), ("float", val[1])], None))
    return calls, skip


def _one_program(f, prog, inst, native, und, bad):
    pe = peval.PEval(f, max_steps=5_000_000)
    r = pe.call(OPTS + "::new", [])
    if r.kind == "diverge":
        bad("SvgOptions::new/panics", inst, "no panic", r.why)
        return False
    if r.kind != "ret" or r.value == TOP:
        und.setdefault("SvgOptions::new does not fold: %s" % r.why, []).append(inst)
        return False
    opts = r.value
    ok = True
    for name, val in prog:
        fn = f.fn(OPTS + "::" + name)
        if fn is None:
            und.setdefault("setter %s not found" % name, []).append(inst)
            ok = False
            break
        tys = fn.raw.get("inputs") or []
        if name == "image_size" and len(tys) == 3:
            args = [_mkarg(f, pe, tys[1], val[0]), _mkarg(f, pe, tys[2], val[1])]
        elif len(tys) == 2:
            args = [_mkarg(f, pe, tys[1], val)]
        else:
            args = [None]
        if tys[:1] != [OPTS] or any(a is None for a in args):
            und.setdefault("setter %s has a signature the rule cannot call: %s" % (name, tys), []).append(inst)
            ok = False
            break
        r = pe.call(OPTS + "::" + name, [opts] + args)
        if r.kind == "diverge":
            bad("%s/panics" % name, inst, "no panic for any value", r.why)
            ok = False
            break
        if r.kind != "ret" or r.value == TOP:
            und.setdefault("setter %s does not fold: %s" % (name, r.why), []).append(inst)
            ok = False
            break
        opts = r.value
    if not ok:
        return False
    eff = _effective(prog)
    calls, skip = _native_calls(f, eff)
    nb, why = native.build(pe, calls)
    if nb is None:
        und.setdefault(why, []).append(inst)
        return False
    want = native.normal(pe, nb)
    want_ecl = ("Option", "Some", (("ECL", eff["ecl"][1], ()),)) if "ecl" in eff else ("Option", "None", ())
    want_ver = ("Option", "Some", (("Version", eff["version"][1], ()),)) if "version" in eff else ("Option", "None", ())
    decided = True
    for content in CONTENTS:
        for encodable in (True, False):
            rec = {}

            def qnew(pe_, st, args, t, rec=rec, encodable=encodable):
                rec["new"] = [_deref_all(pe_, st, a) for a in args]
                if encodable:
                    return ("adt", RESULT, 0, "Ok", (("tok", "QR"),))
                return ("adt", RESULT, 1, "Err", (("tok", "QRCodeError"),))

            def tostr(pe_, st, args, t, rec=rec):
                rec.setdefault("builders", []).append(_deref_all(pe_, st, args[0]))
                rec["qr"] = _deref_all(pe_, st, args[1])
                return ("string", (("tok", "SVG"),))
            pe.summaries["qr::QRCode::new"] = qnew
            pe.summaries[SVGB + "::to_str"] = tostr
            pe.memo = {}
            r = pe.call(W + "qr_svg", [("ref", ("const", ("str", content))), opts])
            what = "qr_svg(%s content)" % ("encodable" if encodable else "unencodable")
            if r.kind == "diverge":
                bad("qr_svg/panics", inst, "no panic", r.why)
                continue
            if r.kind != "ret" or r.value == TOP:
                und.setdefault("qr_svg does not fold: %s" % r.why, []).append(inst)
                decided = False
                continue
            if len(rec.get("new", [])) != 5:
                bad("qr_svg/QRCode::new", inst, "one call of QRCode::new(content, ecl, version, mode, mask)", _show(rec.get("new")))
                continue
            a = [_norm(pe, x) for x in rec["new"]]
            exp_bytes = ("seq", tuple(content.encode()))
            if a[0] != exp_bytes:
                bad("qr_svg/content", inst, "content.as_bytes()", _show(a[0]))
            if a[1] != want_ecl:
                bad("qr_svg/ecl", inst, _show(want_ecl), _show(a[1]))
            if a[2] != want_ver:
                bad("qr_svg/version", inst, _show(want_ver), _show(a[2]))
            if a[3] != ("Option", "None", ()) or a[4] != ("Option", "None", ()):
                bad("qr_svg/mode-mask", inst, "mode and mask automatic (None)", _show(a[3:]))
            if not encodable:
                if _norm(pe, r.value) != "":
                    bad("qr_svg/failure-not-empty", inst, "empty string when the content cannot be encoded", _show(_norm(pe, r.value)))
                continue
            if r.value != ("string", (("tok", "SVG"),)) or len(rec.get("builders", [])) != 1 or rec.get("qr") != ("tok", "QR"):
                bad("qr_svg/not-native-render", inst, "exactly the string SvgBuilder::to_str returns for the built symbol",
                    _show((_norm(pe, r.value), len(rec.get("builders", [])))))
                continue
            b = rec["builders"][0]
            if b == TOP or b[0] != "adt" or b[1] != SVGB:
                und.setdefault("the builder handed to to_str is not a known value", []).append(inst)
                decided = False
                continue
            got = native.normal(pe, b)
            for fld in native.fields:
                if fld in skip:
                    continue
                if got.get(fld) != want.get(fld):
                    bad("qr_svg/builder.%s" % fld, inst, "native: " + _show(want.get(fld)), _show(got.get(fld)))
    return decided


def c17_r6(ctx, f, rid="C17.R6"):
    ctx.rule(rid, "option layer by partial evaluation: for a list of setter programs (well-formed, malformed, partial) no setter and no "
                  "entry point panics, QRCode::new receives content.as_bytes() with the level/version set, and the builder handed to "
                  "the native to_str equals the native builder with the same well-formed settings (unset options keep native defaults); "
                  "failure gives the empty string")
    new = anchor_fn(ctx, rid, f, OPTS + "::new")
    entry = anchor_fn(ctx, rid, f, W + "qr_svg")
    if not new or not entry or SVGB not in f.adts or OPTS not in f.adts:
        return None
    shapes = _unit_variants(f, "convert::Shape")
    ibs = _unit_variants(f, "convert::ImageBackgroundShape")
    ecls = _unit_variants(f, "ecl::ECL")
    versions = [v for v in _unit_variants(f, "version::Version") if v in ("V01", "V07", "V40")]
    if not (shapes and ibs and ecls and versions):
        ctx.abstain(rid, "option enums not found", where_fn(entry))
        return None
    progs = _programs(shapes, ibs, ecls, versions)
    ctx.subset(rid, "%d setter programs x %d contents x (encodable, not encodable): option values are sampled, not enumerated" % (
        len(progs), len(CONTENTS)))
    native = _Native(f)
    und, n_ok = {}, 0
    viol = {}

    def bad(key, inst, expected, found):
        e = viol.setdefault(key, {"insts": [], "expected": expected, "found": found})
        if inst not in e["insts"]:
            e["insts"].append(inst)

    for prog in progs:
        inst = ".".join("%s(%s)" % (n, repr(v)[:24]) for n, v in prog) or "new()"
        try:
            ok_prog = _one_program(f, prog, inst, native, und, bad)
        except NotComparable as e:
            und.setdefault(str(e), []).append(inst)
            ok_prog = False
        if ok_prog:
            n_ok += 1
    for key, e in sorted(viol.items()):
        ctx.fail(rid, "%sqr_svg/%s" % (W, key), where_fn(entry), entry.path,
                 "%s in %d program(s): %s%s" % (key, len(e["insts"]), "; ".join(e["insts"][:4]), " ..." if len(e["insts"]) > 4 else ""),
                 "the wasm option layer disagrees with the native builder or traps", expected=e["expected"], found=e["found"])
    for why, insts in sorted(und.items()):
        ctx.abstain(rid, "%s (%d program(s): %s%s)" % (why, len(insts), "; ".join(insts[:3]), " ..." if len(insts) > 3 else ""), where_fn(entry))
    if n_ok:
        ctx.ok(rid, "%d setter programs: no trap, QRCode::new arguments and the native builder agree" % n_ok, n=n_ok)
    return not und


def c17_r7(ctx, f, rid="C17.R7"):
    ctx.rule(rid, "matrix export by partial evaluation on symbols with symbolic modules: QRCode::new(content.as_bytes(), None x 4), then "
                  "size*size bytes, byte r*size+c = value of module (r, c) as 0/1; the empty array when the content cannot be encoded")
    entry = anchor_fn(ctx, rid, f, W + "qr")
    if not entry:
        return None
    sizes = (21, 25, 177) if ctx.tier != "thorough" else tuple(17 + 4 * v for v in range(1, 41))
    if ctx.tier != "thorough":
        ctx.subset(rid, "symbol sizes 21, 25 and 177 (every module content each); all 40 sizes in the thorough tier")
    viol, und, n_ok = {}, {}, 0

    def bad(key, inst, expected, found):
        e = viol.setdefault(key, {"insts": [], "expected": expected, "found": found})
        if inst not in e["insts"]:
            e["insts"].append(inst)

    for n in sizes:
        for content in CONTENTS:
            for encodable in (True, False):
                inst = "size=%d/content=%d bytes/%s" % (n, len(content.encode()), "encodable" if encodable else "unencodable")
                pe = peval.PEval(f, max_steps=30_000_000)
                r = pe.call("qr::QRCode::default", [mk_int("usize", n)])
                if r.kind != "ret" or r.value == TOP or r.value[0] != "adt" or r.value[4][0] == TOP or r.value[4][0][0] != "harr":
                    und.setdefault("QRCode::default does not fold", []).append(inst)
                    continue
                qr = r.value
                h = qr[4][0]
                for rr in range(n):
                    for cc in range(n):
                        pe.heap.put(h, rr * n + cc, ("adt", "module::Module", 0, "Module", (("tagint", "u8", 0, (rr, cc, False)),)))
                rec = {}

                def qnew(pe_, st, args, t, rec=rec, encodable=encodable, qr=qr):
                    rec.setdefault("new", []).append([_deref_all(pe_, st, a) for a in args])
                    if encodable:
                        return ("adt", RESULT, 0, "Ok", (qr,))
                    return ("adt", RESULT, 1, "Err", (("tok", "QRCodeError"),))
                pe.summaries["qr::QRCode::new"] = qnew
                r = pe.call(W + "qr", [("ref", ("const", ("str", content)))])
                if r.kind == "diverge":
                    bad("panics", inst, "no panic", r.why)
                    continue
                if r.kind != "ret" or r.value == TOP:
                    und.setdefault("qr() does not fold: %s" % r.why, []).append(inst)
                    continue
                calls = rec.get("new", [])
                if len(calls) != 1 or len(calls[0]) != 5:
                    bad("QRCode::new", inst, "one call of QRCode::new(content, None, None, None, None)", "%d call(s)" % len(calls))
                    continue
                a = [_norm(pe, x) for x in calls[0]]
                if a[0] != ("seq", tuple(content.encode())) or any(x != ("Option", "None", ()) for x in a[1:]):
                    bad("QRCode::new-arguments", inst, "content.as_bytes() with every option automatic", _show(a))
                    continue
                items = _seq_items(pe, r.value)
                if items is None:
                    und.setdefault("qr() returns a value that is not a known vector", []).append(inst)
                    continue
                if not encodable:
                    if items:
                        bad("failure-not-empty", inst, "empty array", "%d bytes" % len(items))
                    else:
                        n_ok += 1
                    continue
                if len(items) != n * n:
                    bad("length", inst, "size*size = %d bytes" % (n * n), "%d bytes" % len(items))
                    continue
                wrong = [(k, it) for k, it in enumerate(items) if it != ("tagint", "u8", 0, (k // n, k % n, False))]
                if wrong:
                    k, it = wrong[0]
                    bad("byte-value", inst, "byte %d = value (0/1) of module (%d, %d)" % (k, k // n, k % n), _show(it))
                    continue
                n_ok += 1
    for key, e in sorted(viol.items()):
        ctx.fail(rid, "%sqr/%s" % (W, key), where_fn(entry), entry.path,
                 "%s in %d case(s): %s%s" % (key, len(e["insts"]), "; ".join(e["insts"][:4]), " ..." if len(e["insts"]) > 4 else ""),
                 "the matrix export is not the row-major module values of the natively built symbol", expected=e["expected"], found=e["found"])
    for why, insts in sorted(und.items()):
        ctx.abstain(rid, "%s (%d case(s): %s%s)" % (why, len(insts), "; ".join(insts[:3]), " ..." if len(insts) > 3 else ""), where_fn(entry))
    if n_ok:
        ctx.ok(rid, "%d (size, content, outcome) cases: exact bytes for every module content" % n_ok, n=n_ok)
    return not und
