"""C07.R3: the block division on the property's own basis, by partial evaluation (engine E4).

polynomials::division is a pure function of two byte slices.  For every generator degree in use, with the generator the crate
itself returns for a (version, level) of that degree, it is evaluated on
  * every single-nonzero-byte block a.e_k for all 255 values a at the last position (one step of the loop: the row a.g(x)),
    and for spread values at the first and a middle position (the step iterated over the whole block),
  * blocks with leading and interior zero bytes, all-0xFF, a ramp and fixed pseudo-random contents,
for every block length in use with that degree (quick: the shortest and the longest length per degree), and the cells the interleaver
reads (result[256-len(g) ..][..degree], the contract of C02.R4) are compared with the remainder of block(x).x^degree modulo g(x) over
GF(2^8)/0x11D computed from the definition.  Additivity of the implemented map (that the remainder of a sum is the xor of the
remainders) is not proved here; it follows when the loop body is the uniform xor step read by C07.R2.
"""
import multiprocessing
import os
import random

from .fold import TOP, mk_int, mk_enum
from . import cache, peval, reference as ref
from .rules_tables import anchor_fn, where_fn, division_routine, call_division

ECL = "ecl::ECL"
VERSION = "version::Version"
_G = {}


def model_remainder(block, degree):
    g = ref.generator(degree)  # highest first, monic
    rem = list(block) + [0] * degree
    for i in range(len(block)):
        c = rem[i]
        if c:
            for j in range(len(g)):
                rem[i + j] ^= ref.gf_mul(g[j], c)
    return rem[len(block):]


def _pairs():
    """{degree: {block length: (version, level)}} over all 160 cells"""
    out = {}
    for l in ref.LEVELS:
        for v in range(1, 41):
            d = ref.ec_per_block(v, l)
            sn, sl, ln, ll = ref.layout(v, l)
            for n in ([sl] if not ln else [sl, ll]):
                out.setdefault(d, {}).setdefault(n, (v, l))
    return out


def _blocks(n, d, quick, rnd):
    bl = []
    for a in range(1, 256):  # one step: the last position
        bl.append(("last=%d" % a, [0] * (n - 1) + [a]))
    vals0 = (1, 2, 0x53, 0x8e, 255) if quick else tuple(range(1, 256, 6))
    for a in vals0:
        bl.append(("first=%d" % a, [a] + [0] * (n - 1)))
        if n > 2:
            bl.append(("mid=%d" % a, [0] * (n // 2) + [a] + [0] * (n - n // 2 - 1)))
    # contents on which a cheap integer test of the block coincides with "all zero": byte sum a multiple of 256, xor of all bytes
    # zero, every byte equal, only the last / only the first byte non-zero with value 128 / 1
    if n >= 2:
        bl.append(("sum=256", [1, 255] + [0] * (n - 2)))
        bl.append(("sum=512,spread", [(200 if i % 2 else 56) for i in range(n - n % 2)] + ([0] if n % 2 else [])))
        bl.append(("xor=0", [0x5A, 0x5A] + [0] * (n - 2)))
        bl.append(("xor=0,dense", [((i * 37 + 11) % 256) for i in range(n - 1)] + [__import__("functools").reduce(lambda a, b: a ^ b, [((i * 37 + 11) % 256) for i in range(n - 1)], 0)]))
        r_ = [((i * 53 + 7) % 256) for i in range(n - 1)]
        bl.append(("sum=0 mod 256,dense", r_ + [(-sum(r_)) % 256]))
    bl.append(("all-equal", [0xA7] * n))
    bl.append(("zeros", [0] * n))
    bl.append(("ff", [255] * n))
    bl.append(("ramp", [(7 * i + 3) % 256 for i in range(n)]))
    bl.append(("leading-zeros", [0, 0] + [(i * 29 + 1) % 256 for i in range(n - 2)] if n > 2 else [0] * n))
    bl.append(("interior-zeros", [((i * 31 + 5) % 256 if i % 3 else 0) for i in range(n)]))
    for k in range(2 if quick else 6):
        bl.append(("random%d" % k, [rnd.randrange(256) for _ in range(n)]))
    return bl


def _job(job):
    d, n, v, l, quick = job
    f = _G["facts"]
    pe = peval.PEval(f, max_steps=400_000_000)
    g = pe.call("hardcode::get_polynomial", [mk_enum(VERSION, "V%02d" % v), mk_enum(ECL, l)])
    if g.kind != "ret" or g.value == TOP:
        return job, [("top", "get_polynomial does not fold: %s" % g.why, None)]
    gv = peval._deref_all(pe, None, g.value) if g.value[0] != "ref" or g.value[1][0] == "const" else None
    items = peval._seq_items(pe, gv) if gv is not None else None
    if items is None or any(x == TOP or x[0] != "int" for x in items):
        return job, [("top", "get_polynomial does not return a known byte slice", None)]
    glen = len(items)
    if glen != d + 1:
        return job, [("bad", ("generator-length", d + 1, glen), None)]
    rnd = random.Random(1000 * d + n)
    out = []
    garg = ("ref", ("const", ("array", tuple(items))))
    for name, block in _blocks(n, d, quick, rnd):
        pe.memo = {}
        r = call_division(pe, _G["div"], ("ref", ("const", ("array", tuple(mk_int("u8", b) for b in block)))), garg)
        if r.kind == "diverge":
            out.append(("diverge", r.why, name))
            continue
        res = peval._seq_items(pe, r.value) if r.kind == "ret" and r.value != TOP else None
        if res is None or any(x == TOP or x[0] != "int" for x in res):
            out.append(("top", r.why or "division does not return known bytes", name))
            continue
        got = [x[2] for x in res[256 - glen:256 - glen + d]] if len(res) >= 256 - glen + d else None
        want = model_remainder(block, d)
        if got != want:
            out.append(("bad", ("remainder", want[:6], (got or [])[:6]), name))
        else:
            out.append(("ok", None, name))
    return job, out


def c07_r3(ctx, f, rid="C07.R3"):
    ctx.rule(rid, "block division by partial evaluation on the single-nonzero-byte basis (all 255 values at the last position, spread "
                  "values at the first and a middle position), zero-run, ramp and fixed pseudo-random blocks, for every generator degree "
                  "in use with the crate's own generator: the cells the interleaver reads are the GF(2^8)/0x11D remainder of "
                  "block(x).x^degree modulo g(x)")
    dv = division_routine(ctx, rid, f)
    gp = anchor_fn(ctx, rid, f, "hardcode::get_polynomial")
    if not dv or not gp:
        return None
    fn = dv[0]
    _G["facts"] = f
    _G["div"] = dv
    quick = ctx.tier != "thorough"
    pairs = _pairs()
    jobs = []
    for d in sorted(pairs):
        lens = sorted(pairs[d])
        pick = sorted({lens[0], lens[-1]}) if quick else lens
        for n in pick:
            v, l = pairs[d][n]
            jobs.append((d, n, v, l, quick))
    if quick:
        ctx.subset(rid, "the shortest and the longest block length in use per generator degree (all lengths in the thorough tier); block "
                        "contents are the stated basis and fixed samples, not all 256^n")
    else:
        ctx.subset(rid, "block contents are the stated basis and fixed samples, not all 256^n")
    res = cache.pmap(f, "division-concrete", _job, sorted(jobs, key=lambda j: -j[0] * j[1]), params=(dv[0].path, dv[1]))
    n_ok = 0
    und, bad = {}, {}
    for (d, n, v, l, _), out in res:
        inst = "degree %d / block length %d (V%02d-%s)" % (d, n, v, l)
        for kind, info, name in out:
            if kind == "ok":
                n_ok += 1
            elif kind == "top":
                und.setdefault(info, []).append(inst)
            elif kind == "diverge":
                e = bad.setdefault("panics", {"insts": [], "expected": "a remainder", "found": info})
                e["insts"].append("%s %s" % (inst, name))
            else:
                e = bad.setdefault(info[0], {"insts": [], "expected": info[1], "found": info[2]})
                e["insts"].append("%s %s" % (inst, name or ""))
    if n_ok:
        ctx.ok(rid, "%d (degree, length, block) remainders equal the definition" % n_ok, n=n_ok)
    for key, e in sorted(bad.items()):
        ctx.fail(rid, "polynomials::division/%s" % key, where_fn(fn), fn.path, "%s on %d block(s): %s%s" % (
            key, len(e["insts"]), "; ".join(e["insts"][:3]), " ..." if len(e["insts"]) > 3 else ""),
            "the error-correction codewords are not the remainder of block(x).x^degree by the generator (first six cells shown)",
            expected=e["expected"], found=e["found"])
    for why, insts in sorted(und.items()):
        ctx.abstain(rid, "%s (%d case(s), e.g. %s)" % (why, len(insts), insts[0]), where_fn(fn))
    return not und


# ---------------------------------------------------------------------------------------------------------------------- C07.R4
# The division for EVERY block content: the block bytes are free symbols, every byte the routine computes is a GF(2^8)-linear form
# over them (gfdom.py), the branch on a zero coefficient is evaluated both ways and merged.  This mechanises the induction of
# DESIGN 7.3: what C07.R3 shows on a basis and on samples, this shows for all 256^n contents of each block length.

def _expected_rows(n, d):
    """rows[k][j] = coefficient of block byte k in EC codeword j  (the remainder of x^(n-1-k) . x^d by g)"""
    g = ref.generator(d)  # monic, highest first
    low = g[1:]
    r = list(low)  # x^d mod g
    rows = [None] * n
    for k in range(n - 1, -1, -1):
        rows[k] = list(r)
        t = r[0]
        r = r[1:] + [0]
        if t:
            for j in range(d):
                r[j] ^= ref.gf_mul(low[j], t)
    return rows


def _job4(job):
    from . import gfdom
    d, n, v, l = job
    f = _G["facts"]
    pe = peval.PEval(f, max_steps=400_000_000)
    g = pe.call("hardcode::get_polynomial", [mk_enum(VERSION, "V%02d" % v), mk_enum(ECL, l)])
    if g.kind != "ret" or g.value == TOP:
        return job, ("top", "get_polynomial does not fold: %s" % g.why)
    gv = peval._deref_all(pe, None, g.value) if g.value[0] != "ref" or g.value[1][0] == "const" else None
    items = peval._seq_items(pe, gv) if gv is not None else None
    if items is None or any(x == TOP or x[0] != "int" for x in items):
        return job, ("top", "get_polynomial does not return a known byte slice")
    glen = len(items)
    if glen != d + 1:
        return job, ("bad", "generator-length", d + 1, glen)
    pe.gf = gfdom.GF()
    pe.memo = {}
    r = call_division(pe, _G["div"], ("ref", ("const", ("array", gfdom.atoms(n)))), ("ref", ("const", ("array", tuple(items)))))
    if r.kind == "diverge":
        return job, ("diverge", r.why)
    if r.kind != "ret" or r.value == TOP:
        return job, ("top", r.why or "division does not fold with a symbolic block")
    if r.assumed:
        return job, ("top", "division with a symbolic block relies on an unproved check: %s" % r.assumed[0])
    res = peval._seq_items(pe, r.value)
    if res is None or len(res) < 256 - glen + d:
        return job, ("top", "division does not return an array the interleaver's cells can be read from")
    rows = _expected_rows(n, d)
    for j in range(d):
        cell = res[256 - glen + j]
        fm = gfdom.form_of(cell)
        if fm is None:
            return job, ("top", "EC codeword %d is not a linear form over the block bytes" % j)
        got = dict(fm[1])
        if fm[0] != 0:
            return job, ("bad", "codeword %d/constant" % j, 0, fm[0])
        for k in range(n):
            if got.get(k, 0) != rows[k][j]:
                return job, ("bad", "coefficient", "codeword %d, block byte %d: %d" % (j, k, rows[k][j]), got.get(k, 0))
    return job, ("ok", pe.gf.branches, pe.gf.lookups)


def c07_r4(ctx, f, rid="C07.R4"):
    ctx.rule(rid, "block division for every block content: with the block bytes as free symbols and every computed byte a GF(2^8)-linear "
                  "form over them (branch on a zero coefficient evaluated both ways and merged; log/antilog tables recognised by "
                  "content), each EC codeword the interleaver reads is the linear form of the remainder of block(x).x^degree modulo "
                  "g(x) - for every generator degree and every block length in use")
    dv = division_routine(ctx, rid, f)
    gp = anchor_fn(ctx, rid, f, "hardcode::get_polynomial")
    if not dv or not gp:
        return None
    fn = dv[0]
    _G["facts"] = f
    _G["div"] = dv
    pairs = _pairs()
    jobs = [(d, n) + pairs[d][n] for d in sorted(pairs) for n in sorted(pairs[d])]
    res = cache.pmap(f, "division-forms", _job4, sorted(jobs, key=lambda j: -j[0] * j[1]), params=(dv[0].path, dv[1]))
    n_ok = 0
    und, bad = {}, {}
    for (d, n, v, l), out in res:
        inst = "degree %d / block length %d (V%02d-%s)" % (d, n, v, l)
        if out[0] == "ok":
            n_ok += 1
        elif out[0] == "top":
            und.setdefault(out[1], []).append(inst)
        elif out[0] == "diverge":
            e = bad.setdefault("panics", {"insts": [], "expected": "a remainder", "found": out[1]})
            e["insts"].append(inst)
        else:
            e = bad.setdefault(out[1].split(",")[0].split(" ")[0], {"insts": [], "expected": out[2], "found": out[3]})
            e["insts"].append(inst)
    if n_ok:
        ctx.ok(rid, "%d (degree, block length) pairs: all EC codewords are the remainder's linear forms, for every block content" % n_ok, n=n_ok)
    for key, e in sorted(bad.items()):
        ctx.fail(rid, "polynomials::division/symbolic/%s" % key, where_fn(fn), fn.path, "%s for %d (degree, length) pair(s): %s%s" % (
            key, len(e["insts"]), "; ".join(e["insts"][:3]), " ..." if len(e["insts"]) > 3 else ""),
            "with the block bytes free, an EC codeword is not the GF(2^8)-linear combination of block bytes that the remainder of "
            "block(x).x^degree by the generator prescribes: some block content gets wrong error-correction codewords",
            expected=e["expected"], found=e["found"])
    for why, insts in sorted(und.items()):
        ctx.abstain(rid, "%s (%d case(s), e.g. %s)" % (why, len(insts), insts[0]), where_fn(fn))
    return bool(n_ok) and not und and not bad
