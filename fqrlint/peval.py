"""Partial evaluation of configuration-determined code (engine E4, DESIGN.md 7).

fast_qr's geometry code (blank-symbol drawing, format/version information
writers, the eight mask sweeps, the terminal renderer's row pairing) is
*static* in the binding-time sense: its control flow, loop trip counts and
index arithmetic depend only on the configuration (version, level, mask) --
never on the payload.  For such code constant propagation over MIR is exact:
with the configuration bound to one element of its finite domain every
`SwitchInt` folds, every loop test is a known constant and the loop unrolls.

This module extends the folder of fold.py (B9) with exactly what that needs:

* loops are followed as long as every branch condition is a known constant
  (a branch on an unknown value aborts with 'top': the code is then *not*
  configuration-determined and the rule abstains);
* big arrays (`[Module; 177*177]`) live in a mutable heap object so that a
  store is O(1);
* sub-slices of arrays (`&mut self.data[a..b]`) are references with a
  `sub` projection;
* std iterator adaptors are modelled by their documented semantics as finite
  sequences (Range, RangeInclusive, Rev, StepBy, Enumerate, Chain, slice and
  array iterators);
* small pure crate functions called with scalar arguments are summarised on
  first use (memoised), which is sound because the crate has no statics and no
  interior mutability (C14.P1-P3).

Payload-dependent values stay TOP.  Nothing here is ever given payload bytes.
"""
from .fold import (Folder, TOP, UNIT, INT_BITS, mk_int, mk_bool, _Abort, _State, Result, MODELLED, _has_top)

NONE = ("adt", "std::option::Option", 0, "None", ())
SYMK = ("sbyte", "sbits", "sbit", "tagint", "sbshr", "sbitv")
ARITHK = ("lin", "bv")
from . import gfdom
GFK = gfdom.GFK


def some(v):
    return ("adt", "std::option::Option", 1, "Some", (v,))


class Heap:
    def __init__(self):
        self.arrs = {}
        self.next = 1
        self.version = 0

    def new(self, n, default):
        i = self.next
        self.next += 1
        self.arrs[i] = [n, default, {}]
        return ("harr", i)

    def clone(self, h):
        n, d, c = self.arrs[h[1]]
        i = self.next
        self.next += 1
        self.arrs[i] = [n, d, dict(c)]
        return ("harr", i)

    def get(self, h, i):
        n, d, c = self.arrs[h[1]]
        return c.get(i, d)

    def put(self, h, i, v):
        self.version += 1
        self.arrs[h[1]][2][i] = v

    def length(self, h):
        return self.arrs[h[1]][0]


PMODELS = {}


import re as _re_mod
_OPS_RE = _re_mod.compile(r"^<&?(?:'a )?(?:u8|u16|u32|u64|u128|usize|i8|i16|i32|i64|i128|isize) as std::ops::(?:Add|Sub|Mul|Div|Rem|BitAnd|BitOr|BitXor|Shl|Shr)"
                          r"<&?(?:'a )?(?:u8|u16|u32|u64|u128|usize|i8|i16|i32|i64|i128|isize)>>::(add|sub|mul|div|rem|bitand|bitor|bitxor|shl|shr)$")
_ORD_RE = _re_mod.compile(r"^(?:std|core)::cmp::impls::<impl std::cmp::Ord for (u8|u16|u32|u64|u128|usize|i8|i16|i32|i64|i128|isize)>::(min|max|clamp)$")


_PORD_RE = _re_mod.compile(r"^(?:core|std)::(?:tuple|array|option|slice::cmp|cmp::impls)::.*<impl std::cmp::PartialOrd.*>::(lt|le|gt|ge)$|"
                           r"^<std::option::Option<T> as std::cmp::PartialOrd>::(lt|le|gt|ge)$")


class _Resume(Exception):
    """raised by a model that has already positioned the state itself (nothing to store, no block to enter)"""


def pmodel(*names):
    def deco(f):
        for n in names:
            PMODELS[n] = f
            if n.startswith("core::"):
                PMODELS["std::" + n[6:]] = f
            elif n.startswith("std::"):
                PMODELS["core::" + n[5:]] = f
        return f
    return deco


class PEval(Folder):
    def __init__(self, facts, max_steps=80_000_000, max_depth=24):
        super().__init__(facts, max_depth=max_depth, max_steps=max_steps)
        from . import fold as _fold
        _fold.ADTS = facts.adts
        self.heap = Heap()
        self.memo = {}
        self.steps_total = 0
        self.calls_seen = {}
        self._pdom = {}
        self.lenient = False  # unmodelled external calls abort (False) or are opaque (True)
        self.opaque_hook = None  # lenient mode: (callee name, args, terminator) -> value | None, for external getters a rule gives a meaning
        self.record_trace = False
        self.arith = False  # symbolic arithmetic on payload bytes (encoders): off unless a rule asks for it
        self.atom_ranges = {}
        self.sym_steps = 0
        self.gf = None  # gfdom.GF(): GF(2^8)-linear forms over free block bytes (C07.R4); off unless a rule asks for it
        self.summaries = {}  # callee path -> model, installed by a rule for one evaluation (opaque, separately verified callees)

    # loops are allowed: termination is guaranteed by the step budget, and every
    # branch is on a known constant (otherwise _switch aborts with 'top')
    def _enter_block(self, st, b):
        fr = st.frames[-1]
        fr[2] = b
        fr[3] = 0

    # ------------------------------------------------------------------ values
    def _project(self, st, fidx, v, proj):
        for e in proj:
            if v == TOP:
                return TOP
            if e == "deref":
                if v[0] != "ref":
                    return TOP
                v = self._load_ptr(st, v[1])
            elif isinstance(e, dict) and "boxc" in e:
                v = v[1] if v[0] == "boxed" else TOP
            elif isinstance(e, dict) and "f" in e and v[0] == "boxed":
                pass  # Box -> Unique -> NonNull wrappers: still the box
            elif isinstance(e, dict) and "f" in e:
                i = e["f"]
                if v[0] in ("tuple", "array"):
                    v = v[1][i] if i < len(v[1]) else TOP
                elif v[0] == "adt":
                    v = v[4][i] if i < len(v[4]) else TOP
                elif v[0] == "closure":
                    v = v[2][i] if i < len(v[2]) else TOP
                else:
                    return TOP
            elif isinstance(e, dict) and ("idx" in e or "cidx" in e):
                if "idx" in e:
                    iv = self._load_local(st, fidx, e["idx"])
                    if self.gf is not None and iv != TOP and iv[0] in ("gfl", "gflog"):
                        v = gfdom.lookup(self, v, iv)
                        continue
                    if iv == TOP or iv[0] != "int":
                        return TOP
                    k = iv[2]
                else:
                    k = e["cidx"]
                if v[0] == "array":
                    if e.get("fe"):
                        k = len(v[1]) - k
                    if not 0 <= k < len(v[1]):
                        raise _Abort("diverge", "index %d out of range %d" % (k, len(v[1])))
                    v = v[1][k]
                elif v[0] == "harr":
                    if not 0 <= k < self.heap.length(v):
                        raise _Abort("diverge", "index out of range")
                    v = self.heap.get(v, k)
                elif v[0] == "hview":
                    _, hid, lo, hi = v
                    if e.get("fe"):
                        k = (hi - lo) - k
                    if not 0 <= k < hi - lo:
                        raise _Abort("diverge", "index %d out of range for a slice of length %d" % (k, hi - lo))
                    v = self.heap.get(("harr", hid), lo + k)
                elif v[0] == "symvec":
                    if len(v) > 1 and not 0 <= k < v[1]:
                        raise _Abort("diverge", "index %d out of range for the payload vector of length %d" % (k, v[1]))
                    v = ("sbyte", k)
                elif v[0] == "symslice":
                    if not 0 <= k < v[2] - v[1]:
                        raise _Abort("diverge", "index %d out of range for a payload slice of length %d" % (k, v[2] - v[1]))
                    v = ("sbyte", v[1] + k)
                else:
                    return TOP
            elif isinstance(e, dict) and "sub" in e:
                lo, hi = e["sub"]
                if v[0] == "array":
                    v = ("array", v[1][lo:hi])
                elif v[0] == "harr":
                    v = ("hview", v[1], lo, hi)
                elif v[0] == "hview":
                    v = ("hview", v[1], v[2] + lo, v[2] + hi)
                elif v[0] == "symvec":
                    v = ("symslice", lo, hi)
                elif v[0] == "symslice":
                    v = ("symslice", v[1] + lo, v[1] + hi)
                else:
                    return TOP
            elif isinstance(e, dict) and "dc" in e:
                if v[0] == "adt" and v[2] == e["vi"]:
                    pass
                else:
                    return TOP
            else:
                return TOP
        return v

    def _resolve_idx(self, st, fidx, proj):
        out = []
        for e in proj:
            if isinstance(e, dict) and "idx" in e:
                iv = self._load_local(st, fidx, e["idx"])
                if iv == TOP or iv[0] != "int":
                    return None
                out.append({"cidx": iv[2], "fe": False})
            else:
                out.append(e)
        return out

    def _store(self, st, fidx, p, val):
        if p is None:
            return
        l = p["l"]
        proj = p["proj"]
        if not proj:
            st.frames[fidx][1][l] = val
            return
        proj = self._resolve_idx(st, fidx, proj)
        if proj is None:
            raise _Abort("top", "store through an unknown index")
        cur_f, cur_l, cur_proj = fidx, l, []
        for e in proj:
            if e == "deref":
                base = self._project(st, cur_f, self._load_local(st, cur_f, cur_l), cur_proj)
                if base == TOP or base[0] != "ref" or base[1][0] != "place":
                    raise _Abort("top", "store through an unknown reference")
                _, cur_f, cur_l, pp = base[1]
                cur_proj = list(pp)
            else:
                cur_proj.append(e)
        self.store_ptr(st, ("place", cur_f, cur_l, tuple(cur_proj)), val)

    def store_ptr(self, st, ptr, val):
        if ptr[0] != "place":
            raise _Abort("top", "store through a reference to a constant")
        _, f, l, proj = ptr
        old = self._load_local(st, f, l)
        st.frames[f][1][l] = self._update(st, f, old, list(proj), val)

    def _update(self, st, fidx, old, proj, val, off=0):
        if not proj:
            return val
        e = proj[0]
        if isinstance(e, dict) and "boxc" in e:
            if old == TOP or old[0] != "boxed":
                return TOP
            rest = list(proj[1:])
            # MaybeUninit / ManuallyDrop / MaybeDangling are transparent wrappers: the content is the wrapped value itself
            while rest and isinstance(rest[0], dict) and rest[0].get("name") in ("value", "0") and (old[1] == TOP or old[1][0] != "adt"):
                rest.pop(0)
            return ("boxed", self._update(st, fidx, old[1], rest, val))
        if old == TOP:
            return TOP
        if isinstance(e, dict) and "f" in e:
            i = e["f"]
            if old[0] in ("tuple", "array"):
                items = list(old[1])
                if i >= len(items):
                    return TOP
                items[i] = self._update(st, fidx, items[i], proj[1:], val)
                return (old[0], tuple(items))
            if old[0] == "adt":
                items = list(old[4])
                if i >= len(items):
                    return TOP
                new = self._update(st, fidx, items[i], proj[1:], val)
                if new is items[i]:
                    return old
                items[i] = new
                return old[:4] + (tuple(items),)
            return TOP
        if isinstance(e, dict) and "sub" in e:
            lo, hi = e["sub"]
            # fold the sub-slice into the next index
            rest = proj[1:]
            if not rest:
                raise _Abort("top", "whole-slice store")
            nxt = rest[0]
            if isinstance(nxt, dict) and "cidx" in nxt:
                k = nxt["cidx"]
                if nxt.get("fe"):
                    k = (hi - lo) - k
                if not 0 <= k < hi - lo:
                    raise _Abort("diverge", "index %d out of range for a slice of length %d" % (k, hi - lo))
                return self._update(st, fidx, old, [{"cidx": lo + k, "fe": False}] + list(rest[1:]), val)
            if isinstance(nxt, dict) and "sub" in nxt:
                return self._update(st, fidx, old, [{"sub": (lo + nxt["sub"][0], lo + nxt["sub"][1])}] + list(rest[1:]), val)
            raise _Abort("top", "unsupported projection after sub-slice")
        if isinstance(e, dict) and "cidx" in e:
            k = e["cidx"]
            if old[0] == "array":
                if e.get("fe"):
                    k = len(old[1]) - k
                if not 0 <= k < len(old[1]):
                    raise _Abort("diverge", "index out of range")
                items = list(old[1])
                items[k] = self._update(st, fidx, items[k], proj[1:], val)
                return ("array", tuple(items))
            if old[0] == "harr":
                if not 0 <= k < self.heap.length(old):
                    raise _Abort("diverge", "index out of range")
                cur = self.heap.get(old, k)
                self.heap.put(old, k, self._update(st, fidx, cur, proj[1:], val))
                return old
            return TOP
        if isinstance(e, dict) and "idx" in e:
            raise _Abort("top", "unresolved index in update")
        if isinstance(e, dict) and "dc" in e:
            return self._update(st, fidx, old, proj[1:], val)
        return TOP

    def _rvalue(self, st, rv, dest):
        k = rv["k"]
        if k == "repeat":
            n = rv.get("len")
            if n is not None and n > 512:
                return self.heap.new(n, self._operand(st, rv["op"]))
        elif k == "un" and rv["op"] == "PtrMetadata":
            a = self._operand(st, rv["a"])
            if a != TOP and a[0] == "ref":
                tgt = self._load_ptr(st, a[1])
                if tgt != TOP:
                    if tgt[0] == "hview":
                        return mk_int("usize", tgt[3] - tgt[2])
                    if tgt[0] == "harr":
                        return mk_int("usize", self.heap.length(tgt))
                    if tgt[0] == "symvec" and len(tgt) > 1:
                        return mk_int("usize", tgt[1])
                    if tgt[0] == "symslice":
                        return mk_int("usize", tgt[2] - tgt[1])
        elif k == "cast" and self.gf is not None and rv.get("kind") == "IntToInt" and self._peek_kind(st, rv["op"]) in GFK:
            return gfdom.cast(self, self._operand(st, rv["op"]), rv["ty"])
        elif k == "un" and rv["op"] == "Not" and self.gf is not None and self._peek_kind(st, rv["a"]) == "gfz":
            a = self._operand(st, rv["a"])
            return ("gfz", a[1], not a[2])
        elif k == "cast" and self.arith and rv.get("kind") == "IntToInt":
            from .fold import INT_BITS as IB, fits
            v = self._operand(st, rv["op"])
            ty = rv["ty"]
            if v != TOP and v[0] in ("sbyte", "lin") and ty in IB:
                r = self._range_of(v)
                if r is not None and fits(ty, r[0]) and fits(ty, r[1]):
                    return self._to_lin(v, ty)
                bvv = self._to_bv(v)
                if bvv is None:
                    return TOP
                v = bvv
            if v != TOP and v[0] == "bv" and ty in IB:
                n = IB[ty]
                bits = v[2][:n] + (0,) * max(0, n - len(v[2]))
                return self._bv_norm(ty, bits)
        elif k == "un" and rv["op"] == "Not":
            a = self._operand(st, rv["a"])
            if a != TOP and a[0] == "sbit":
                return ("sbit", a[1], a[2], not a[3])
        elif k == "cast" and rv.get("kind", "").startswith(("PointerExposeProvenance", "PointerExposeAddress", "FnPtrToPtr")) or (
                k == "cast" and rv.get("kind") in ("PtrToPtr", "Transmute") and False):
            v = self._operand(st, rv["op"])
            if v != TOP and v[0] in ("fn", "fnaddr"):
                return ("fnaddr", v[1])
        elif k == "cast" and rv.get("kind") in ("Transmute", "PtrToPtr") and rv["op"].get("p") and rv["op"]["p"]["proj"]:
            p = rv["op"]["p"]
            fidx = len(st.frames) - 1
            base = self._load_local(st, fidx, p["l"])
            if base != TOP and base[0] == "boxed" and all(isinstance(e, dict) and "f" in e for e in p["proj"]):
                return ("ref", ("place", fidx, p["l"], ({"boxc": 1},)))
        elif k == "agg" and rv.get("agg") == "closure":
            return ("closure", rv.get("path"), tuple(self._operand(st, o) for o in rv["ops"]))
        elif k in ("ref", "rawptr"):
            # resolve index projections of this frame before the generic code sees them
            p = rv["p"]
            if any(isinstance(e, dict) and "idx" in e for e in p["proj"]):
                proj = self._resolve_idx(st, len(st.frames) - 1, p["proj"])
                if proj is None:
                    return TOP
                rv = dict(rv, p={"l": p["l"], "proj": proj})
            p = rv["p"]
            # reference through a reference held in a *field* or behind several derefs
            if p["proj"] and p["proj"][0] == "deref" and "deref" in p["proj"][1:]:
                return self._ref_multi(st, p)
        return super()._rvalue(st, rv, dest)

    def _peek_kind(self, st, op):
        v = self._operand(st, op)
        return v[0] if v != TOP else None

    def _ref_multi(self, st, p):
        fidx = len(st.frames) - 1
        cur_f, cur_l, cur_proj = fidx, p["l"], []
        for e in p["proj"]:
            if e == "deref":
                base = self._project(st, cur_f, self._load_local(st, cur_f, cur_l), cur_proj)
                if base == TOP or base[0] != "ref":
                    return TOP
                if base[1][0] != "place":
                    return TOP
                _, cur_f, cur_l, pp = base[1]
                cur_proj = list(pp)
            else:
                cur_proj.append(e)
        return ("ref", ("place", cur_f, cur_l, tuple(cur_proj)))

    # ------------------------------------------- branches on a symbolic boolean
    # Both edges are evaluated up to the immediate post-dominator of the branch and the two states are merged:
    # equal values stay, strings keep their common prefix and get a ("sel", cond, then, else) token, anything else
    # becomes a ("sel", cond, a, b) value (opaque to arithmetic, so a later use as an index or branch aborts).
    def _ipdom(self, fn, b):
        cache = self._pdom.get(fn.path)
        if cache is None:
            n = fn.n
            def dead(i):
                # ends the evaluation (unreachable / a diverging call): not a way to leave the region
                t_ = fn.blocks[i]["term"]
                return fn.blocks[i]["cleanup"] or t_["k"] == "unreachable" or (t_["k"] == "call" and t_.get("target") is None)
            live = [i for i in range(n) if not dead(i)]
            succ = {i: [x for x in fn.succ[i] if not dead(x)] for i in live}
            EXIT = -1
            full = set(live) | {EXIT}
            pd = {i: set(full) for i in live}
            pd[EXIT] = {EXIT}
            changed = True
            while changed:
                changed = False
                for i in live:
                    ss = succ[i] or [EXIT]
                    new = set(full)
                    for x in ss:
                        new &= pd[x]
                    new |= {i}
                    if new != pd[i]:
                        pd[i] = new
                        changed = True
            cache = {}
            for i in live:
                strict = pd[i] - {i}
                best = None
                for c in strict:
                    if len(pd[c]) == len(strict):
                        best = c
                cache[i] = best
            self._pdom[fn.path] = cache
        return cache.get(b)

    def _switch(self, st, t, v):
        if v != TOP and v[0] == "gfz" and self.gf is not None:
            return gfdom.switch(self, st, t, v)
        if v != TOP and v[0] == "sbit":
            return self._sym_switch(st, t, v)
        return super()._switch(st, t, v)

    def _sym_switch(self, st, t, v):
        fr = st.frames[-1]
        fn = fr[0]
        depth = len(st.frames)
        J = self._ipdom(fn, fr[2])
        if J is None or J < 0:
            raise _Abort("top", "branch on a symbolic value without a join point in %s" % fn.path)
        if len(t["arms"]) != 1 or t["arms"][0][0] != 0:
            raise _Abort("top", "symbolic value in a non-boolean switch")
        tgt_false, tgt_true = t["arms"][0][1], t["otherwise"]
        outs = []
        for tgt in (tgt_true, tgt_false):
            s2 = st.clone()
            hv = self.heap.version
            self._enter_block(s2, tgt)
            while not (len(s2.frames) == depth and s2.frames[-1][2] == J and s2.frames[-1][3] == 0):
                self.sym_steps += 1
                if self.sym_steps > self.max_steps:
                    raise _Abort("top", "step budget exhausted under a symbolic branch")
                if len(s2.frames) < depth:
                    raise _Abort("top", "function returns under a symbolic branch")
                done = self._step(s2)
                if done is not None:
                    raise _Abort("top", "evaluation ends under a symbolic branch")
            if self.heap.version != hv:
                raise _Abort("top", "matrix written under a symbolic condition")
            outs.append(s2)
        a, b = outs
        cond = (v[1], v[2])
        if v[3]:
            a, b = b, a
        for i in range(depth):
            la, lb = a.frames[i][1], b.frames[i][1]
            merged = {}
            for k in set(la) | set(lb):
                x, y = la.get(k, TOP), lb.get(k, TOP)
                merged[k] = x if x == y else merge_sel(cond, x, y)
            st.frames[i][1] = merged
        st.frames[-1][2] = J
        st.frames[-1][3] = 0

    def _guarded_iteration(self, st, t, item):
        """`for x in iter.filter(symbolic predicate)`: the iterator has just been advanced past a guarded item.  The loop body is
        run for it on a copy of the state until the loop head (the block holding this next() call) is entered again, and the
        result is merged with the state in which the item was skipped, under the item's condition."""
        _, (cj, ck, neg), x = item
        fr = st.frames[-1]
        depth = len(st.frames)
        head = fr[2]
        if t.get("target") is None:
            raise _Abort("top", "guarded iteration without a continuation")
        taken = st.clone()
        hv = self.heap.version
        self._store(taken, depth - 1, t["dest"], some(x))
        self._enter_block(taken, t["target"])
        while not (len(taken.frames) == depth and taken.frames[-1][2] == head and taken.frames[-1][3] == 0):
            self.sym_steps += 1
            if self.sym_steps > self.max_steps:
                raise _Abort("top", "step budget exhausted in a conditionally executed loop body")
            if len(taken.frames) < depth:
                raise _Abort("top", "function returns from a conditionally executed loop body")
            if self._step(taken) is not None:
                raise _Abort("top", "evaluation ends in a conditionally executed loop body")
        if self.heap.version != hv:
            raise _Abort("top", "heap written under a symbolic condition")
        a, b = (taken, st) if not neg else (st, taken)
        cond = (cj, ck)
        for i in range(depth):
            la, lb = a.frames[i][1], b.frames[i][1]
            merged = {}
            for k in set(la) | set(lb):
                u, v = la.get(k, TOP), lb.get(k, TOP)
                merged[k] = u if u == v else merge_sel(cond, u, v)
            st.frames[i][1] = merged
        st.frames[-1][2] = head
        st.frames[-1][3] = 0

    # ------------------------------------------------- symbolic payload bits
    # A payload byte vector may be given as ("symvec",): its bytes are ("sbyte", j).  The only operations the
    # placement code applies to them are `byte & (1 << k)` and `!= 0`, giving ("sbit", j, k, negated).  A module whose
    # value bit is such a symbol is an integer ("tagint", ty, base, tag) with bit 0 symbolic and the other bits known.
    def _binop(self, st, op, a, b):
        ka = a[0] if a != TOP else None
        kb = b[0] if b != TOP else None
        if ka == "fnaddr" and kb == "fnaddr" and op in ("Eq", "Ne"):
            return mk_bool((a[1] == b[1]) == (op == "Eq"))
        if self.gf is not None and (ka in GFK or kb in GFK):
            return gfdom.binop(self, op, a, b)
        if self.arith and (ka in ARITHK or kb in ARITHK or ka == "sbyte" or kb == "sbyte"):
            return self._arith_binop(op, a, b)
        if ka in SYMK or kb in SYMK:
            return self._sym_binop(op, a, b)
        return super()._binop(st, op, a, b)

    # ------------------------------------------------------- symbolic arithmetic (encoders, bit appenders)
    # ("lin", ty, c0, ((atom, coef), ..)): an affine expression over payload atoms with known ranges (self.atom_range);
    # ("bv", ty, (bit0, bit1, ..)): a word whose bits are 0, 1 or ("b", expr-key, k) = bit k of an expression/atom.
    # Only the operations the encoders and push_bits apply have a meaning; everything else is TOP.
    def _range_of(self, v):
        if v == TOP:
            return None
        if v[0] == "int":
            return (v[2], v[2])
        if v[0] == "sbyte":
            return self.atom_range(("sbyte", v[1]))
        if v[0] == "lin":
            lo = hi = v[2]
            for atom, c in v[3]:
                r = self.atom_range(atom)
                if r is None:
                    return None
                lo += min(c * r[0], c * r[1])
                hi += max(c * r[0], c * r[1])
            return (lo, hi)
        if v[0] == "bv":
            hi = sum(1 << i for i, b in enumerate(v[2]) if b != 0)
            lo = sum(1 << i for i, b in enumerate(v[2]) if b == 1)
            return (lo, hi)
        return None

    def atom_range(self, atom):
        return self.atom_ranges.get(atom[0])

    def _to_lin(self, v, ty=None):
        if v == TOP:
            return None
        if v[0] == "int":
            return ("lin", ty or v[1], v[2], ())
        if v[0] == "sbyte":
            return ("lin", ty or "u8", 0, ((("sbyte", v[1]), 1),))
        if v[0] == "lin":
            return v if ty is None else ("lin", ty) + v[2:]
        return None

    def _lin_norm(self, ty, c0, terms):
        d = {}
        for a, c in terms:
            d[a] = d.get(a, 0) + c
        t = tuple(sorted(((a, c) for a, c in d.items() if c), key=repr))
        if not t:
            return mk_int(ty, c0)
        return ("lin", ty, c0, t)

    def _to_bv(self, v, ty=None):
        """word view of a value: constant bits, or 'bit k of <expr>' symbols"""
        from .fold import INT_BITS as IB
        if v == TOP:
            return None
        if v[0] == "bv":
            return v
        if v[0] == "int":
            t = ty or v[1] or "usize"
            n = IB[t]
            x = v[2] & ((1 << n) - 1)
            return ("bv", t, tuple((x >> i) & 1 for i in range(n)))
        if v[0] in ("sbyte", "lin"):
            r = self._range_of(v)
            t = ty or (v[1] if v[0] == "lin" else "u8")
            if r is None or r[0] < 0:
                return None
            n = IB[t]
            key = ("sbyte", v[1]) if v[0] == "sbyte" else v
            if v[0] == "lin" and v[2] == 0 and len(v[3]) == 1 and v[3][0][1] == 1:
                key = v[3][0][0]  # a bare atom keeps its identity through casts
            width = max(1, r[1].bit_length())
            return ("bv", t, tuple(("b", key, i) if i < width else 0 for i in range(n)))
        return None

    def _bv_norm(self, ty, bits):
        if all(b in (0, 1) for b in bits):
            return mk_int(ty, sum(b << i for i, b in enumerate(bits)))
        return ("bv", ty, tuple(bits))

    def _arith_binop(self, op, a, b):
        from .fold import INT_BITS as IB, fits
        ovf = op.endswith("WithOverflow")
        base = op[:-len("WithOverflow")] if ovf else op
        if base.endswith("Unchecked"):
            base = base[:-len("Unchecked")]
        if a == TOP or b == TOP:
            return TOP
        if base in ("Add", "Sub", "Mul") and not (a[0] == "bv" or b[0] == "bv"):
            ty = (a[1] if a[0] in ("int", "lin") else "u8") or (b[1] if b[0] in ("int", "lin") else "u8")
            la, lb = self._to_lin(a), self._to_lin(b)
            if la is None or lb is None:
                return TOP
            if base == "Mul":
                if not lb[3]:
                    k, l = lb[2], la
                elif not la[3]:
                    k, l = la[2], lb
                else:
                    return TOP
                res = self._lin_norm(ty, l[2] * k, tuple((at, c * k) for at, c in l[3]))
            else:
                sg = 1 if base == "Add" else -1
                res = self._lin_norm(ty, la[2] + sg * lb[2], la[3] + tuple((at, sg * c) for at, c in lb[3]))
            r = self._range_of(res)
            if r is None:
                return TOP
            inside = fits(ty, r[0]) and fits(ty, r[1])
            if ovf:
                if inside:
                    return ("tuple", (res, mk_bool(False)))
                if not fits(ty, r[0]) and not fits(ty, r[1]) and (r[0] > 0) == (r[1] > 0):
                    return ("tuple", (TOP, mk_bool(True)))
                return ("tuple", (TOP, TOP))
            return res if inside else TOP
        if base in ("Eq", "Ne", "Lt", "Le", "Gt", "Ge"):
            ra, rb = self._range_of(a), self._range_of(b)
            if ra is None or rb is None:
                return TOP
            if ra[0] == ra[1] and rb[0] == rb[1] and (a[0] != "bv" or all(x in (0, 1) for x in a[2])) and (b[0] != "bv" or all(x in (0, 1) for x in b[2])):
                x, y = ra[0], rb[0]
                return mk_bool({"Eq": x == y, "Ne": x != y, "Lt": x < y, "Le": x <= y, "Gt": x > y, "Ge": x >= y}[base])
            if ra[1] < rb[0]:
                return mk_bool(base in ("Ne", "Lt", "Le"))
            if ra[0] > rb[1]:
                return mk_bool(base in ("Ne", "Gt", "Ge"))
            if ra[1] <= rb[0] and base in ("Le", "Gt"):
                return mk_bool(base == "Le")
            if ra[0] >= rb[1] and base in ("Ge", "Lt"):
                return mk_bool(base == "Ge")
            return TOP
        if base in ("BitAnd", "BitOr", "BitXor", "Shl", "Shr", "Add"):
            ty = a[1] if a[0] in ("int", "lin", "bv") and a[1] else ("u8" if a[0] == "sbyte" else None)
            if base in ("Shl", "Shr"):
                va = self._to_bv(a)
                if va is None or b[0] != "int":
                    return TOP
                n = len(va[2])
                sh = b[2] % n
                if base == "Shl":
                    bits = (0,) * sh + va[2][:n - sh]
                else:
                    bits = va[2][sh:] + (0,) * sh
                return self._bv_norm(va[1], bits)
            ty = ty or (b[1] if b[0] in ("int", "lin", "bv") else "u8")
            va, vb = self._to_bv(a, None if a[0] != "int" else ty), self._to_bv(b, None if b[0] != "int" else ty)
            if va is None or vb is None or len(va[2]) != len(vb[2]):
                return TOP
            out = []
            for x, y in zip(va[2], vb[2]):
                if base == "BitAnd":
                    z = 0 if (x == 0 or y == 0) else (y if x == 1 else (x if y == 1 else (x if x == y else None)))
                elif base in ("BitOr", "Add"):
                    if base == "Add" and x != 0 and y != 0:
                        z = None  # a carry may arise: not a disjoint union
                    else:
                        z = 1 if (x == 1 or y == 1) else (y if x == 0 else (x if y == 0 else (x if x == y else None)))
                else:
                    z = (y if x == 0 else (x if y == 0 else (0 if x == y else None)))
                    if z is None and x in (0, 1) and y in (0, 1):
                        z = x ^ y
                if z is None:
                    return ("tuple", (TOP, TOP)) if ovf else TOP
                out.append(z)
            res = self._bv_norm(va[1], out)
            return ("tuple", (res, mk_bool(False))) if ovf else res
        return TOP

    def _sym_binop(self, op, a, b):
        if a != TOP and a[0] == "int" and b != TOP and b[0] in SYMK and op in ("BitAnd", "BitOr", "BitXor", "Eq", "Ne"):
            a, b = b, a
        if a == TOP or b == TOP or b[0] != "int":
            return TOP
        y = b[2]
        if a[0] == "sbyte":
            if op == "BitAnd" and y > 0 and y & (y - 1) == 0 and y < 256:
                return ("sbits", a[1], y.bit_length() - 1)
            if op == "Shr" and 0 <= y <= 7:
                return ("sbshr", a[1], y)  # byte >> y: bit 0 of the result is bit y of the byte
            return TOP
        if a[0] == "sbshr":
            if op == "BitAnd" and y == 1:
                return ("sbitv", a[1], a[2])  # (byte >> k) & 1: 0 or 1
            return TOP
        if a[0] == "sbitv":
            if (op == "Ne" and y == 0) or (op == "Eq" and y == 1):
                return ("sbit", a[1], a[2], False)
            if (op == "Eq" and y == 0) or (op == "Ne" and y == 1):
                return ("sbit", a[1], a[2], True)
            return TOP
        if a[0] == "sbits":
            if op == "Ne" and y == 0:
                return ("sbit", a[1], a[2], False)
            if op == "Eq" and y == 0:
                return ("sbit", a[1], a[2], True)
            return TOP
        if a[0] == "tagint":
            _, ty, base, tag = a
            if op == "Shr" and y >= 1:
                return mk_int(ty, base >> y)
            if op == "BitAnd":
                if y & 1:
                    return ("tagint", ty, base & y, tag)
                return mk_int(ty, base & y)
            if op == "BitOr":
                if y & 1:
                    return mk_int(ty, base | y)
                return ("tagint", ty, base | y, tag)
            if op == "BitXor":
                nb = (base ^ y) & ~1
                return ("tagint", ty, nb, (tag[0], tag[1], tag[2] ^ bool(y & 1)))
            if op in ("Eq", "Ne") and base == 0 and y in (0, 1):
                neg = tag[2] ^ (op == "Ne") ^ (y == 0)
                return ("sbit", tag[0], tag[1], neg)
            return TOP
        return TOP

    def _split_on_sbit(self, st, name, callee, args, t):
        """callee(&mut small, sbit): evaluate both truth values on a scratch copy of the pointee and merge the two
        results when they differ in bit 0 only (tagging bit 0 with the symbol)"""
        ref_i = [i for i, a in enumerate(args) if a != TOP and a[0] == "ref" and a[1][0] == "place"]
        sb_i = [i for i, a in enumerate(args) if a != TOP and a[0] == "sbit"]
        if len(ref_i) != 1 or len(sb_i) != 1 or len(args) != 2:
            raise _Abort("top", "symbolic boolean passed to %s" % name)
        ptr = args[ref_i[0]][1]
        cur = self._load_ptr(st, ptr)
        bits = module_bits(cur)
        tag0 = None
        if bits is None and cur != TOP and cur[0] == "adt" and cur[4] and cur[4][0] != TOP and cur[4][0][0] == "tagint":
            bits = cur[4][0][2]
            tag0 = cur[4][0][3]
        if bits is None:
            raise _Abort("top", "symbolic boolean passed to %s with an unknown pointee" % name)
        key = ("split", name, bits, ref_i[0])
        if key not in self.memo:
            outs = []
            for val in (False, True):
                sub = PEval(self.facts, max_steps=10000)
                a2 = [None, None]
                a2[ref_i[0]] = ("cell", 0)
                a2[sb_i[0]] = mk_bool(val)
                m = cur[:4] + ((mk_int("u8", bits),),)
                r = sub.run(name, a2, cells=[m])
                outs.append(module_bits(r.cells[0]) if r.kind == "ret" else None)
            self.memo[key] = tuple(outs)
        b0, b1 = self.memo[key]
        if b0 is None or b1 is None:
            raise _Abort("top", "%s does not fold on a concrete module" % name)
        sb = args[sb_i[0]]
        tag = (sb[1], sb[2], sb[3])
        _ = tag0  # the previous symbolic value is overwritten only if the callee ignores it: both results are concrete
        if b0 == b1:
            new = mk_int("u8", b0)
        elif b1 == (b0 | 1) and b0 & 1 == 0:
            new = ("tagint", "u8", b0, tag)
        elif b0 == (b1 | 1) and b1 & 1 == 0:
            new = ("tagint", "u8", b1, (tag[0], tag[1], not tag[2]))
        else:
            raise _Abort("top", "%s changes more than the value bit" % name)
        self.store_ptr(st, ptr, cur[:4] + ((new,),))
        self._store(st, len(st.frames) - 1, t["dest"], UNIT)
        self._enter_block(st, t["target"])

    # ------------------------------------------------------------------- calls
    def _call(self, st, t):
        name = t.get("callee") or t.get("declared")
        if name is None and t.get("indirect"):
            fv = self._operand(st, t["indirect"])
            if fv != TOP and fv[0] == "fn":
                name = fv[1]
        args = [self._operand(st, a) for a in t["args"]]
        self.calls_seen[name] = self.calls_seen.get(name, 0) + 1
        if self.record_trace:
            dargs = [self._load_ptr(st, a[1]) if (a != TOP and a[0] == "ref") else a for a in args]
            st.trace.append({"callee": name, "args": args, "dargs": dargs, "line": t.get("line"), "file": t.get("file"),
                             "depth": len(st.frames) - st.base, "in": st.frames[-1][0].path})
        fidx = len(st.frames) - 1
        if t.get("target") is None:
            raise _Abort("diverge", "diverging call to %s at %s:%s" % (name, t.get("file"), t.get("line")))
        m_op = _OPS_RE.match(name) if name else None
        if m_op and len(args) == 2:
            # `a + &b`, `&a * &b`, ...: the operator on the referenced integers
            a, b = _deref_all(self, st, args[0]), _deref_all(self, st, args[1])
            opn = {"add": "Add", "sub": "Sub", "mul": "Mul", "div": "Div", "rem": "Rem", "bitand": "BitAnd", "bitor": "BitOr",
                   "bitxor": "BitXor", "shl": "Shl", "shr": "Shr"}[m_op.group(1)]
            v = self._binop(st, opn, a, b)
            if v != TOP and v[0] == "tuple" and len(v[1]) == 2:
                v = v[1][0]
            self._store(st, fidx, t["dest"], v)
            self._enter_block(st, t["target"])
            return
        if name and _PORD_RE.match(name) and len(args) == 2:
            v = _partial_ord(self, st, args, t)
            self._store(st, fidx, t["dest"], v)
            self._enter_block(st, t["target"])
            return
        m_ord = _ORD_RE.match(name) if name else None
        if m_ord and all(a != TOP and a[0] == "int" for a in args):
            vals = [a[2] for a in args]
            how = m_ord.group(2)
            if how == "clamp" and vals[1] > vals[2]:
                raise _Abort("diverge", "clamp with min > max")
            r_ = {"min": lambda: min(vals[0], vals[1]), "max": lambda: max(vals[0], vals[1]),
                  "clamp": lambda: max(vals[1], min(vals[2], vals[0]))}[how]()
            self._store(st, fidx, t["dest"], mk_int(m_ord.group(1), r_))
            self._enter_block(st, t["target"])
            return
        if name and name.startswith("std::convert::num::<impl std::convert::From<") and not name.startswith("std::convert::num::<impl std::convert::From<bool>") \
                and len(args) == 1 and args[0] != TOP and args[0][0] in ("int", "float"):
            # lossless numeric widening: From<u8> for u32 / f64, From<f32> for f64, ...
            dst = name.split(" for ", 1)[1].split(">")[0]
            a = args[0]
            from .fold import INT_BITS as _IB
            v = None
            if dst in ("f64", "f32"):
                v = ("float", float(a[2] if a[0] == "int" else a[1]))
            elif dst in _IB and a[0] == "int":
                v = mk_int(dst, a[2])
            if v is not None:
                self._store(st, fidx, t["dest"], v)
                self._enter_block(st, t["target"])
                return
        if name and name.startswith("std::convert::num::<impl std::convert::From<bool> for ") and len(args) == 1 and args[0] != TOP:
            ty = name[len("std::convert::num::<impl std::convert::From<bool> for "):].split(">")[0]
            a = args[0]
            if a[0] == "sbit":
                # the integer whose bit 0 is the symbolic boolean
                self._store(st, fidx, t["dest"], ("tagint", ty, 0, (a[1], a[2], a[3])))
                self._enter_block(st, t["target"])
                return
            if a[0] == "bool":
                self._store(st, fidx, t["dest"], mk_int(ty, 1 if a[1] else 0))
                self._enter_block(st, t["target"])
                return
        if any(a != TOP and a[0] == "sbit" for a in args):
            callee = self.facts.fn(name) if name else None
            if callee is None:
                raise _Abort("top", "symbolic boolean passed to %s" % name)
            self._split_on_sbit(st, name, callee, args, t)
            return
        if name in self.summaries:
            v = self.summaries[name](self, st, args, t)
            self._store(st, fidx, t["dest"], v)
            self._enter_block(st, t["target"])
            return
        if name and name not in PMODELS and name.startswith("<") and " as std::iter::Iterator>::" in name and not self.facts.fn(name):
            # a std iterator's own override of a provided method behaves as the provided method on its remaining items
            g = "std::iter::Iterator::" + name.rsplit("::", 1)[1]
            if g in PMODELS:
                name = g
        if name and name not in PMODELS and name.endswith(" as std::clone::Clone>::clone") and not self.facts.fn(name) and args:
            # Clone of a std value (an iterator adaptor, a range, a tuple of scalars ...): values are immutable in this model, only
            # heap arrays need a copy of their own
            v0 = _deref_all(self, st, args[0])
            if v0 != TOP and v0[0] in ("iter", "adt", "tuple", "array", "int", "bool", "char", "float", "enum", "string", "str", "harr"):
                self._store(st, fidx, t["dest"], _deep_clone(self, v0))
                self._enter_block(st, t["target"])
                return
        if name in PMODELS:
            try:
                v = PMODELS[name](self, st, args, t)
            except _Resume:
                return
            except _Abort as ab:
                if self.lenient and ab.kind == "top":
                    self._opaque_call(st, t, args)  # the model cannot say: treat the call as opaque
                    return
                raise
            self._store(st, fidx, t["dest"], v)
            self._enter_block(st, t["target"])
            return
        if name in MODELLED:
            v = MODELLED[name](self, st, args, t)
            self._store(st, fidx, t["dest"], v)
            self._enter_block(st, t["target"])
            return
        if name in ("<T as std::convert::Into<U>>::into", "std::convert::Into::into") and len(t.get("generics") or []) == 2:
            src, dst = [self._bound_type(st, g) for g in t["generics"]]
            from .fold import INT_BITS as _IB2
            a0 = args[0]
            if a0 != TOP and a0[0] == "int" and src in _IB2 and (dst in _IB2 or dst in ("f64", "f32")):
                # lossless numeric widening through the blanket Into
                self._store(st, fidx, t["dest"], mk_int(dst, a0[2]) if dst in _IB2 else ("float", float(a0[2])))
                self._enter_block(st, t["target"])
                return
            if src == dst:
                self._store(st, fidx, t["dest"], args[0])
                self._enter_block(st, t["target"])
                return
            cands = [p_ for p_, r_ in self.facts.fns.items() if r_.get("name") == "from" and r_.get("inputs") == [src] and r_.get("output") == dst]
            if len(cands) == 1:
                name = cands[0]
        callee = self.facts.fn(name) if name else None
        if callee is None and t.get("callee") is None and t.get("trait") and args and name:
            # an unresolved call of a trait method (inside a default method body): dispatch on the receiver's type
            recv = _deref_all(self, st, args[0])
            if recv != TOP and recv[0] in ("adt", "enum"):
                meth = name.rsplit("::", 1)[1]
                for cand in ("<%s as %s>::%s" % (recv[1], t["trait"], meth),):
                    if self.facts.fn(cand) is not None:
                        name, callee = cand, self.facts.fn(cand)
                        break
                else:
                    # not overridden by the impl: the trait's provided method
                    prov = "%s::%s" % (t["trait"], meth)
                    if self.facts.fn(prov) is not None:
                        name, callee = prov, self.facts.fn(prov)
        if callee is not None and callee.raw["kind"] == "Closure":
            # Fn*/call*(env, (a, b, ..)): the closure body takes its arguments untupled
            if len(args) == 2 and args[1] != TOP and args[1][0] == "tuple":
                self._push_frame(st, callee, [args[0]] + list(args[1][1]), t["dest"], t["target"])
                return
            raise _Abort("top", "closure called with an unknown argument tuple")
        if callee is not None and callee.raw["kind"] != "Closure":
            key = self._memo_key(st, name, args)
            if key is not None and key in self.memo:
                self._store(st, fidx, t["dest"], self.memo[key])
                self._enter_block(st, t["target"])
                return
            sub = self._subst_for(st, callee, t)
            self._push_frame(st, callee, args, t["dest"], t["target"])
            if sub:
                st.frames[-1][1]["subst"] = sub
            if key is not None:
                st.frames[-1].append(key)
            return
        if self.lenient:
            # an external function without a model: result unknown, pointees of mutable references unknown
            if self.opaque_hook is not None:
                v = self.opaque_hook(name, args, t)
                if v is not None:
                    self._store(st, fidx, t["dest"], v)
                    self._enter_block(st, t["target"])
                    return
            self._opaque_call(st, t, args)
            return
        raise _Abort("top", "call to %s is not modelled (at %s:%s)" % (name, t.get("file"), t.get("line")))

    def _bound_type(self, st, name):
        """the concrete type bound to a type-parameter name: the innermost frame that binds it (a closure body sees the
        parameters of the function that created it, whose frame is still below it on the stack)"""
        for fr in reversed(st.frames):
            sub = fr[1].get("subst") if isinstance(fr[1], dict) else None
            if sub and name in sub:
                return sub[name]
        return name

    def _subst_for(self, st, callee, t):
        """type parameters of a generic crate function bound by this call: parameter name -> the caller's argument type"""
        tyts = callee.raw.get("inputs_tyt") or []
        if not any(x.get("k") == "param" for x in tyts):
            return None
        sub = {}
        for x, a in zip(tyts, t["args"]):
            if x.get("k") == "param" and a.get("ty"):
                sub[x["name"]] = self._bound_type(st, a["ty"])
        return sub

    def _memo_key(self, st, name, args):
        out = []
        for a in args:
            s = self._simple(st, a)
            if s is None:
                return None
            out.append(s)
        return (name, tuple(out))

    def _simple(self, st, a, depth=0):
        if a == TOP:
            return None
        k = a[0]
        if k in ("int", "bool", "char", "enum", "float"):
            return a
        if k in ("tuple", "array"):
            if len(a[1]) > 8 or depth > 2:
                return None
            xs = [self._simple(st, x, depth + 1) for x in a[1]]
            return None if any(x is None for x in xs) else (k, tuple(xs))
        if k == "adt":
            if len(a[4]) > 4 or depth > 2:
                return None
            xs = [self._simple(st, x, depth + 1) for x in a[4]]
            return None if any(x is None for x in xs) else a[:4] + (tuple(xs),)
        if k == "ref" and depth == 0:
            v = self._load_ptr(st, a[1])
            if v != TOP and v[0] in ("int", "bool", "char", "enum"):
                return ("refto", v)
        return None

    def _step(self, st):
        fr = st.frames[-1]
        blk = fr[0].blocks[fr[2]]
        if fr[3] >= len(blk["stmts"]) and blk["term"]["k"] == "ret" and len(fr) > 6:
            self.memo[fr[6]] = fr[1].get(0, UNIT)
        return super()._step(st)

    def invoke_closure(self, st, clo, args):
        """run a closure value to completion on top of the current frames and return its result"""
        c = clo
        if c != TOP and c[0] == "ref":
            c = self._load_ptr(st, c[1])
        if c == TOP or c[0] not in ("closure", "fn"):
            raise _Abort("top", "call of an unknown closure")
        if c[0] == "fn":
            # a function item used as a callback: modelled std function or crate function
            for table in (self.summaries, PMODELS, MODELLED):
                if c[1] in table:
                    return table[c[1]](self, st, list(args), {"callee": c[1], "declared": c[1]})
        callee = self.facts.fn(c[1])
        if callee is None and c[0] == "fn" and "::" in c[1]:
            # a tuple-variant / tuple-struct constructor used as a function (`map_err(Error::Io)`)
            ap, vn = c[1].rsplit("::", 1)
            ad = self.facts.adts.get(ap)
            if ad:
                names = [v["name"] for v in ad["variants"]]
                if vn in names and len(ad["variants"][names.index(vn)]["fields"]) == len(args):
                    return ("adt", ap, names.index(vn), vn, tuple(args))
            if ap in ("std::option::Option", "core::option::Option") and vn == "Some" and len(args) == 1:
                return some(args[0])
            if ap in ("std::result::Result", "core::result::Result") and vn in ("Ok", "Err") and len(args) == 1:
                return ("adt", "std::result::Result", 0 if vn == "Ok" else 1, vn, (args[0],))
            if ad is None and vn[:1].isupper() and not self.facts.fns.get(c[1]) and "<" not in ap.rsplit("::", 1)[-1]:
                # a constructor of a type of another crate whose definition was not extracted: the value is known by variant name
                # (index -1: its discriminant is unknown, so a match on it stops the evaluation)
                return ("adt", ap, -1, vn, tuple(args))
        if callee is None:
            raise _Abort("top", "closure body %s not available" % c[1])
        depth = len(st.frames)
        env = [] if c[0] == "fn" else [("ref", ("const", c))]
        # by-value closures (FnOnce / move) take the environment itself
        if c[0] == "closure" and callee.raw["locals"][1]["ty"].startswith("&") is False:
            env = [c]
        self._push_frame(st, callee, env + list(args), None, None)
        while True:
            fr = st.frames[-1]
            blk = fr[0].blocks[fr[2]]
            if len(st.frames) == depth + 1 and fr[3] >= len(blk["stmts"]) and blk["term"]["k"] == "ret":
                val = fr[1].get(0, UNIT)
                st.frames.pop()
                return val
            self.sym_steps += 1
            if self.sym_steps > self.max_steps:
                raise _Abort("top", "step budget exhausted in a closure")
            if self._step(st) is not None:
                raise _Abort("top", "evaluation ended inside a closure")

    # -------------------------------------------------------------- public API
    def call(self, fn_path, args, cells=None, subst=None):
        """run one crate function to completion; returns fold.Result (kind 'ret' | 'top' | 'diverge').
        subst binds the type parameters of a generic entry function (name -> concrete type)"""
        self._pending_subst = dict(subst) if subst else None
        r = self.run(fn_path, args, cells=cells)
        self._pending_subst = None
        return r

    def _push_frame(self, st, fn, args, dest, target):
        super()._push_frame(st, fn, args, dest, target)
        if getattr(self, "_pending_subst", None):
            st.frames[-1][1]["subst"] = self._pending_subst
            self._pending_subst = None


# --------------------------------------------------------------------------
# iterator models: finite sequences ("iter", (values...), pos)
# --------------------------------------------------------------------------

def _deref(pe, st, v):
    if v != TOP and v[0] == "ref":
        return pe._load_ptr(st, v[1])
    return v


def _seq_len(pe, v):
    if v[0] == "array":
        return len(v[1])
    if v[0] == "hview":
        return v[3] - v[2]
    if v[0] == "harr":
        return pe.heap.length(v)
    return None


def _finite(it, what):
    """an endless iterator (cycle) may only be consumed by zip/take/next: every other adaptor would need its infinite tail"""
    if it is not None and len(it) > 3 and it[3] == ("cycle",):
        raise _Abort("top", "%s of an endless iterator" % what)
    return it


def _as_iter(pe, st, v):
    if v == TOP:
        return None
    if v[0] == "iter":
        return v
    if v[0] == "adt" and v[1] == "std::ops::Range":
        lo, hi = v[4]
        if lo == TOP or hi == TOP or lo[0] != "int" or hi[0] != "int":
            return None
        ty = lo[1] or hi[1] or "usize"
        return ("iter", tuple(mk_int(ty, x) for x in range(lo[2], hi[2])), 0)
    if v[0] == "array":
        return ("iter", tuple(v[1]), 0)
    if v[0] == "adt" and v[1] == "std::ops::RangeInclusive" and len(v[4]) >= 2:
        lo, hi = v[4][0], v[4][1]
        ex = v[4][2] if len(v[4]) > 2 else ("bool", False)
        if lo == TOP or hi == TOP or lo[0] != "int" or hi[0] != "int" or ex == TOP or ex[0] != "bool":
            return None
        ty = lo[1] or hi[1] or "usize"
        return ("iter", () if ex[1] else tuple(mk_int(ty, x) for x in range(lo[2], hi[2] + 1)), 0)
    if v[0] == "adt" and v[1] in ("std::option::Option", "core::option::Option"):
        return ("iter", tuple(v[4][:1]) if v[3] == "Some" else (), 0)  # an Option iterates over its zero or one value
    if v[0] == "adt" and st is not None:
        # a type of the crate with its own Iterator impl: run its next() until it answers None
        for cand in ("<%s as std::iter::Iterator>::next" % v[1], "<%s<'_> as std::iter::Iterator>::next" % v[1],
                     "<%s<'a> as std::iter::Iterator>::next" % v[1]):
            if pe.facts.fn(cand) is not None:
                fr = st.frames[-1]
                key = "iter-state-%d" % len(fr[1])
                fr[1][key] = v
                fidx = len(st.frames) - 1
                out = []
                try:
                    for _ in range(200000):
                        o = pe.invoke_closure(st, ("fn", cand), [("ref", ("place", fidx, key, ()))])
                        if o == TOP or o[0] != "adt" or o[1] != "std::option::Option":
                            return None
                        if o[3] != "Some":
                            return ("iter", tuple(out), 0)
                        out.append(o[4][0])
                finally:
                    fr[1].pop(key, None)
                return None
    if v[0] == "enum" and v[1] in ("std::option::Option", "core::option::Option"):
        return ("iter", (), 0)
    if v[0] == "ref":
        tgt = pe._load_ptr(st, v[1])
        if tgt != TOP and v[1][0] == "place" and tgt[0] in ("array", "hview", "harr"):
            # elements addressed through the place, so that `for x in slice.iter_mut()` / `for x in &mut *slice` can write
            n = _seq_len(pe, tgt)
            base = v[1]
            return ("iter", tuple(("ref", ("place", base[1], base[2], tuple(base[3]) + ({"cidx": i, "fe": False},))) for i in range(n)), 0)
        if tgt != TOP and tgt[0] == "array":
            return ("iter", tuple(("ref", ("const", x)) for x in tgt[1]), 0)
        if tgt != TOP and tgt[0] == "symvec" and len(tgt) > 1:
            return ("iter", tuple(("ref", ("const", ("sbyte", i))) for i in range(tgt[1])), 0)
        if tgt != TOP and tgt[0] == "symslice":
            return ("iter", tuple(("ref", ("const", ("sbyte", i))) for i in range(tgt[1], tgt[2])), 0)
        if tgt != TOP and tgt[0] == "hview":
            h = ("harr", tgt[1])
            return ("iter", tuple(("ref", ("const", pe.heap.get(h, i))) for i in range(tgt[2], tgt[3])), 0)
        if tgt != TOP and tgt[0] == "harr":
            return ("iter", tuple(("ref", ("const", pe.heap.get(tgt, i))) for i in range(pe.heap.length(tgt))), 0)
    return None


@pmodel("<I as std::iter::IntoIterator>::into_iter", "std::iter::IntoIterator::into_iter", "<std::vec::Vec<T, A> as std::iter::IntoIterator>::into_iter",
        "core::slice::iter::<impl std::iter::IntoIterator for &'a mut [T]>::into_iter",
        "<&'a std::vec::Vec<T, A> as std::iter::IntoIterator>::into_iter", "<&'a mut std::vec::Vec<T, A> as std::iter::IntoIterator>::into_iter",
        "core::array::iter::<impl std::iter::IntoIterator for &'a [T; N]>::into_iter",
        "core::array::<impl std::iter::IntoIterator for &'a [T; N]>::into_iter", "core::array::<impl std::iter::IntoIterator for &'a mut [T; N]>::into_iter",
        "core::array::iter::<impl std::iter::IntoIterator for &'a mut [T; N]>::into_iter",
        "std::array::iter::<impl std::iter::IntoIterator for [T; N]>::into_iter",
        "core::slice::iter::<impl std::iter::IntoIterator for &'a [T]>::into_iter", "core::slice::<impl [T]>::iter")
def _into_iter(pe, st, args, t):
    a0 = args[0]
    if a0 != TOP and a0[0] == "ref":
        tgt = pe._load_ptr(st, a0[1])
        if tgt != TOP and tgt[0] == "iter":
            return a0  # `for x in iter.by_ref()` / `for x in &mut iter`: the reference itself is the iterator
    name = t.get("callee") or ""
    if a0 != TOP and a0[0] == "adt" and name.startswith("<I as ") and a0[1] not in (
            "std::ops::Range", "std::ops::RangeInclusive", "std::option::Option", "core::option::Option"):
        return a0  # blanket impl: an Iterator is its own IntoIterator; a crate iterator type is driven through its own next()
    it = _as_iter(pe, st, args[0])
    if it is None:
        v = args[0]
        if v != TOP and v[0] == "adt" and name.startswith("<I as "):
            return v
        raise _Abort("top", "iterator over an unknown sequence at %s:%s" % (t.get("file"), t.get("line")))
    return it


@pmodel("std::ops::RangeInclusive::<Idx>::new")
def _range_incl(pe, st, args, t):
    lo, hi = args
    if lo == TOP or hi == TOP or lo[0] != "int" or hi[0] != "int":
        raise _Abort("top", "inclusive range with unknown bounds")
    ty = lo[1] or hi[1] or "usize"
    return ("iter", tuple(mk_int(ty, x) for x in range(lo[2], hi[2] + 1)), 0)


@pmodel("std::iter::Iterator::rev")
def _rev(pe, st, args, t):
    it = _finite(_as_iter(pe, st, args[0]), "rev()")
    if it is None:
        raise _Abort("top", "rev() of an unknown iterator")
    return ("iter", tuple(reversed(it[1][it[2]:])), 0)


@pmodel("std::iter::Iterator::step_by")
def _step_by(pe, st, args, t):
    rf = _range_from(args[0])
    n = args[1]
    if rf and n != TOP and n[0] == "int" and n[2] > 0:
        # an endless `start..` stepped: kept as an endless arithmetic progression until something bounds it (take / zip)
        return ("adt", "std::ops::RangeFrom", 0, "RangeFrom", (mk_int(rf[0], rf[1]),), ("step", n[2]))
    it = _finite(_as_iter(pe, st, args[0]), "step_by()")
    if it is None or n == TOP or n[0] != "int":
        raise _Abort("top", "step_by() of an unknown iterator/step")
    if n[2] == 0:
        raise _Abort("diverge", "step_by(0)")
    return ("iter", tuple(it[1][it[2]::n[2]]), 0)


@pmodel("std::iter::Iterator::enumerate")
def _enumerate(pe, st, args, t):
    it = _finite(_as_iter(pe, st, args[0]), "enumerate()")
    if it is None:
        raise _Abort("top", "enumerate() of an unknown iterator")
    return ("iter", tuple(("tuple", (mk_int("usize", i), x)) for i, x in enumerate(it[1][it[2]:])), 0)


@pmodel("std::iter::Iterator::chain")
def _chain(pe, st, args, t):
    a, b = _finite(_as_iter(pe, st, args[0]), "chain()"), _finite(_as_iter(pe, st, args[1]), "chain()")
    if a is None or b is None:
        raise _Abort("top", "chain() of an unknown iterator")
    return ("iter", tuple(a[1][a[2]:]) + tuple(b[1][b[2]:]), 0)


def _range_from(v):
    """(type, start[, step]) of a `start..` (possibly stepped) with a known start, else None"""
    if v != TOP and v[0] == "adt" and v[1] in ("std::ops::RangeFrom", "core::ops::RangeFrom") and v[4] and v[4][0] != TOP and v[4][0][0] == "int":
        step = v[5][1] if len(v) > 5 and isinstance(v[5], tuple) and v[5][0] == "step" else 1
        return (v[4][0][1] or "usize", v[4][0][2], step)
    return None


@pmodel("std::iter::Iterator::zip")
def _zip(pe, st, args, t):
    rfa, rfb = _range_from(args[0]), _range_from(args[1])
    if rfa or rfb:
        # an endless `start..` zipped with a finite iterator: as long as the finite one (a counter that would overflow its type
        # first does not occur for the lengths evaluated here)
        other = _as_iter(pe, st, args[1] if rfa else args[0]) if not (rfa and rfb) else None
        if other is None or (len(other) > 3 and other[3] == ("cycle",)):
            raise _Abort("top", "zip() of an endless range with an unknown or endless iterator")
        items = list(other[1][other[2]:])
        ty, s0, stp = rfa or rfb
        cnt = [mk_int(ty, s0 + i * stp) for i in range(len(items))]
        pairs = zip(cnt, items) if rfa else zip(items, cnt)
        return ("iter", tuple(("tuple", (x, y)) for x, y in pairs), 0)
    a, b = _as_iter(pe, st, args[0]), _as_iter(pe, st, args[1])
    if a is None or b is None:
        raise _Abort("top", "zip() of an unknown iterator")
    av, bv_ = list(a[1][a[2]:]), list(b[1][b[2]:])
    if len(b) > 3 and b[3] == ("cycle",) and not (len(a) > 3 and a[3] == ("cycle",)):
        bv_ = [bv_[i % len(bv_)] for i in range(len(av))]
    elif len(a) > 3 and a[3] == ("cycle",) and not (len(b) > 3 and b[3] == ("cycle",)):
        av = [av[i % len(av)] for i in range(len(bv_))]
    elif len(a) > 3 and a[3] == ("cycle",):
        raise _Abort("top", "zip of two endless iterators")
    return ("iter", tuple(("tuple", (x, y)) for x, y in zip(av, bv_)), 0)


@pmodel("std::iter::Iterator::take")
def _take(pe, st, args, t):
    rf = _range_from(args[0])
    if rf and args[1] != TOP and args[1][0] == "int":
        return ("iter", tuple(mk_int(rf[0], rf[1] + i * rf[2]) for i in range(args[1][2])), 0)
    a, n = _as_iter(pe, st, args[0]), args[1]
    if a is None or n == TOP or n[0] != "int":
        raise _Abort("top", "take() of an unknown iterator")
    if len(a) > 3 and a[3] == ("cycle",):
        base = list(a[1])
        if not base:
            return ("iter", (), 0)
        return ("iter", tuple(base[(a[2] + i) % len(base)] for i in range(n[2])), 0)
    return ("iter", tuple(a[1][a[2]:a[2] + n[2]]), 0)


def _truth(v, what):
    if v == TOP or v[0] != "bool":
        raise _Abort("top", "%s: closure result is not a known boolean" % what)
    return v[1]


@pmodel("std::iter::Iterator::filter")
def _filter(pe, st, args, t):
    it = _finite(_as_iter(pe, st, args[0]), "filter()")
    if it is None:
        raise _Abort("top", "filter() of an unknown iterator")
    out = []
    for x in it[1][it[2]:]:
        # the predicate receives a reference to the item
        b = pe.invoke_closure(st, args[1], [("ref", ("const", x))])
        if b != TOP and b[0] == "sbit":
            # kept under a symbolic condition: a `for` loop over the result runs its body for this item under that condition
            out.append(("gitem", (b[1], b[2], b[3]), x))
        elif _truth(b, "filter"):
            out.append(x)
    return ("iter", tuple(out), 0)


@pmodel("std::mem::replace", "core::mem::replace", "std::mem::swap", "core::mem::swap", "std::mem::take", "core::mem::take")
def _mem_ops(pe, st, args, t):
    nm = (t.get("callee") or "").rsplit("::", 1)[1]
    r = args[0]
    if r == TOP or r[0] != "ref" or r[1][0] != "place":
        raise _Abort("top", "mem::%s through an unknown reference" % nm)
    old_ = pe._load_ptr(st, r[1])
    if nm == "replace":
        pe.store_ptr(st, r[1], args[1])
        return old_
    if nm == "swap":
        r2 = args[1]
        if r2 == TOP or r2[0] != "ref" or r2[1][0] != "place":
            raise _Abort("top", "mem::swap through an unknown reference")
        other = pe._load_ptr(st, r2[1])
        pe.store_ptr(st, r[1], other)
        pe.store_ptr(st, r2[1], old_)
        return UNIT
    dv = _default_of(pe, t.get("dest_ty") or "")
    if dv is None:
        raise _Abort("top", "mem::take of a type whose default is not modelled")
    pe.store_ptr(st, r[1], dv)
    return old_


def _default_of(pe, ty):
    from .fold import INT_BITS as IB
    if ty in IB:
        return mk_int(ty, 0)
    if ty == "bool":
        return mk_bool(False)
    if ty in ("f64", "f32"):
        return ("float", 0.0)
    if ty == "std::string::String":
        return ("string", ())
    if ty.startswith("std::vec::Vec<"):
        return pe.heap.new(0, TOP)
    if ty.startswith("std::option::Option<"):
        return NONE
    if ty == "()":
        return UNIT
    return None


def _prim_default(pe, st, args, t):
    dv = _default_of(pe, t.get("dest_ty") or "")
    if dv is None:
        raise _Abort("top", "Default::default of %s is not modelled" % t.get("dest_ty"))
    return dv


for _ty in ("u8", "u16", "u32", "u64", "u128", "usize", "i8", "i16", "i32", "i64", "i128", "isize", "bool", "f64", "f32",
            "std::string::String", "std::vec::Vec<T>", "std::option::Option<T>"):
    PMODELS["<%s as std::default::Default>::default" % _ty] = _prim_default


@pmodel("core::array::<impl [T; N]>::map", "std::array::<impl [T; N]>::map")
def _array_map(pe, st, args, t):
    v = args[0]
    if v == TOP or v[0] != "array":
        raise _Abort("top", "array::map of an unknown array")
    return ("array", tuple(pe.invoke_closure(st, args[1], [x]) for x in v[1]))


@pmodel("std::ops::Range::<Idx>::contains", "std::ops::RangeInclusive::<Idx>::contains", "std::ops::Range::<Idx>::is_empty",
        "<std::ops::Range<usize> as std::iter::ExactSizeIterator>::len", "std::iter::ExactSizeIterator::len")
def _range_queries(pe, st, args, t):
    nm = (t.get("callee") or t.get("declared") or "").rsplit("::", 1)[1]
    r = _deref_all(pe, st, args[0])
    it = _finite(_as_iter(pe, st, r), nm)
    if it is None:
        raise _Abort("top", "%s() of an unknown range" % nm)
    vals = it[1][it[2]:]
    if nm == "len":
        return mk_int("usize", len(vals))
    if nm == "is_empty":
        return mk_bool(not vals)
    x = _deref_all(pe, st, args[1])
    if x == TOP or x[0] != "int" or any(v == TOP or v[0] != "int" for v in vals):
        raise _Abort("top", "contains() with unknown values")
    return mk_bool(any(v[2] == x[2] for v in vals))


def _sort_key(pe, st, x):
    k = _plain_known(pe, st, x)
    if k is None:
        raise _Abort("top", "sorting values the evaluator cannot order")

    def flat(v):
        if v[0] in ("tuple", "array"):
            return tuple(flat(y) for y in v[1])
        if v[0] == "int":
            return v[2]
        if v[0] in ("bool", "char"):
            return v[1]
        if v[0] == "str":
            return v[1]
        raise _Abort("top", "sorting values the evaluator cannot order")
    return flat(k)


@pmodel("std::slice::<impl [T]>::sort", "core::slice::<impl [T]>::sort_unstable", "std::slice::<impl [T]>::sort_by_key",
        "core::slice::<impl [T]>::sort_unstable_by_key", "std::vec::Vec::<T, A>::dedup", "core::slice::<impl [T]>::binary_search")
def _sort_family(pe, st, args, t):
    nm = (t.get("callee") or "").rsplit("::", 1)[1]
    r = args[0]
    v = _deref(pe, st, r)
    items = _seq_items(pe, v)
    if r == TOP or r[0] != "ref" or items is None:
        raise _Abort("top", "%s() on an unknown slice" % nm)
    if nm == "binary_search":
        keys = [_sort_key(pe, st, x) for x in items]
        want = _sort_key(pe, st, args[1])
        import bisect
        i = bisect.bisect_left(keys, want)
        if i < len(keys) and keys[i] == want:
            if keys.count(want) > 1:
                raise _Abort("top", "binary_search with duplicate keys (which match is found is unspecified)")
            return ("adt", RESULT, 0, "Ok", (mk_int("usize", i),))
        return ("adt", RESULT, 1, "Err", (mk_int("usize", i),))
    if nm == "dedup":
        out = []
        for x in items:
            if not out or _plain_known(pe, st, out[-1]) != _plain_known(pe, st, x) or _plain_known(pe, st, x) is None:
                out.append(x)
        _vec_set(pe, st, r, out)
        return UNIT
    if nm in ("sort", "sort_unstable"):
        keyed = [(_sort_key(pe, st, x), i, x) for i, x in enumerate(items)]
    else:
        def kf(x):
            k = pe.invoke_closure(st, args[1], [("ref", ("const", x))])
            if k != TOP and k[0] == "adt" and k[1].endswith("cmp::Reverse"):
                inner = _sort_key(pe, st, k[4][0])
                return _Rev(inner)
            return _sort_key(pe, st, k)
        keyed = [(kf(x), i, x) for i, x in enumerate(items)]
    if "unstable" in nm and len({repr(k) for k, _, _ in keyed}) != len(keyed):
        raise _Abort("top", "unstable sort with equal keys (order unspecified)")
    keyed.sort(key=lambda e: (e[0], e[1]))
    new_items = [x for _, _, x in keyed]
    if v[0] in ("harr", "hview") or r[1][0] != "place":
        if v[0] == "harr":
            for i, x in enumerate(new_items):
                pe.heap.put(v, i, x)
        elif v[0] == "hview":
            for i, x in enumerate(new_items):
                pe.heap.put(("harr", v[1]), v[2] + i, x)
        else:
            raise _Abort("top", "sort of a constant slice")
    else:
        base = r[1]
        for i, x in enumerate(new_items):
            pe.store_ptr(st, ("place", base[1], base[2], tuple(base[3]) + ({"cidx": i, "fe": False},)), x)
    return UNIT


class _Rev:
    """ordering wrapper for cmp::Reverse keys"""

    def __init__(self, k):
        self.k = k

    def __lt__(self, o):
        return o.k < self.k

    def __eq__(self, o):
        return isinstance(o, _Rev) and o.k == self.k

    def __repr__(self):
        return "Rev(%r)" % (self.k,)


@pmodel("core::str::<impl str>::parse")
def _str_parse(pe, st, args, t):
    from .fold import INT_BITS as IB
    gen = t.get("generics") or []
    ty = gen[0] if gen else None
    if ty not in IB:
        raise _Abort("top", "parse::<%s>() is not modelled" % ty)
    return PMODELS["core::num::<impl %s>::from_str_radix" % (ty if "core::num::<impl %s>::from_str_radix" % ty in PMODELS else "u64")](
        pe, st, [args[0], mk_int("u32", 10)], t) if ("core::num::<impl %s>::from_str_radix" % ty) in PMODELS else _parse_generic(pe, st, args[0], ty)


def _parse_generic(pe, st, a, ty):
    raise _Abort("top", "parse::<%s>() is not modelled" % ty)


@pmodel("core::str::<impl str>::find", "core::str::<impl str>::rfind", "core::str::<impl str>::split_once")
def _str_find(pe, st, args, t):
    nm = (t.get("callee") or "").rsplit("::", 1)[1]
    s_, p_ = _pystr(pe, st, args[0]), _pattern(pe, st, args[1])
    if s_ is None or p_ is None:
        raise _Abort("top", "%s() on an unknown string or pattern" % nm)
    i = s_.rfind(p_) if nm == "rfind" else s_.find(p_)
    if i < 0:
        return NONE
    if nm == "split_once":
        return some(("tuple", (("ref", ("const", ("str", s_[:i]))), ("ref", ("const", ("str", s_[i + len(p_):]))))))
    return some(mk_int("usize", len(s_[:i].encode())))


@pmodel("core::str::<impl str>::split", "core::str::<impl str>::lines", "core::str::<impl str>::split_whitespace")
def _str_split(pe, st, args, t):
    nm = (t.get("callee") or "").rsplit("::", 1)[1]
    s_ = _pystr(pe, st, args[0])
    if s_ is None:
        raise _Abort("top", "%s() of an unknown string" % nm)
    if nm == "split":
        p_ = _pattern(pe, st, args[1])
        if not p_:
            raise _Abort("top", "split() with an unknown or empty pattern")
        parts = s_.split(p_)
    elif nm == "lines":
        if any(ord(c) > 127 for c in s_) or "\r" in s_:
            raise _Abort("top", "lines() of text with carriage returns is not modelled")
        parts = s_.split("\n")
        if parts and parts[-1] == "":
            parts.pop()
    else:
        if any(ord(c) > 127 for c in s_):
            raise _Abort("top", "split_whitespace() of non-ASCII text is not modelled")
        parts = s_.split()
    return ("iter", tuple(("ref", ("const", ("str", x))) for x in parts), 0)


@pmodel("std::string::String::truncate", "std::string::String::insert", "std::string::String::insert_str", "std::string::String::clear")
def _string_edit(pe, st, args, t):
    nm = (t.get("callee") or "").rsplit("::", 1)[1]
    r = args[0]
    if nm == "clear" and r != TOP and r[0] == "ref":
        cur = _deref_all(pe, st, r)
        if cur != TOP and cur[0] in ("string", "str"):
            # whatever the text was (it may hold symbolic pieces), it is empty afterwards
            pe.store_ptr(st, r[1], ("string", ()))
            return UNIT
    s_ = _pystr(pe, st, r)
    if r == TOP or r[0] != "ref" or s_ is None:
        raise _Abort("top", "String::%s on an unknown string" % nm)
    if nm == "clear":
        pe.store_ptr(st, r[1], ("string", ()))
        return UNIT
    i = args[1]
    if i == TOP or i[0] != "int":
        raise _Abort("top", "String::%s with an unknown index" % nm)
    b = s_.encode()
    if nm == "truncate" and i[2] >= len(b):
        return UNIT
    if i[2] > len(b):
        raise _Abort("diverge", "String::%s(%d) beyond the end" % (nm, i[2]))
    try:
        head, tail = b[:i[2]].decode(), b[i[2]:].decode()
    except UnicodeDecodeError:
        raise _Abort("diverge", "String::%s(%d) not on a char boundary" % (nm, i[2]))
    if nm == "truncate":
        pe.store_ptr(st, r[1], _mkstring(head))
        return UNIT
    ins = _pattern(pe, st, args[2])
    if ins is None:
        raise _Abort("top", "String::%s of unknown text" % nm)
    pe.store_ptr(st, r[1], _mkstring(head + ins + tail))
    return UNIT


def _u8_model(name, fn):
    @pmodel("core::num::<impl u8>::%s" % name)
    def f(pe, st, args, t):
        c = _deref_all(pe, st, args[0])
        if c == TOP or c[0] != "int":
            raise _Abort("top", "u8::%s of an unknown byte" % name)
        return fn(c[2])
    return f


_u8_model("is_ascii_hexdigit", lambda b: mk_bool(chr(b) in "0123456789abcdefABCDEF"))
_u8_model("is_ascii_whitespace", lambda b: mk_bool(chr(b) in " \t\n\x0c\r"))
_u8_model("is_ascii_punctuation", lambda b: mk_bool(b < 128 and chr(b) in "!\"#$%&'()*+,-./:;<=>?@[\\]^_`{|}~"))
_u8_model("is_ascii_graphic", lambda b: mk_bool(33 <= b <= 126))
_u8_model("is_ascii_control", lambda b: mk_bool(b < 32 or b == 127))
_u8_model("to_ascii_uppercase", lambda b: mk_int("u8", b - 32 if 97 <= b <= 122 else b))
_u8_model("to_ascii_lowercase", lambda b: mk_int("u8", b + 32 if 65 <= b <= 90 else b))


def _overflowing(name, pyop):
    names = ["core::num::<impl %s>::overflowing_%s" % (ty, name) for ty in
             ("usize", "u8", "u16", "u32", "u64", "u128", "isize", "i8", "i16", "i32", "i64", "i128")]

    @pmodel(*names)
    def f(pe, st, args, t):
        a, b = args
        if a == TOP or b == TOP or a[0] != "int" or b[0] != "int":
            return TOP
        from .fold import ty_range
        lo, hi = ty_range(a[1])
        x = pyop(a[2], b[2])
        return ("tuple", (mk_int(a[1], (x - lo) % (hi - lo + 1) + lo), mk_bool(not lo <= x <= hi)))
    return f


_overflowing("add", lambda x, y: x + y)
_overflowing("sub", lambda x, y: x - y)
_overflowing("mul", lambda x, y: x * y)


@pmodel("std::iter::Iterator::scan")
def _scan(pe, st, args, t):
    it = _finite(_as_iter(pe, st, args[0]), "scan()")
    if it is None:
        raise _Abort("top", "scan() of an unknown iterator")
    # the closure receives `&mut state`: the state lives in a scratch cell of the current frame
    fr = st.frames[-1]
    key = "scan-state-%d" % len(fr[1])
    fr[1][key] = args[1]
    fidx = len(st.frames) - 1
    out = []
    try:
        for x in it[1][it[2]:]:
            o = _known_adt(pe.invoke_closure(st, args[2], [("ref", ("place", fidx, key, ())), x]), OPTION, "scan")
            if o[3] != "Some":
                break
            out.append(o[4][0])
    finally:
        fr[1].pop(key, None)
    return ("iter", tuple(out), 0)


@pmodel("std::iter::Iterator::take_while", "std::iter::Iterator::skip_while")
def _take_while(pe, st, args, t):
    it = _as_iter(pe, st, args[0])
    if it is None or (len(it) > 3 and it[3] == ("cycle",)):
        raise _Abort("top", "take_while()/skip_while() of an unknown iterator")
    vals = list(it[1][it[2]:])
    k = 0
    while k < len(vals) and _truth(pe.invoke_closure(st, args[1], [("ref", ("const", vals[k]))]), "take_while"):
        k += 1
    if (t.get("callee") or "").endswith("take_while"):
        return ("iter", tuple(vals[:k]), 0)
    return ("iter", tuple(vals[k:]), 0)


@pmodel("std::iter::Iterator::map")
def _map(pe, st, args, t):
    it = _finite(_as_iter(pe, st, args[0]), "map()")
    if it is None:
        raise _Abort("top", "map() of an unknown iterator")
    return ("iter", tuple(pe.invoke_closure(st, args[1], [x]) for x in it[1][it[2]:]), 0)


@pmodel("std::iter::Iterator::all", "std::iter::Iterator::any", "std::iter::Iterator::position",
        "<std::slice::Iter<'a, T> as std::iter::Iterator>::position", "<std::slice::Iter<'a, T> as std::iter::Iterator>::all",
        "<std::slice::Iter<'a, T> as std::iter::Iterator>::any")
def _all_any(pe, st, args, t):
    name = (t.get("callee") or t.get("declared") or "").split("::")[-1]
    r = args[0]
    cur = _deref(pe, st, r)
    if cur != TOP and cur[0] == "iter" and len(cur) > 3 and cur[3] == ("cycle",):
        raise _Abort("top", "%s() on an endless iterator" % name)
    it = _as_iter(pe, st, cur)
    if it is None or r == TOP or r[0] != "ref":
        raise _Abort("top", "%s() of an unknown iterator" % name)
    vals = it[1][it[2]:]
    for k, x in enumerate(vals):
        b = _truth(pe.invoke_closure(st, args[1], [x]), name)
        if name == "all" and not b:
            pe.store_ptr(st, r[1], ("iter", it[1], it[2] + k + 1))
            return mk_bool(False)
        if name == "any" and b:
            pe.store_ptr(st, r[1], ("iter", it[1], it[2] + k + 1))
            return mk_bool(True)
        if name == "position" and b:
            pe.store_ptr(st, r[1], ("iter", it[1], it[2] + k + 1))
            return some(mk_int("usize", k))
    pe.store_ptr(st, r[1], ("iter", it[1], len(it[1])))
    return mk_bool(True) if name == "all" else (mk_bool(False) if name == "any" else NONE)


@pmodel("std::iter::Iterator::skip")
def _skip(pe, st, args, t):
    a, n = _finite(_as_iter(pe, st, args[0]), "skip()"), args[1]
    if a is None or n == TOP or n[0] != "int":
        raise _Abort("top", "skip() of an unknown iterator")
    return ("iter", tuple(a[1][a[2] + n[2]:]), 0)


@pmodel("std::iter::Iterator::next", "std::iter::range::<impl std::iter::Iterator for std::ops::Range<A>>::next",
        "std::iter::range::<impl std::iter::Iterator for std::ops::RangeInclusive<A>>::next",
        "<std::array::IntoIter<T, N> as std::iter::Iterator>::next",
        "<std::iter::Enumerate<I> as std::iter::Iterator>::next",
        "<std::iter::Rev<I> as std::iter::Iterator>::next",
        "<std::iter::StepBy<I> as std::iter::Iterator>::next",
        "<std::iter::Chain<A, B> as std::iter::Iterator>::next",
        "<std::iter::Skip<I> as std::iter::Iterator>::next",
        "<std::iter::Zip<A, B> as std::iter::Iterator>::next",
        "<std::iter::Filter<I, P> as std::iter::Iterator>::next",
        "<std::iter::Map<I, F> as std::iter::Iterator>::next",
        "<std::iter::Cycle<I> as std::iter::Iterator>::next",
        "<std::slice::IterMut<'a, T> as std::iter::Iterator>::next",
        "<std::str::Chars<'a> as std::iter::Iterator>::next",
        "<std::str::CharIndices<'a> as std::iter::Iterator>::next",
        "<std::str::Bytes<'_> as std::iter::Iterator>::next",
        "<std::slice::ChunksExact<'a, T> as std::iter::Iterator>::next",
        "<std::iter::Take<I> as std::iter::Iterator>::next",
        "<std::slice::Iter<'a, T> as std::iter::Iterator>::next")
def _next(pe, st, args, t):
    r = args[0]
    if r == TOP or r[0] != "ref":
        raise _Abort("top", "next() on an unknown iterator")
    cur = pe._load_ptr(st, r[1])
    for _ in range(3):
        # &mut &mut I: advance the iterator the inner reference points to
        if cur != TOP and cur[0] == "ref":
            inner = pe._load_ptr(st, cur[1])
            if inner != TOP and inner[0] == "iter":
                r, cur = cur, inner
                continue
        break
    it = _as_iter(pe, st, cur)
    if it is None:
        raise _Abort("top", "next() on an unknown iterator")
    vals, pos, extra = it[1], it[2], tuple(it[3:])
    if extra == (("cycle",),) and vals:
        pos %= len(vals)  # an endless iterator starts over
    if pos >= len(vals):
        pe.store_ptr(st, r[1], ("iter", vals, pos) + extra)
        return NONE
    pe.store_ptr(st, r[1], ("iter", vals, pos + 1) + extra)
    item = vals[pos]
    if item != TOP and item[0] == "gitem":
        pe._guarded_iteration(st, t, item)
        raise _Resume()
    return some(item)


# --------------------------------------------------------------------------
# slices, arrays, lengths, clones
# --------------------------------------------------------------------------

@pmodel("std::array::<impl std::ops::IndexMut<I> for [T; N]>::index_mut", "std::array::<impl std::ops::Index<I> for [T; N]>::index",
        "core::slice::index::<impl std::ops::Index<I> for [T]>::index", "core::slice::index::<impl std::ops::IndexMut<I> for [T]>::index_mut")
def _array_index(pe, st, args, t):
    base, idx = args
    if base == TOP or base[0] != "ref" or idx == TOP:
        raise _Abort("top", "indexing an unknown array")
    tgt = pe._load_ptr(st, base[1])
    if tgt == TOP:
        raise _Abort("top", "indexing an unknown array")
    if tgt[0] == "array":
        n = len(tgt[1])
    elif tgt[0] == "harr":
        n = pe.heap.length(tgt)
    elif tgt[0] == "hview":
        n = tgt[3] - tgt[2]
    elif tgt[0] == "symvec" and len(tgt) > 1:
        n = tgt[1]
    elif tgt[0] == "symslice":
        n = tgt[2] - tgt[1]
    else:
        raise _Abort("top", "indexing a non-array")
    if idx[0] == "iter" and len(idx) == 3 and all(x != TOP and x[0] == "int" for x in idx[1]):
        # an inclusive range (modelled as the sequence of its values) used as an index
        vals_ = [x[2] for x in idx[1][idx[2]:]]
        if vals_ and vals_ == list(range(vals_[0], vals_[0] + len(vals_))):
            idx = ("adt", "std::ops::Range", 0, "Range", (mk_int("usize", vals_[0]), mk_int("usize", vals_[-1] + 1)))
        elif not vals_:
            raise _Abort("top", "empty inclusive range used as an index")
    if idx[0] == "adt" and idx[1] in ("std::ops::Range", "std::ops::RangeFrom", "std::ops::RangeTo", "std::ops::RangeFull", "std::ops::RangeToInclusive"):
        kind = idx[1].rsplit("::", 1)[1]
        if any(x == TOP or x[0] != "int" for x in idx[4]):
            raise _Abort("top", "slice with unknown bounds")
        vals = [x[2] for x in idx[4]]
        lo, hi = {"Range": lambda: (vals[0], vals[1]), "RangeFrom": lambda: (vals[0], n), "RangeTo": lambda: (0, vals[0]),
                  "RangeFull": lambda: (0, n), "RangeToInclusive": lambda: (0, vals[0] + 1)}[kind]()
        if not (lo <= hi <= n):
            raise _Abort("diverge", "slice %d..%d out of range for length %d" % (lo, hi, n))
        if base[1][0] == "place":
            return ("ref", ("place", base[1][1], base[1][2], tuple(base[1][3]) + ({"sub": (lo, hi)},)))
        return ("ref", ("const", pe._project(st, 0, tgt, [{"sub": (lo, hi)}])))
    if idx[0] == "int":
        if not 0 <= idx[2] < n:
            raise _Abort("diverge", "index %d out of range for length %d" % (idx[2], n))
        if base[1][0] == "place":
            return ("ref", ("place", base[1][1], base[1][2], tuple(base[1][3]) + ({"cidx": idx[2], "fe": False},)))
        return ("ref", ("const", pe._project(st, 0, tgt, [{"cidx": idx[2], "fe": False}])))
    raise _Abort("top", "unsupported index type")


@pmodel("std::cmp::PartialEq::ne")
@pmodel("std::cmp::impls::<impl std::cmp::PartialEq<&B> for &A>::eq", "std::cmp::impls::<impl std::cmp::PartialEq<&B> for &A>::ne",
        "std::cmp::impls::<impl std::cmp::PartialEq<&mut B> for &mut A>::eq", "std::cmp::impls::<impl std::cmp::PartialEq<&mut B> for &mut A>::ne",
        "core::str::traits::<impl std::cmp::PartialEq for str>::eq", "core::str::traits::<impl std::cmp::PartialEq for str>::ne",
        "<std::string::String as std::cmp::PartialEq>::eq", "<std::string::String as std::cmp::PartialEq>::ne",
        "<std::string::String as std::cmp::PartialEq<str>>::eq", "<std::string::String as std::cmp::PartialEq<&'a str>>::eq",
        "<str as std::cmp::PartialEq<std::string::String>>::eq", "<&'a str as std::cmp::PartialEq<std::string::String>>::eq")
def _ref_eq(pe, st, args, t):
    """== / != through references: compared by value (texts as texts, scalars as scalars)"""
    neg = (t.get("callee") or "").endswith("::ne")
    a, b = _deref_all(pe, st, args[0]), _deref_all(pe, st, args[1])
    if a == TOP or b == TOP:
        raise _Abort("top", "comparison of unknown values")
    sa, sb = _pystr(pe, st, a), _pystr(pe, st, b)
    if sa is not None and sb is not None:
        return mk_bool((sa == sb) != neg)
    if a[0] == b[0] and a[0] in ("int", "bool", "char", "enum", "float"):
        return mk_bool((a == b) != neg)
    if a[0] == b[0] == "adt" and a[1] == b[1]:
        eqp = "<%s as std::cmp::PartialEq>::eq" % a[1]
        if pe.facts.fn(eqp) is not None:
            r = pe.invoke_closure(st, ("fn", eqp), [("ref", ("const", a)), ("ref", ("const", b))])
            if r != TOP and r[0] == "bool":
                return mk_bool(r[1] != neg)
    raise _Abort("top", "comparison of values the evaluator cannot compare")


def _partial_ne(pe, st, args, t):
    a, b = _deref_all(pe, st, args[0]), _deref_all(pe, st, args[1])
    gen = t.get("generics") or []
    # the provided method: !self.eq(other); eq is the crate's (derived) impl when there is one
    if gen:
        eqp = "<%s as std::cmp::PartialEq>::eq" % gen[0]
        if pe.facts.fn(eqp) is not None:
            r = pe.invoke_closure(st, ("fn", eqp), [args[0], args[1]])
            if r != TOP and r[0] == "bool":
                return mk_bool(not r[1])
            raise _Abort("top", "PartialEq::eq did not fold")
    if a != TOP and b != TOP and a[0] == b[0] and a[0] in ("int", "bool", "char", "enum"):
        return mk_bool(a != b)
    raise _Abort("top", "ne() on values the evaluator cannot compare")


def _plain_known(pe, st, v, depth=0):
    """a value made of known scalars only (through references, tuples, arrays), rendered for comparison; else None"""
    v = _deref_all(pe, st, v)
    if v == TOP or depth > 4:
        return None
    if v[0] in ("int", "bool", "char", "enum", "float"):
        return v
    if v[0] in ("tuple", "array"):
        xs = [_plain_known(pe, st, x, depth + 1) for x in v[1]]
        return None if any(x is None for x in xs) else (v[0], tuple(xs))
    if v[0] == "str":
        return v
    return None


@pmodel("core::tuple::<impl std::cmp::PartialEq for (U, T)>::eq", "core::tuple::<impl std::cmp::PartialEq for (U, T)>::ne",
        "core::tuple::<impl std::cmp::PartialEq for (V, U, T)>::eq", "core::tuple::<impl std::cmp::PartialEq for (V, U, T)>::ne",
        "core::array::equality::<impl std::cmp::PartialEq<[U; N]> for [T; N]>::eq",
        "core::array::equality::<impl std::cmp::PartialEq<[U; N]> for [T; N]>::ne")
def _tuple_eq(pe, st, args, t):
    a, b = _plain_known(pe, st, args[0]), _plain_known(pe, st, args[1])
    if a is None or b is None:
        raise _Abort("top", "equality of values the evaluator cannot compare")
    eq = a == b
    return mk_bool(eq if (t.get("callee") or "").endswith("::eq") else not eq)


@pmodel("std::cmp::PartialOrd::gt", "std::cmp::PartialOrd::lt", "std::cmp::PartialOrd::ge", "std::cmp::PartialOrd::le",
        "core::cmp::PartialOrd::gt", "core::cmp::PartialOrd::lt", "core::cmp::PartialOrd::ge", "core::cmp::PartialOrd::le")
def _partial_ord_dispatch(pe, st, args, t):
    return _partial_ord(pe, st, args, t)


def _partial_ord(pe, st, args, t):
    nm = (t.get("callee") or t.get("declared") or "").rsplit("::", 1)[1]
    a, b = _deref_all(pe, st, args[0]), _deref_all(pe, st, args[1])

    def key(v):
        if v == TOP:
            raise _Abort("top", "ordering of an unknown value")
        if v[0] == "int":
            return (1, v[2])
        if v[0] in ("bool", "char"):
            return (1, v[1])
        if v[0] == "str":
            return (1, v[1].encode())
        if v[0] == "string" and all(isinstance(x, int) for x in v[1]):
            return (1, "".join(chr(x) for x in v[1]).encode())
        if v[0] in ("tuple", "array"):
            return (1, tuple(key(_deref_all(pe, st, x)) for x in v[1]))
        if v[0] == "adt" and v[1] in ("std::option::Option", "core::option::Option"):
            return (0,) if v[3] == "None" else (1, key(_deref_all(pe, st, v[4][0])))
        if v[0] == "enum" and v[1] in ("std::option::Option", "core::option::Option"):
            return (0,)
        raise _Abort("top", "ordering of values the evaluator cannot order")
    ka, kb = key(a), key(b)
    return mk_bool({"gt": ka > kb, "lt": ka < kb, "ge": ka >= kb, "le": ka <= kb}[nm])


@pmodel("core::slice::<impl [T]>::rchunks")
def _rchunks(pe, st, args, t):
    r, n = args
    v = _deref(pe, st, r)
    items = _seq_items(pe, v)
    if items is None or n == TOP or n[0] != "int":
        raise _Abort("top", "rchunks() on an unknown slice")
    if n[2] == 0:
        raise _Abort("diverge", "rchunks(0)")
    out, hi = [], len(items)
    while hi > 0:
        lo = max(0, hi - n[2])
        out.append(("ref", ("const", ("array", tuple(items[lo:hi])))))
        hi = lo
    return ("iter", tuple(out), 0)


@pmodel("<std::string::String as std::ops::Add<&str>>::add", "<std::string::String as std::ops::AddAssign<&str>>::add_assign")
def _string_add(pe, st, args, t):
    assign = (t.get("callee") or "").endswith("add_assign")
    a = _deref(pe, st, args[0]) if assign else args[0]
    ta, tb = _str_tokens(pe, st, a), _str_tokens(pe, st, args[1])
    if ta is None or tb is None:
        raise _Abort("top", "String + &str on unknown strings")
    v = ("string", tuple(ta) + tuple(tb))
    if assign:
        pe.store_ptr(st, args[0][1], v)
        return UNIT
    return v


@pmodel("core::slice::<impl [T]>::windows")
def _windows(pe, st, args, t):
    v = _deref(pe, st, args[0])
    n = args[1]
    items = _seq_items(pe, v)
    if items is None or n == TOP or n[0] != "int":
        raise _Abort("top", "windows() on an unknown slice")
    if n[2] == 0:
        raise _Abort("diverge", "windows(0)")
    k = n[2]
    return ("iter", tuple(("ref", ("const", ("array", tuple(items[a:a + k])))) for a in range(0, max(0, len(items) - k + 1))), 0)


@pmodel("core::slice::<impl [T]>::split_at", "core::slice::<impl [T]>::split_at_mut")
def _split_at(pe, st, args, t):
    base, k = args
    tgt = _deref(pe, st, base)
    if base == TOP or base[0] != "ref" or tgt == TOP or k == TOP or k[0] != "int":
        raise _Abort("top", "split_at on an unknown slice")
    if tgt[0] == "array":
        n = len(tgt[1])
    elif tgt[0] == "hview":
        n = tgt[3] - tgt[2]
    elif tgt[0] == "harr":
        n = pe.heap.length(tgt)
    elif tgt[0] == "symvec" and len(tgt) > 1:
        n = tgt[1]
    elif tgt[0] == "symslice":
        n = tgt[2] - tgt[1]
    else:
        raise _Abort("top", "split_at on a non-array")
    if not 0 <= k[2] <= n:
        raise _Abort("diverge", "split_at %d out of range for length %d" % (k[2], n))
    if base[1][0] == "place":
        mk = lambda lo, hi: ("ref", ("place", base[1][1], base[1][2], tuple(base[1][3]) + ({"sub": (lo, hi)},)))
    else:
        mk = lambda lo, hi: ("ref", ("const", pe._project(st, 0, tgt, [{"sub": (lo, hi)}])))
    return ("tuple", (mk(0, k[2]), mk(k[2], n)))


@pmodel("core::slice::<impl [T]>::chunks_exact")
def _chunks_exact(pe, st, args, t):
    v = _deref(pe, st, args[0])
    n = args[1]
    if v == TOP or n == TOP or n[0] != "int" or n[2] <= 0:
        raise _Abort("top", "chunks_exact on an unknown slice")
    if v[0] == "symvec" and len(v) > 1:
        lo, hi = 0, v[1]
    elif v[0] == "symslice":
        lo, hi = v[1], v[2]
    elif v[0] in ("array", "harr", "hview"):
        items = _seq_items(pe, v)
        k = n[2]
        end = len(items) - len(items) % k
        return ("iter", tuple(("ref", ("const", ("array", tuple(items[a:a + k])))) for a in range(0, end, k)), 0,
                ("remainder", ("array", tuple(items[end:]))))
    else:
        raise _Abort("top", "chunks_exact on an unknown slice")
    k = n[2]
    end = hi - (hi - lo) % k
    return ("iter", tuple(("ref", ("const", ("symslice", a, a + k))) for a in range(lo, end, k)), 0, ("remainder", ("symslice", end, hi)))


@pmodel("std::slice::ChunksExact::<'a, T>::remainder")
def _chunks_remainder(pe, st, args, t):
    v = _deref(pe, st, args[0])
    if v != TOP and v[0] == "iter" and len(v) > 3 and v[3][0] == "remainder":
        return ("ref", ("const", v[3][1]))
    raise _Abort("top", "remainder() of an unknown chunk iterator")


@pmodel("std::iter::Iterator::cycle")
def _cycle(pe, st, args, t):
    it = _as_iter(pe, st, args[0])
    if it is None or not it[1][it[2]:]:
        raise _Abort("top", "cycle() of an unknown or empty iterator")
    return ("iter", tuple(it[1][it[2]:]), 0, ("cycle",))


@pmodel("std::iter::Iterator::min_by_key", "std::iter::Iterator::max_by_key")
def _min_by_key(pe, st, args, t):
    it = _as_iter(pe, st, args[0])
    if it is None or (len(it) > 3 and it[3] == ("cycle",)):
        raise _Abort("top", "min_by_key() of an unknown iterator")
    is_max = (t.get("callee") or t.get("declared") or "").endswith("max_by_key")
    best = None
    for x in it[1][it[2]:]:
        k = pe.invoke_closure(st, args[1], [("ref", ("const", x))])
        if k == TOP or k[0] != "int":
            raise _Abort("top", "min_by_key(): key is not a known integer")
        if best is None or (k[2] >= best[0] if is_max else k[2] < best[0]):
            best = (k[2], x)
    return NONE if best is None else some(best[1])


@pmodel("std::iter::Iterator::fold", "<std::slice::Iter<'a, T> as std::iter::Iterator>::fold")
def _fold(pe, st, args, t):
    it = _as_iter(pe, st, args[0])
    if it is None or (len(it) > 3 and it[3] == ("cycle",)):
        raise _Abort("top", "fold() of an unknown iterator")
    acc = args[1]
    for x in it[1][it[2]:]:
        acc = pe.invoke_closure(st, args[2], [acc, x])
    return acc


@pmodel("std::iter::Iterator::last", "std::iter::Iterator::nth", "std::iter::Iterator::max", "std::iter::Iterator::min",
        "std::iter::Iterator::product")
def _iter_scalar(pe, st, args, t):
    nm = (t.get("callee") or t.get("declared") or "").rsplit("::", 1)[1]
    src = args[0]
    cur = _deref(pe, st, src) if (src != TOP and src[0] == "ref") else src
    it = _as_iter(pe, st, cur)
    if it is None or (len(it) > 3 and it[3] == ("cycle",) and nm != "nth"):
        raise _Abort("top", "%s() of an unknown iterator" % nm)
    vals = list(it[1][it[2]:])
    if nm == "last":
        return some(vals[-1]) if vals else NONE
    if nm == "nth":
        n = args[1]
        if n == TOP or n[0] != "int":
            raise _Abort("top", "nth() with an unknown index")
        if src != TOP and src[0] == "ref" and src[1][0] == "place":
            pe.store_ptr(st, src[1], ("iter", it[1], min(len(it[1]), it[2] + n[2] + 1)) + tuple(it[3:]))
        return some(vals[n[2]]) if n[2] < len(vals) else NONE
    ints = [_deref_all(pe, st, x) for x in vals]
    if any(x == TOP or x[0] != "int" for x in ints):
        raise _Abort("top", "%s() of unknown integers" % nm)
    if nm == "product":
        ty = t.get("dest_ty") or "usize"
        tot = 1
        for x in ints:
            tot *= x[2]
        from .fold import fits
        if not fits(ty, tot):
            raise _Abort("diverge", "product() overflows %s" % ty)
        return mk_int(ty, tot)
    if not vals:
        return NONE
    best = 0
    for k, x in enumerate(ints):
        if (nm == "max" and x[2] >= ints[best][2]) or (nm == "min" and x[2] < ints[best][2]):
            best = k
    return some(vals[best])


@pmodel("std::iter::Iterator::find", "std::iter::Iterator::find_map", "std::iter::Iterator::rposition")
def _iter_find(pe, st, args, t):
    nm = (t.get("callee") or t.get("declared") or "").rsplit("::", 1)[1]
    r = args[0]
    cur = _deref(pe, st, r)
    it = _as_iter(pe, st, cur)
    if it is None or r == TOP or r[0] != "ref" or (len(it) > 3 and it[3] == ("cycle",)):
        raise _Abort("top", "%s() of an unknown iterator" % nm)
    vals = it[1][it[2]:]
    if nm == "rposition":
        for k in range(len(vals) - 1, -1, -1):
            if _truth(pe.invoke_closure(st, args[1], [vals[k]]), nm):
                return some(mk_int("usize", k))
        return NONE
    for k, x in enumerate(vals):
        if nm == "find":
            if _truth(pe.invoke_closure(st, args[1], [("ref", ("const", x))]), nm):
                pe.store_ptr(st, r[1], ("iter", it[1], it[2] + k + 1))
                return some(x)
        else:
            o = _known_adt(pe.invoke_closure(st, args[1], [x]), OPTION, nm)
            if o[3] == "Some":
                pe.store_ptr(st, r[1], ("iter", it[1], it[2] + k + 1))
                return o
    pe.store_ptr(st, r[1], ("iter", it[1], len(it[1])))
    return NONE


@pmodel("std::iter::Iterator::filter_map", "std::iter::Iterator::flat_map", "std::iter::Iterator::flatten",
        "std::iter::Iterator::copied", "std::iter::Iterator::cloned", "std::iter::Iterator::by_ref", "std::iter::Iterator::inspect",
        "std::iter::Iterator::peekable", "std::iter::Iterator::fuse")
def _iter_adapt(pe, st, args, t):
    nm = (t.get("callee") or t.get("declared") or "").rsplit("::", 1)[1]
    if nm == "by_ref":
        return args[0]
    it = _as_iter(pe, st, args[0])
    if it is None or (len(it) > 3 and it[3] == ("cycle",)):
        raise _Abort("top", "%s() of an unknown iterator" % nm)
    vals = list(it[1][it[2]:])
    if nm in ("peekable", "fuse"):
        return ("iter", tuple(vals), 0)
    if nm in ("copied", "cloned"):
        return ("iter", tuple(_deref(pe, st, x) for x in vals), 0)
    if nm == "inspect":
        for x in vals:
            pe.invoke_closure(st, args[1], [("ref", ("const", x))])
        return ("iter", tuple(vals), 0)
    out = []
    for x in vals:
        if nm == "filter_map":
            o = _known_adt(pe.invoke_closure(st, args[1], [x]), OPTION, nm)
            if o[3] == "Some":
                out.append(o[4][0])
            continue
        inner = pe.invoke_closure(st, args[1], [x]) if nm == "flat_map" else x
        if inner != TOP and inner[0] == "adt" and inner[1] == OPTION:
            if inner[3] == "Some":
                out.append(inner[4][0])
            continue
        sub = _as_iter(pe, st, inner)
        if sub is None or (len(sub) > 3 and sub[3] == ("cycle",)):
            raise _Abort("top", "%s(): inner value is not a known sequence" % nm)
        out += list(sub[1][sub[2]:])
    return ("iter", tuple(out), 0)


@pmodel("std::ops::FnOnce::call_once", "std::ops::FnMut::call_mut", "std::ops::Fn::call")
def _fn_call(pe, st, args, t):
    clo, tup = args[0], args[1] if len(args) > 1 else ("tuple", ())
    if tup == TOP or tup[0] != "tuple":
        raise _Abort("top", "closure called with an unknown argument tuple")
    return pe.invoke_closure(st, clo, list(tup[1]))


@pmodel("std::iter::Iterator::for_each")
def _for_each(pe, st, args, t):
    it = _as_iter(pe, st, args[0])
    if it is None or (len(it) > 3 and it[3] == ("cycle",)):
        raise _Abort("top", "for_each() of an unknown iterator")
    for x in it[1][it[2]:]:
        pe.invoke_closure(st, args[1], [x])
    return UNIT


@pmodel("std::iter::Iterator::count")
def _count(pe, st, args, t):
    it = _as_iter(pe, st, args[0])
    if it is None or (len(it) > 3 and it[3] == ("cycle",)):
        raise _Abort("top", "count() of an unknown iterator")
    return mk_int("usize", len(it[1]) - it[2])


@pmodel("std::iter::Iterator::sum")
def _sum(pe, st, args, t):
    it = _as_iter(pe, st, args[0])
    ty = t.get("dest_ty") or ""
    if it is None or (len(it) > 3 and it[3] == ("cycle",)):
        raise _Abort("top", "sum() of an unknown iterator")
    tot = 0
    for x in it[1][it[2]:]:
        x = _deref_all(pe, st, x)
        if x == TOP or x[0] != "int":
            raise _Abort("top", "sum() of unknown integers")
        tot += x[2]
    from .fold import fits
    if not fits(ty, tot):
        raise _Abort("diverge", "sum() overflows %s" % ty)
    return mk_int(ty, tot)


@pmodel("std::iter::Iterator::collect")
def _collect(pe, st, args, t):
    it = _as_iter(pe, st, args[0])
    dty = t.get("dest_ty") or ""
    if it is None or (len(it) > 3 and it[3] == ("cycle",)):
        raise _Abort("top", "collect() of an unknown iterator")
    vals = tuple(it[1][it[2]:])
    if dty.startswith("std::vec::Vec<"):
        return _vec_of(pe, vals)
    if dty.startswith("std::option::Option<std::vec::Vec<"):
        out = []
        for x in vals:
            o = _known_adt(x, OPTION, "collect::<Option<Vec<_>>>")
            if o[3] != "Some":
                return NONE
            out.append(o[4][0])
        return some(_vec_of(pe, out))
    if dty == "std::string::String":
        out = []
        for x in vals:
            toks = _str_tokens(pe, st, x)
            if toks is None:
                toks = _char_tokens(x)  # a char, or a char selected under symbolic conditions
            if toks is None:
                if x != TOP and x[0] == "int" and x[1] == "char":
                    toks = (x[2],)
                else:
                    raise _Abort("top", "collect::<String>() of unknown pieces")
            out += list(toks)
        return ("string", tuple(out))
    raise _Abort("top", "collect() into %s is not modelled" % dty)


@pmodel("core::slice::<impl [T]>::last", "core::slice::<impl [T]>::first")
def _slice_last(pe, st, args, t):
    v = _deref(pe, st, args[0])
    last = (t.get("callee") or "").endswith("last")
    if v != TOP and v[0] in ("symvec", "symslice"):
        lo, hi = (0, v[1]) if v[0] == "symvec" else (v[1], v[2])
        if hi <= lo:
            return NONE
        return some(("ref", ("const", ("sbyte", hi - 1 if last else lo))))
    items = _seq_items(pe, v)
    if items is not None:
        if not items:
            return NONE
        k = len(items) - 1 if last else 0
        base = args[0]
        if base != TOP and base[0] == "ref" and base[1][0] == "place":
            return some(("ref", ("place", base[1][1], base[1][2], tuple(base[1][3]) + ({"cidx": k, "fe": False},))))
        return some(("ref", ("const", items[k])))
    raise _Abort("top", "first()/last() on an unknown slice")


@pmodel("core::slice::<impl [T]>::get")
def _slice_get(pe, st, args, t):
    base, idx = args
    tgt = _deref(pe, st, base)
    if tgt == TOP or idx == TOP or idx[0] != "int":
        raise _Abort("top", "get() on an unknown slice/index")
    if tgt[0] in ("symvec", "symslice"):
        lo, hi = (0, tgt[1]) if tgt[0] == "symvec" else (tgt[1], tgt[2])
        if not 0 <= idx[2] < hi - lo:
            return NONE
        return some(("ref", ("const", ("sbyte", lo + idx[2]))))
    if tgt[0] == "array":
        n = len(tgt[1])
    elif tgt[0] == "hview":
        n = tgt[3] - tgt[2]
    elif tgt[0] == "harr":
        n = pe.heap.length(tgt)
    else:
        raise _Abort("top", "get() on a non-array")
    if not 0 <= idx[2] < n:
        return NONE
    if base[1][0] == "place":
        return some(("ref", ("place", base[1][1], base[1][2], tuple(base[1][3]) + ({"cidx": idx[2], "fe": False},))))
    return some(("ref", ("const", pe._project(st, 0, tgt, [{"cidx": idx[2], "fe": False}]))))


@pmodel("core::slice::<impl [T]>::copy_from_slice", "core::slice::<impl [T]>::clone_from_slice")
def _copy_from_slice(pe, st, args, t):
    r, src = args
    dv = _deref(pe, st, r)
    sv = _deref(pe, st, src)
    items = _seq_items(pe, sv)
    if items is None and sv != TOP and sv[0] in ("symvec", "symslice"):
        lo, hi = (0, sv[1]) if sv[0] == "symvec" else (sv[1], sv[2])
        items = [("sbyte", i) for i in range(lo, hi)]
    if r == TOP or r[0] != "ref" or dv == TOP or items is None:
        raise _Abort("top", "copy_from_slice on unknown slices")
    if dv[0] == "hview":
        n = dv[3] - dv[2]
    elif dv[0] == "harr":
        n = pe.heap.length(dv)
    elif dv[0] == "array":
        n = len(dv[1])
    else:
        raise _Abort("top", "copy_from_slice into an unknown slice")
    if n != len(items):
        raise _Abort("diverge", "copy_from_slice: source length %d, destination length %d" % (len(items), n))
    if dv[0] == "hview":
        for i, x in enumerate(items):
            pe.heap.put(("harr", dv[1]), dv[2] + i, x)
    elif dv[0] == "harr":
        for i, x in enumerate(items):
            pe.heap.put(dv, i, x)
    else:
        if r[1][0] != "place":
            raise _Abort("top", "copy_from_slice into a constant")
        base = r[1]
        for i, x in enumerate(items):
            pe.store_ptr(st, ("place", base[1], base[2], tuple(base[3]) + ({"cidx": i, "fe": False},)), x)
    return UNIT


@pmodel("core::slice::<impl [T]>::contains")
def _slice_contains(pe, st, args, t):
    items = _seq_items(pe, _deref(pe, st, args[0]))
    x = _plain_known(pe, st, args[1])
    if items is None or x is None:
        raise _Abort("top", "contains() on an unknown slice/value")
    ks = [_plain_known(pe, st, i) for i in items]
    if any(k is None for k in ks):
        raise _Abort("top", "contains() on unknown elements")
    return mk_bool(x in ks)


@pmodel("core::slice::<impl [T]>::swap", "core::slice::<impl [T]>::reverse")
def _slice_swap(pe, st, args, t):
    r = args[0]
    v = _deref(pe, st, r)
    if r == TOP or r[0] != "ref" or r[1][0] != "place" or v == TOP or v[0] not in ("array", "hview", "harr"):
        raise _Abort("top", "swap()/reverse() on an unknown slice")
    n = _seq_len(pe, v)
    base = r[1]

    def at(i):
        return ("place", base[1], base[2], tuple(base[3]) + ({"cidx": i, "fe": False},))
    items = _seq_items(pe, v)
    if (t.get("callee") or "").endswith("::swap"):
        i, j = args[1], args[2]
        if i == TOP or j == TOP or i[0] != "int" or j[0] != "int":
            raise _Abort("top", "swap() with unknown indices")
        if not (0 <= i[2] < n and 0 <= j[2] < n):
            raise _Abort("diverge", "swap(%d, %d) out of range for length %d" % (i[2], j[2], n))
        pe.store_ptr(st, at(i[2]), items[j[2]])
        pe.store_ptr(st, at(j[2]), items[i[2]])
    else:
        for k in range(n):
            pe.store_ptr(st, at(k), items[n - 1 - k])
    return UNIT


@pmodel("core::slice::<impl [T]>::to_vec", "std::slice::<impl [T]>::to_vec")
def _slice_to_vec(pe, st, args, t):
    items = _seq_items(pe, _deref(pe, st, args[0]))
    if items is None:
        raise _Abort("top", "to_vec() of an unknown slice")
    return _vec_of(pe, items)


@pmodel("core::slice::<impl [T]>::split_first", "core::slice::<impl [T]>::split_last", "core::slice::<impl [T]>::first_mut",
        "core::slice::<impl [T]>::last_mut", "core::slice::<impl [T]>::get_mut")
def _slice_parts(pe, st, args, t):
    nm = (t.get("callee") or "").rsplit("::", 1)[1]
    r = args[0]
    v = _deref(pe, st, r)
    if r == TOP or r[0] != "ref" or v == TOP or v[0] not in ("array", "hview", "harr"):
        raise _Abort("top", "%s() on an unknown slice" % nm)
    n = _seq_len(pe, v)

    def ref_to(proj_elem):
        if r[1][0] == "place":
            return ("ref", ("place", r[1][1], r[1][2], tuple(r[1][3]) + (proj_elem,)))
        return ("ref", ("const", pe._project(st, 0, v, [proj_elem])))
    if nm == "get_mut":
        i = args[1]
        if i == TOP or i[0] != "int":
            raise _Abort("top", "get_mut() with an unknown index")
        return some(ref_to({"cidx": i[2], "fe": False})) if 0 <= i[2] < n else NONE
    if n == 0:
        return NONE
    if nm == "first_mut":
        return some(ref_to({"cidx": 0, "fe": False}))
    if nm == "last_mut":
        return some(ref_to({"cidx": n - 1, "fe": False}))
    if nm == "split_first":
        return some(("tuple", (ref_to({"cidx": 0, "fe": False}), ref_to({"sub": (1, n)}))))
    return some(("tuple", (ref_to({"cidx": n - 1, "fe": False}), ref_to({"sub": (0, n - 1)}))))


@pmodel("core::slice::<impl [T]>::copy_within")
def _copy_within(pe, st, args, t):
    r, rng, dest = args
    v = _deref(pe, st, r)
    if r == TOP or r[0] != "ref" or r[1][0] != "place" or v == TOP or v[0] not in ("array", "hview", "harr") or rng == TOP or rng[0] != "adt" \
            or dest == TOP or dest[0] != "int":
        raise _Abort("top", "copy_within() on an unknown slice/range")
    n = _seq_len(pe, v)
    kind = rng[1].rsplit("::", 1)[1]
    if any(x == TOP or x[0] != "int" for x in rng[4]):
        raise _Abort("top", "copy_within() with unknown bounds")
    vals = [x[2] for x in rng[4]]
    table = {"Range": lambda: (vals[0], vals[1]), "RangeFrom": lambda: (vals[0], n), "RangeTo": lambda: (0, vals[0]),
             "RangeFull": lambda: (0, n), "RangeToInclusive": lambda: (0, vals[0] + 1), "RangeInclusive": None}
    if table.get(kind) is None:
        raise _Abort("top", "copy_within() with an unsupported range")
    lo, hi = table[kind]()
    if not (lo <= hi <= n) or dest[2] > n - (hi - lo):
        raise _Abort("diverge", "copy_within(%d..%d, %d) out of range for length %d" % (lo, hi, dest[2], n))
    items = _seq_items(pe, v)
    base = r[1]
    for k in range(hi - lo):
        pe.store_ptr(st, ("place", base[1], base[2], tuple(base[3]) + ({"cidx": dest[2] + k, "fe": False},)), items[lo + k])
    return UNIT


@pmodel("core::slice::<impl [T]>::fill")
def _slice_fill(pe, st, args, t):
    r, val = args
    v = _deref(pe, st, r)
    if r == TOP or r[0] != "ref" or v == TOP:
        raise _Abort("top", "fill() on an unknown slice")
    if v[0] == "hview":
        for i in range(v[2], v[3]):
            pe.heap.put(("harr", v[1]), i, val)
        return UNIT
    if v[0] == "harr":
        for i in range(pe.heap.length(v)):
            pe.heap.put(v, i, val)
        return UNIT
    if v[0] == "array" and r[1][0] == "place":
        base = r[1]
        for i in range(len(v[1])):
            pe.store_ptr(st, ("place", base[1], base[2], tuple(base[3]) + ({"cidx": i, "fe": False},)), val)
        return UNIT
    raise _Abort("top", "fill() on an unknown slice")


@pmodel("core::slice::<impl [T]>::iter_mut")
def _iter_mut(pe, st, args, t):
    r = args[0]
    v = _deref(pe, st, r)
    if r == TOP or r[0] != "ref" or r[1][0] != "place" or v == TOP or v[0] not in ("array", "hview", "harr"):
        raise _Abort("top", "iter_mut() on an unknown slice")
    base = r[1]
    return ("iter", tuple(("ref", ("place", base[1], base[2], tuple(base[3]) + ({"cidx": i, "fe": False},))) for i in range(_seq_len(pe, v))), 0)


@pmodel("core::slice::<impl [T]>::chunks_exact_mut", "core::slice::<impl [T]>::chunks_mut", "core::slice::<impl [T]>::chunks")
def _chunks_place(pe, st, args, t):
    r, n = args
    v = _deref(pe, st, r)
    nm = (t.get("callee") or "").rsplit("::", 1)[1]
    if r == TOP or r[0] != "ref" or v == TOP or v[0] not in ("array", "hview", "harr") or n == TOP or n[0] != "int":
        raise _Abort("top", "%s() on an unknown slice" % nm)
    if n[2] == 0:
        raise _Abort("diverge", "%s(0)" % nm)
    total, k = _seq_len(pe, v), n[2]
    end = total - total % k if nm == "chunks_exact_mut" else total
    bounds = [(a, min(a + k, end)) for a in range(0, end, k)]
    if r[1][0] == "place":
        base = r[1]
        return ("iter", tuple(("ref", ("place", base[1], base[2], tuple(base[3]) + ({"sub": (a, b)},))) for a, b in bounds), 0)
    if nm == "chunks":
        return ("iter", tuple(("ref", ("const", pe._project(st, 0, v, [{"sub": (a, b)}]))) for a, b in bounds), 0)
    raise _Abort("top", "%s() on a constant slice" % nm)


@pmodel("<std::vec::Vec<T, A> as std::ops::DerefMut>::deref_mut")
def _deref_mut(pe, st, args, t):
    return args[0]


@pmodel("std::slice::<impl [S]>::join", "std::slice::<impl [T]>::join", "std::slice::<impl [T]>::concat")
def _join(pe, st, args, t):
    v = _deref(pe, st, args[0])
    sep = _str_tokens(pe, st, args[1]) if len(args) > 1 else ()
    items = _seq_items(pe, v)
    if items is None or sep is None:
        raise _Abort("top", "join() of an unknown slice")
    if items and not sep and all(_seq_items(pe, _deref_all(pe, st, x)) is not None for x in items) \
            and not any(_str_tokens(pe, st, x) is not None for x in items):
        flat = []
        for x in items:
            flat += _seq_items(pe, _deref_all(pe, st, x))
        return _vec_of(pe, flat)  # concat() of slices of values
    out = []
    for i, x in enumerate(items):
        toks = _str_tokens(pe, st, x)
        if toks is None:
            raise _Abort("top", "join() of unknown strings")
        if i:
            out += list(sep)
        out += list(toks)
    return ("string", tuple(out))


@pmodel("core::slice::<impl [T]>::is_empty", "std::vec::Vec::<T, A>::is_empty")
def _slice_is_empty(pe, st, args, t):
    n = _slice_len(pe, st, args, t)
    return mk_bool(n[2] == 0)


@pmodel("core::slice::<impl [T]>::len", "std::vec::Vec::<T, A>::len")
def _slice_len(pe, st, args, t):
    v = _deref(pe, st, args[0])
    if v != TOP and v[0] == "string" and all(isinstance(x, int) for x in v[1]):
        return mk_int("usize", len(v[1]))
    if v != TOP:
        if v[0] == "symvec" and len(v) > 1:
            return mk_int("usize", v[1])
        if v[0] == "symslice":
            return mk_int("usize", v[2] - v[1])
        if v[0] == "array":
            return mk_int("usize", len(v[1]))
        if v[0] == "hview":
            return mk_int("usize", v[3] - v[2])
        if v[0] == "harr":
            return mk_int("usize", pe.heap.length(v))
    raise _Abort("top", "len() of an unknown slice")


@pmodel("std::array::<impl std::clone::Clone for [T; N]>::clone", "<std::vec::Vec<T, A> as std::clone::Clone>::clone",
        "<std::vec::Vec<T> as std::clone::Clone>::clone")
def _array_clone(pe, st, args, t):
    v = _deref(pe, st, args[0])
    if v != TOP and v[0] == "tok":
        return v  # an opaque value: its clone is the same value
    if v != TOP and v[0] == "harr":
        return _deep_clone(pe, v)
    if v != TOP and v[0] == "array":
        return _deep_clone(pe, v) if _has_heap(v) else v
    raise _Abort("top", "clone of an unknown array")


@pmodel("std::clone::impls::<impl std::clone::Clone for usize>::clone", "<std::option::Option<T> as std::clone::Clone>::clone")
def _copy_clone(pe, st, args, t):
    v = _deref(pe, st, args[0])
    return v


@pmodel("<usize as std::ops::Add<&usize>>::add")
def _add_ref(pe, st, args, t):
    a, b = args[0], _deref(pe, st, args[1])
    if a == TOP or b == TOP or a[0] != "int" or b[0] != "int":
        return TOP
    r = a[2] + b[2]
    if r >= 1 << 64:
        raise _Abort("diverge", "overflow")
    return mk_int("usize", r)


def _deep_clone(pe, v, depth=0):
    """a copy of v that shares no heap array with it (heap arrays are the only mutable shared objects of the value model)"""
    if v == TOP or depth > 8:
        return v
    k = v[0]
    if k == "harr":
        h = pe.heap.clone(v)
        ent = pe.heap.arrs[h[1]]
        ent[1] = _deep_clone(pe, ent[1], depth + 1)
        for i, x in list(ent[2].items()):
            if x != TOP and x[0] in ("harr", "array", "tuple", "adt"):
                ent[2][i] = _deep_clone(pe, x, depth + 1)
        return h
    if k in ("array", "tuple"):
        return (k, tuple(_deep_clone(pe, x, depth + 1) for x in v[1]))
    if k == "adt":
        return v[:4] + (tuple(_deep_clone(pe, x, depth + 1) for x in v[4]),)
    return v


def _has_heap(v, depth=0):
    if v == TOP or depth > 8:
        return False
    if v[0] == "harr":
        return True
    if v[0] in ("array", "tuple"):
        return any(_has_heap(x, depth + 1) for x in v[1])
    if v[0] == "adt":
        return any(_has_heap(x, depth + 1) for x in v[4])
    return False


@pmodel("std::vec::from_elem")
def _vec_from_elem(pe, st, args, t):
    elem, n = args
    if n == TOP or n[0] != "int":
        raise _Abort("top", "vec![x; n] with unknown n")
    if _has_heap(elem):
        # every element is its own clone of `elem` (elements that own vectors must not share them)
        items = [_deep_clone(pe, elem) for _ in range(n[2])]
        if n[2] <= 16:
            return ("array", tuple(items))
        h = pe.heap.new(n[2], TOP)
        for i, x in enumerate(items):
            pe.heap.put(h, i, x)
        return h
    if n[2] <= 16 and not (elem != TOP and elem[0] == "int"):
        return ("array", (elem,) * n[2])  # a short vector of structured values: a plain value (merges under symbolic branches)
    return pe.heap.new(n[2], elem)


@pmodel("std::boxed::Box::<T>::new_uninit")
def _box_new_uninit(pe, st, args, t):
    return ("boxed", TOP)


def _vec_of(pe, vals):
    """the value of a Vec holding vals (convention of vec![x; n]: short vectors of non-integers are plain arrays)"""
    vals = tuple(vals)
    if len(vals) <= 16 and not any(v != TOP and v[0] == "int" for v in vals):
        return ("array", vals)
    h = pe.heap.new(len(vals), TOP)
    for i, v in enumerate(vals):
        pe.heap.put(h, i, v)
    return h


@pmodel("std::boxed::box_assume_init_into_vec_unsafe")
def _box_into_vec(pe, st, args, t):
    b = args[0]
    if b == TOP or b[0] != "boxed" or b[1] == TOP or b[1][0] != "array":
        raise _Abort("top", "vec![..] literal with unknown contents")
    return _vec_of(pe, b[1][1])


@pmodel("std::vec::Vec::<T>::new")
def _vec_new(pe, st, args, t):
    return pe.heap.new(0, TOP)


@pmodel("std::vec::Vec::<T, A>::resize")
def _vec_resize(pe, st, args, t):
    r, n, val = args
    v = _deref(pe, st, r)
    if v == TOP or v[0] != "harr" or n == TOP or n[0] != "int":
        raise _Abort("top", "resize of an unknown vector")
    ent = pe.heap.arrs[v[1]]
    old = ent[0]
    if n[2] > old:
        for i in range(old, n[2]):
            ent[2][i] = _deep_clone(pe, val) if _has_heap(val) else val
    else:
        for i in [k for k in ent[2] if k >= n[2]]:
            del ent[2][i]
    ent[0] = n[2]
    pe.heap.version += 1
    return UNIT


@pmodel("<std::vec::Vec<T, A> as std::ops::IndexMut<I>>::index_mut")
def _vec_index_mut(pe, st, args, t):
    return _vec_index(pe, st, args, t)


@pmodel("<std::vec::Vec<T, A> as std::ops::Index<I>>::index")
def _vec_index(pe, st, args, t):
    v = _deref(pe, st, args[0])
    i = args[1]
    if v != TOP and v[0] == "harr" and i != TOP and i[0] == "int" and args[0][1][0] != "place":
        if not 0 <= i[2] < pe.heap.length(v):
            raise _Abort("diverge", "index %d out of range for a vector of length %d" % (i[2], pe.heap.length(v)))
        return ("ref", ("const", pe.heap.get(v, i[2])))  # read through a reference that is not a place (a captured vector)
    if v != TOP and v[0] == "harr" and i != TOP and i[0] == "int" and args[0][1][0] == "place":
        if not 0 <= i[2] < pe.heap.length(v):
            raise _Abort("diverge", "index %d out of range for a vector of length %d" % (i[2], pe.heap.length(v)))
        base = args[0][1]
        return ("ref", ("place", base[1], base[2], tuple(base[3]) + ({"cidx": i[2], "fe": False},)))
    if v != TOP and v[0] == "symvec" and i != TOP and i[0] == "int":
        return ("ref", ("const", ("sbyte", i[2])))
    if v != TOP and v[0] == "array" and i != TOP and i[0] == "int":
        if not 0 <= i[2] < len(v[1]):
            raise _Abort("diverge", "index %d out of range for a vector of length %d" % (i[2], len(v[1])))
        if args[0][1][0] == "place":
            base = args[0][1]
            return ("ref", ("place", base[1], base[2], tuple(base[3]) + ({"cidx": i[2], "fe": False},)))
        return ("ref", ("const", v[1][i[2]]))
    if v != TOP and v[0] in ("harr", "array", "hview", "symvec", "symslice") and i != TOP and i[0] == "adt":
        return _array_index(pe, st, args, t)
    raise _Abort("top", "Vec index on an unknown vector")


# --------------------------------------------------------------------------
# integer helpers (documented semantics), on known integers
# --------------------------------------------------------------------------

def _int_helper(name, fn):
    names = []
    for ty in ("usize", "u8", "u16", "u32", "u64", "u128", "isize", "i8", "i16", "i32", "i64", "i128"):
        names.append("core::num::<impl %s>::%s" % (ty, name))
    @pmodel(*names)
    def f(pe, st, args, t):
        a, b = args[0], args[1]
        if a == TOP or b == TOP or a[0] != "int" or b[0] != "int":
            ra, rb = pe._range_of(a) if pe.arith else None, pe._range_of(b) if pe.arith else None
            if name == "saturating_sub" and ra and rb and ra[0] >= rb[1]:
                return pe._arith_binop("Sub", a, b)  # cannot saturate on these ranges
            return TOP
        ty = a[1] or b[1] or "usize"
        from .fold import ty_range
        lo, hi = ty_range(ty)
        return fn(ty, a[2], b[2], lo, hi)
    return f


_int_helper("saturating_sub", lambda ty, x, y, lo, hi: mk_int(ty, max(lo, min(hi, x - y))))
_int_helper("saturating_add", lambda ty, x, y, lo, hi: mk_int(ty, max(lo, min(hi, x + y))))
_int_helper("wrapping_sub", lambda ty, x, y, lo, hi: mk_int(ty, (x - y - lo) % (hi - lo + 1) + lo))
_int_helper("wrapping_add", lambda ty, x, y, lo, hi: mk_int(ty, (x + y - lo) % (hi - lo + 1) + lo))
_int_helper("abs_diff", lambda ty, x, y, lo, hi: mk_int(ty, abs(x - y)))
_int_helper("checked_sub", lambda ty, x, y, lo, hi: some(mk_int(ty, x - y)) if lo <= x - y <= hi else NONE)
_int_helper("checked_add", lambda ty, x, y, lo, hi: some(mk_int(ty, x + y)) if lo <= x + y <= hi else NONE)
def _div0(what):
    raise _Abort("diverge", "%s by zero" % what)


_int_helper("div_ceil", lambda ty, x, y, lo, hi: mk_int(ty, -(-x // y)) if y else _div0("div_ceil"))
_int_helper("rem_euclid", lambda ty, x, y, lo, hi: mk_int(ty, x % abs(y)) if y else _div0("rem_euclid"))
_int_helper("pow", lambda ty, x, y, lo, hi: mk_int(ty, x ** y) if lo <= x ** y <= hi else TOP)


_int_helper("checked_mul", lambda ty, x, y, lo, hi: some(mk_int(ty, x * y)) if lo <= x * y <= hi else NONE)
_int_helper("checked_div", lambda ty, x, y, lo, hi: some(mk_int(ty, int(x / y) if (x < 0) != (y < 0) and x % y else x // y)) if y else NONE)
_int_helper("checked_rem", lambda ty, x, y, lo, hi: some(mk_int(ty, x - y * int(x / y))) if y else NONE)
_int_helper("saturating_mul", lambda ty, x, y, lo, hi: mk_int(ty, max(lo, min(hi, x * y))))
_int_helper("wrapping_mul", lambda ty, x, y, lo, hi: mk_int(ty, (x * y - lo) % (hi - lo + 1) + lo))
_int_helper("min", lambda ty, x, y, lo, hi: mk_int(ty, min(x, y)))
_int_helper("max", lambda ty, x, y, lo, hi: mk_int(ty, max(x, y)))
_int_helper("next_multiple_of", lambda ty, x, y, lo, hi: (mk_int(ty, -(-x // y) * y) if lo <= -(-x // y) * y <= hi else TOP) if y > 0 and x >= 0 else TOP)


def _shift_helper(name):
    names = []
    for ty in ("usize", "u8", "u16", "u32", "u64", "u128", "isize", "i8", "i16", "i32", "i64", "i128"):
        names.append("core::num::<impl %s>::%s" % (ty, name))

    @pmodel(*names)
    def f(pe, st, args, t):
        a, b = args[0], args[1]
        if a == TOP or b == TOP or a[0] != "int" or b[0] != "int":
            return TOP
        from .fold import INT_BITS as IB, ty_range
        ty = a[1]
        n = IB.get(ty)
        if n is None:
            return TOP
        lo, hi = ty_range(ty)
        left = name.endswith("shl")
        amt = b[2]
        over = amt >= n
        if name.startswith("wrapping") or name.startswith("overflowing"):
            amt %= n  # the shift amount is masked to the width of the type
        elif over:
            return NONE  # checked_*
        x = a[2] & ((1 << n) - 1)
        r = ((x << amt) & ((1 << n) - 1)) if left else ((x >> amt) if lo == 0 else ((a[2] >> amt) & ((1 << n) - 1)))
        if lo < 0 and r >= 1 << (n - 1):
            r -= 1 << n
        v = mk_int(ty, r)
        if name.startswith("checked"):
            return some(v)
        if name.startswith("overflowing"):
            return ("tuple", (v, mk_bool(over)))
        return v
    return f


for _nm in ("wrapping_shl", "wrapping_shr", "checked_shl", "checked_shr", "overflowing_shl", "overflowing_shr"):
    _shift_helper(_nm)


def _int_unary(name, fn):
    names = []
    for ty in ("usize", "u8", "u16", "u32", "u64", "u128", "isize", "i8", "i16", "i32", "i64", "i128"):
        names.append("core::num::<impl %s>::%s" % (ty, name))

    @pmodel(*names)
    def f(pe, st, args, t):
        a = args[0]
        if a == TOP or a[0] != "int":
            return TOP
        from .fold import INT_BITS as IB
        return fn(a[1], a[2], IB.get(a[1], 64))
    return f


_int_unary("leading_zeros", lambda ty, x, n: mk_int("u32", n - x.bit_length()) if x >= 0 else mk_int("u32", 0))
_int_unary("trailing_zeros", lambda ty, x, n: mk_int("u32", n if x == 0 else ((x & -x).bit_length() - 1)))
_int_unary("count_ones", lambda ty, x, n: mk_int("u32", bin(x & ((1 << n) - 1)).count("1")))
_int_unary("count_zeros", lambda ty, x, n: mk_int("u32", n - bin(x & ((1 << n) - 1)).count("1")))
_int_unary("is_power_of_two", lambda ty, x, n: mk_bool(x > 0 and x & (x - 1) == 0))
_int_unary("ilog2", lambda ty, x, n: mk_int("u32", x.bit_length() - 1) if x > 0 else TOP)
_int_unary("isqrt", lambda ty, x, n: mk_int(ty, __import__("math").isqrt(x)) if x >= 0 else TOP)


def _rotate_helper(name):
    names = ["core::num::<impl %s>::%s" % (ty, name) for ty in ("usize", "u8", "u16", "u32", "u64", "u128", "isize", "i8", "i16", "i32", "i64", "i128")]

    @pmodel(*names)
    def f(pe, st, args, t):
        a, b = args[0], args[1]
        if a == TOP or b == TOP or a[0] != "int" or b[0] != "int":
            return TOP
        from .fold import INT_BITS as IB, ty_range
        ty = a[1]
        n = IB.get(ty)
        if n is None:
            return TOP
        lo, hi = ty_range(ty)
        k = b[2] % n
        x = a[2] & ((1 << n) - 1)
        if name == "rotate_right":
            k = (n - k) % n
        r = ((x << k) | (x >> (n - k))) & ((1 << n) - 1) if k else x
        if lo < 0 and r >= 1 << (n - 1):
            r -= 1 << n
        return mk_int(ty, r)
    return f


_rotate_helper("rotate_left")
_rotate_helper("rotate_right")


def _bitrev(x, n):
    r = 0
    for i in range(n):
        if x >> i & 1:
            r |= 1 << (n - 1 - i)
    return r


def _signed(ty, r, n):
    return r - (1 << n) if ty.startswith("i") and r >= 1 << (n - 1) else r


_int_unary("reverse_bits", lambda ty, x, n: mk_int(ty, _signed(ty, _bitrev(x & ((1 << n) - 1), n), n)))
_int_unary("swap_bytes", lambda ty, x, n: mk_int(ty, _signed(ty, int.from_bytes((x & ((1 << n) - 1)).to_bytes(n // 8, "little"), "big"), n)))
_int_unary("leading_ones", lambda ty, x, n: mk_int("u32", n - ((~x) & ((1 << n) - 1)).bit_length()))
_int_unary("trailing_ones", lambda ty, x, n: mk_int("u32", (((~x) & ((1 << n) - 1)) & -((~x) & ((1 << n) - 1))).bit_length() - 1 if ((~x) & ((1 << n) - 1)) else n))


def _float_model(name, fn, nargs=1):
    @pmodel("core::f64::<impl f64>::%s" % name, "std::f64::<impl f64>::%s" % name, "core::f32::<impl f32>::%s" % name, "std::f32::<impl f32>::%s" % name)
    def f(pe, st, args, t):
        xs = args[:nargs]
        if any(x == TOP or x[0] != "float" for x in xs):
            return TOP
        try:
            return fn(*[float(x[1]) for x in xs])
        except (OverflowError, ValueError, ZeroDivisionError):
            return TOP
    return f


import math as _math
_float_model("fract", lambda x: ("float", x - _math.trunc(x)) if _math.isfinite(x) else TOP)
_float_model("ceil", lambda x: ("float", float(_math.ceil(x))) if _math.isfinite(x) else ("float", x))
_float_model("floor", lambda x: ("float", float(_math.floor(x))) if _math.isfinite(x) else ("float", x))
_float_model("trunc", lambda x: ("float", float(_math.trunc(x))) if _math.isfinite(x) else ("float", x))
_float_model("abs", lambda x: ("float", abs(x)))
_float_model("sqrt", lambda x: ("float", _math.sqrt(x)) if x >= 0 else TOP)
_float_model("signum", lambda x: ("float", _math.copysign(1.0, x)) if x == x else TOP)
_float_model("is_nan", lambda x: mk_bool(x != x))
_float_model("is_finite", lambda x: mk_bool(_math.isfinite(x)))
_float_model("min", lambda x, y: ("float", min(x, y)) if x == x and y == y else TOP, 2)
_float_model("max", lambda x, y: ("float", max(x, y)) if x == x and y == y else TOP, 2)
def _fclamp(x, lo, hi):
    if lo != lo or hi != hi or lo > hi:
        raise _Abort("diverge", "f64::clamp with min > max or a NaN bound")
    return ("float", x if x != x else max(lo, min(hi, x)))


_float_model("clamp", _fclamp, 3)
_float_model("rem_euclid", lambda x, y: ("float", x - abs(y) * _math.floor(x / abs(y))) if y else TOP, 2)


@pmodel("core::cmp::Ord::clamp", "std::cmp::Ord::clamp")
def _ord_clamp(pe, st, args, t):
    a, lo, hi = args
    if any(x == TOP or x[0] != "int" for x in (a, lo, hi)):
        return TOP
    if lo[2] > hi[2]:
        raise _Abort("diverge", "clamp with min > max")
    return mk_int(a[1], max(lo[2], min(hi[2], a[2])))


@pmodel("core::bool::<impl bool>::then_some", "core::bool::<impl bool>::then")
def _bool_then(pe, st, args, t):
    b = args[0]
    if b == TOP or b[0] != "bool":
        raise _Abort("top", "then() on an unknown boolean")
    if not b[1]:
        return NONE
    if (t.get("callee") or "").endswith("then_some"):
        return some(args[1])
    return some(pe.invoke_closure(st, args[1], []))


# --------------------------------------------------------------------------
# Option / Result / ControlFlow (documented semantics)
# --------------------------------------------------------------------------
OPTION, RESULT, CFLOW = "std::option::Option", "std::result::Result", "std::ops::ControlFlow"


def _is_variant(v, path, name):
    return v != TOP and v[0] == "adt" and v[1] == path and v[3] == name


def _known_adt(v, path, what):
    if v != TOP and v[0] == "enum" and v[1] == path and v[2] in ("None",):
        return NONE  # a fieldless variant of a std enum decoded from a constant
    if v == TOP or v[0] != "adt" or v[1] != path:
        raise _Abort("top", "%s of an unknown value" % what)
    return v


@pmodel("std::option::Option::<T>::unwrap_or")
def _opt_unwrap_or(pe, st, args, t):
    o = _known_adt(args[0], OPTION, "unwrap_or")
    return o[4][0] if o[3] == "Some" else args[1]


@pmodel("std::option::Option::<T>::unwrap_or_else")
def _opt_unwrap_or_else(pe, st, args, t):
    o = _known_adt(args[0], OPTION, "unwrap_or_else")
    return o[4][0] if o[3] == "Some" else pe.invoke_closure(st, args[1], [])


@pmodel("std::option::Option::<T>::unwrap_or_default")
def _opt_unwrap_or_default(pe, st, args, t):
    o = _known_adt(args[0], OPTION, "unwrap_or_default")
    if o[3] == "Some":
        return o[4][0]
    dty = t.get("dest_ty") or ""
    if dty.startswith("std::vec::Vec<"):
        return pe.heap.new(0, TOP)
    if dty == "std::string::String":
        return ("string", ())
    if dty in ("usize", "u8", "u16", "u32", "u64", "i32", "i64", "isize"):
        return mk_int(dty, 0)
    raise _Abort("top", "unwrap_or_default() of None: default value of %s not modelled" % dty)


@pmodel("std::option::Option::<T>::get_or_insert", "std::option::Option::<T>::insert", "std::option::Option::<T>::replace",
        "std::option::Option::<T>::take", "std::option::Option::<T>::get_or_insert_with")
def _opt_mutators(pe, st, args, t):
    nm = (t.get("callee") or "").rsplit("::", 1)[1]
    r = args[0]
    if r == TOP or r[0] != "ref" or r[1][0] != "place":
        raise _Abort("top", "%s() on an unknown Option" % nm)
    o = _known_adt(_deref(pe, st, r), OPTION, nm)
    inner = ("ref", ("place", r[1][1], r[1][2], tuple(r[1][3]) + ({"dc": "Some", "vi": 1}, {"f": 0, "name": "0"})))
    if nm == "take":
        pe.store_ptr(st, r[1], NONE)
        return o
    if nm == "replace":
        pe.store_ptr(st, r[1], some(args[1]))
        return o
    if nm == "insert":
        pe.store_ptr(st, r[1], some(args[1]))
        return inner
    if o[3] != "Some":
        v = args[1] if nm == "get_or_insert" else pe.invoke_closure(st, args[1], [])
        pe.store_ptr(st, r[1], some(v))
    return inner


@pmodel("std::option::Option::<T>::copied", "std::option::Option::<T>::cloned", "std::option::Option::<&T>::copied",
        "std::option::Option::<&T>::cloned", "std::option::Option::<&mut T>::copied", "std::option::Option::<&mut T>::cloned",
        "std::option::Option::<T>::xor",
        "std::option::Option::<T>::map_or_else", "std::option::Option::<T>::as_mut", "std::option::Option::<T>::unwrap_unchecked",
        "std::option::Option::<T>::inspect")
def _opt_more(pe, st, args, t):
    nm = (t.get("callee") or "").rsplit("::", 1)[1]
    if nm == "as_mut":
        r = args[0]
        o = _known_adt(_deref(pe, st, r), OPTION, nm)
        if o[3] != "Some":
            return NONE
        if r == TOP or r[0] != "ref" or r[1][0] != "place":
            raise _Abort("top", "as_mut() on an unknown Option")
        return some(("ref", ("place", r[1][1], r[1][2], tuple(r[1][3]) + ({"dc": "Some", "vi": 1}, {"f": 0, "name": "0"}))))
    o = _known_adt(args[0], OPTION, nm)
    if nm in ("copied", "cloned"):
        return some(_deref(pe, st, o[4][0])) if o[3] == "Some" else NONE
    if nm == "xor":
        b = _known_adt(args[1], OPTION, nm)
        if (o[3] == "Some") != (b[3] == "Some"):
            return o if o[3] == "Some" else b
        return NONE
    if nm == "map_or_else":
        return pe.invoke_closure(st, args[2], [o[4][0]]) if o[3] == "Some" else pe.invoke_closure(st, args[1], [])
    if nm == "inspect":
        if o[3] == "Some":
            pe.invoke_closure(st, args[1], [("ref", ("const", o[4][0]))])
        return o
    if o[3] != "Some":
        raise _Abort("diverge", "unwrap_unchecked() of None")
    return o[4][0]


@pmodel("std::option::Option::<T>::ok_or")
def _opt_ok_or(pe, st, args, t):
    o = _known_adt(args[0], OPTION, "ok_or")
    if o[3] == "Some":
        return ("adt", RESULT, 0, "Ok", (o[4][0],))
    return ("adt", RESULT, 1, "Err", (args[1],))


@pmodel("std::option::Option::<T>::ok_or_else")
def _opt_ok_or_else(pe, st, args, t):
    o = _known_adt(args[0], OPTION, "ok_or_else")
    if o[3] == "Some":
        return ("adt", RESULT, 0, "Ok", (o[4][0],))
    return ("adt", RESULT, 1, "Err", (pe.invoke_closure(st, args[1], []),))


@pmodel("std::option::Option::<T>::or")
def _opt_or(pe, st, args, t):
    o = _known_adt(args[0], OPTION, "or")
    return o if o[3] == "Some" else args[1]


@pmodel("std::option::Option::<T>::or_else")
def _opt_or_else(pe, st, args, t):
    o = _known_adt(args[0], OPTION, "or_else")
    return o if o[3] == "Some" else pe.invoke_closure(st, args[1], [])


@pmodel("std::option::Option::<T>::and_then")
def _opt_and_then(pe, st, args, t):
    o = _known_adt(args[0], OPTION, "and_then")
    return pe.invoke_closure(st, args[1], [o[4][0]]) if o[3] == "Some" else NONE


@pmodel("std::option::Option::<T>::and")
def _opt_and(pe, st, args, t):
    o = _known_adt(args[0], OPTION, "and")
    return args[1] if o[3] == "Some" else NONE


@pmodel("std::option::Option::<T>::zip")
def _opt_zip(pe, st, args, t):
    a, b = _known_adt(args[0], OPTION, "zip"), _known_adt(args[1], OPTION, "zip")
    return some(("tuple", (a[4][0], b[4][0]))) if a[3] == "Some" and b[3] == "Some" else NONE


@pmodel("std::option::Option::<T>::is_some_and")
def _opt_is_some_and(pe, st, args, t):
    o = _known_adt(args[0], OPTION, "is_some_and")
    return pe.invoke_closure(st, args[1], [o[4][0]]) if o[3] == "Some" else mk_bool(False)


@pmodel("std::option::Option::<T>::map")
def _opt_map(pe, st, args, t):
    o = _known_adt(args[0], OPTION, "map")
    return some(pe.invoke_closure(st, args[1], [o[4][0]])) if o[3] == "Some" else NONE


@pmodel("std::option::Option::<T>::map_or")
def _opt_map_or(pe, st, args, t):
    o = _known_adt(args[0], OPTION, "map_or")
    return pe.invoke_closure(st, args[2], [o[4][0]]) if o[3] == "Some" else args[1]


@pmodel("std::option::Option::<T>::filter")
def _opt_filter(pe, st, args, t):
    o = _known_adt(args[0], OPTION, "filter")
    if o[3] == "Some" and _truth(pe.invoke_closure(st, args[1], [("ref", ("const", o[4][0]))]), "Option::filter"):
        return o
    return NONE


@pmodel("std::option::Option::<T>::unwrap", "std::option::Option::<T>::expect")
def _opt_unwrap(pe, st, args, t):
    o = _known_adt(args[0], OPTION, "unwrap")
    if o[3] == "Some":
        return o[4][0]
    raise _Abort("diverge", "unwrap() of None at %s:%s" % (t.get("file"), t.get("line")))


@pmodel("std::option::Option::<T>::as_ref")
def _opt_as_ref(pe, st, args, t):
    o = _known_adt(_deref(pe, st, args[0]), OPTION, "as_ref")
    return some(("ref", ("const", o[4][0]))) if o[3] == "Some" else NONE


@pmodel("std::result::Result::<T, E>::map_err")
def _res_map_err(pe, st, args, t):
    r = _known_adt(args[0], RESULT, "map_err")
    if r[3] == "Ok":
        return r
    return ("adt", RESULT, 1, "Err", (pe.invoke_closure(st, args[1], [r[4][0]]),))


@pmodel("std::result::Result::<T, E>::map")
def _res_map(pe, st, args, t):
    r = _known_adt(args[0], RESULT, "map")
    if r[3] == "Err":
        return r
    return ("adt", RESULT, 0, "Ok", (pe.invoke_closure(st, args[1], [r[4][0]]),))


@pmodel("std::result::Result::<T, E>::unwrap", "std::result::Result::<T, E>::expect", "std::result::Result::<T, E>::unwrap_err",
        "std::result::Result::<T, E>::expect_err")
def _res_unwrap(pe, st, args, t):
    nm = (t.get("callee") or "").rsplit("::", 1)[1]
    r = _known_adt(args[0], RESULT, nm)
    want = "Err" if nm.endswith("_err") else "Ok"
    if r[3] != want:
        raise _Abort("diverge", "%s() on %s at %s:%s" % (nm, r[3], t.get("file"), t.get("line")))
    return r[4][0]


@pmodel("std::result::Result::<T, E>::unwrap_or")
def _res_unwrap_or(pe, st, args, t):
    r = _known_adt(args[0], RESULT, "unwrap_or")
    return r[4][0] if r[3] == "Ok" else args[1]


@pmodel("std::result::Result::<T, E>::unwrap_or_default", "std::result::Result::<T, E>::unwrap_or_else", "std::result::Result::<T, E>::map_or",
        "std::result::Result::<T, E>::map_or_else", "std::result::Result::<T, E>::and_then")
def _res_misc(pe, st, args, t):
    nm = (t.get("callee") or "").rsplit("::", 1)[1]
    r = _known_adt(args[0], RESULT, nm)
    ok = r[3] == "Ok"
    if nm == "unwrap_or_default":
        return r[4][0] if ok else _opt_unwrap_or_default(pe, st, [NONE], t)
    if nm == "unwrap_or_else":
        return r[4][0] if ok else pe.invoke_closure(st, args[1], [r[4][0]])
    if nm == "map_or":
        return pe.invoke_closure(st, args[2], [r[4][0]]) if ok else args[1]
    if nm == "map_or_else":
        return pe.invoke_closure(st, args[2], [r[4][0]]) if ok else pe.invoke_closure(st, args[1], [r[4][0]])
    return pe.invoke_closure(st, args[1], [r[4][0]]) if ok else r


@pmodel("<std::result::Result<T, E> as std::ops::Try>::branch")
def _res_branch(pe, st, args, t):
    r = _known_adt(args[0], RESULT, "?")
    if r[3] == "Ok":
        return ("adt", CFLOW, 0, "Continue", (r[4][0],))
    return ("adt", CFLOW, 1, "Break", (("adt", RESULT, 1, "Err", (r[4][0],)),))


@pmodel("<std::option::Option<T> as std::ops::Try>::branch")
def _opt_branch(pe, st, args, t):
    o = _known_adt(args[0], OPTION, "?")
    if o[3] == "Some":
        return ("adt", CFLOW, 0, "Continue", (o[4][0],))
    return ("adt", CFLOW, 1, "Break", (NONE,))


@pmodel("<std::result::Result<T, F> as std::ops::FromResidual<std::result::Result<std::convert::Infallible, E>>>::from_residual")
def _res_from_residual(pe, st, args, t):
    r = _known_adt(args[0], RESULT, "from_residual")
    gen = t.get("generics") or []
    # E -> F conversion is the identity when the two error types coincide; anything else is not modelled
    if len(gen) >= 3 and gen[1] != gen[2]:
        raise _Abort("top", "error conversion %s -> %s in `?` not modelled" % (gen[2], gen[1]))
    return ("adt", RESULT, 1, "Err", (r[4][0],))


@pmodel("<std::option::Option<T> as std::ops::FromResidual<std::option::Option<std::convert::Infallible>>>::from_residual")
def _opt_from_residual(pe, st, args, t):
    return NONE


# --------------------------------------------------------------------------
# strings: ("string", (tokens...)); a token is a code point or ("sel", cond, then-tokens, else-tokens) or ("disp", value)
# --------------------------------------------------------------------------

def merge_sel(cond, x, y):
    if x != TOP and y != TOP and x[0] == "array" and y[0] == "array" and len(x[1]) == len(y[1]):
        return ("array", tuple(a if a == b else merge_sel(cond, a, b) for a, b in zip(x[1], y[1])))
    if x != TOP and y != TOP and x[0] == "tuple" and y[0] == "tuple" and len(x[1]) == len(y[1]):
        return ("tuple", tuple(a if a == b else merge_sel(cond, a, b) for a, b in zip(x[1], y[1])))
    if x != TOP and y != TOP and x[0] == "adt" and y[0] == "adt" and x[:4] == y[:4] and len(x[4]) == len(y[4]):
        # same type and variant: merge field by field (a record of strings stays a record)
        return x[:4] + (tuple(a if a == b else merge_sel(cond, a, b) for a, b in zip(x[4], y[4])),)
    if x != TOP and y != TOP and x[0] == "string" and y[0] == "string":
        a, b = x[1], y[1]
        n = 0
        while n < len(a) and n < len(b) and a[n] == b[n]:
            n += 1
        return ("string", a[:n] + (("sel", cond, a[n:], b[n:]),))
    return ("sel", cond, x, y)


def _str_tokens(pe, st, v):
    for _ in range(4):
        if v != TOP and v[0] == "ref":
            v = pe._load_ptr(st, v[1])
        elif v != TOP and v[0] == "adt" and v[1] in ("std::borrow::Cow", "alloc::borrow::Cow") and len(v[4]) == 1:
            v = v[4][0]
        else:
            break
    if v == TOP:
        return None
    if v[0] == "string":
        return v[1]
    if v[0] == "str":
        return tuple(ord(c) for c in v[1])
    if v[0] == "char":
        return (v[1],)
    return None


@pmodel("std::string::String::new", "std::string::String::with_capacity")
def _string_new(pe, st, args, t):
    return ("string", ())


@pmodel("std::string::String::reserve", "std::string::String::reserve_exact", "std::string::String::shrink_to_fit",
        "std::vec::Vec::<T, A>::reserve", "std::vec::Vec::<T, A>::reserve_exact", "std::vec::Vec::<T, A>::shrink_to_fit")
def _capacity_noop(pe, st, args, t):
    return UNIT  # capacity is not observable


@pmodel("std::string::String::push")
def _string_push(pe, st, args, t):
    r, c = args
    cur = _deref(pe, st, r)
    toks = _char_tokens(c)
    if r == TOP or r[0] != "ref" or cur == TOP or cur[0] != "string" or toks is None:
        raise _Abort("top", "String::push on an unknown string/char")
    pe.store_ptr(st, r[1], ("string", cur[1] + toks))
    return UNIT


def _char_tokens(c):
    """string tokens of a character value: a known char, or a selection between characters made under symbolic conditions"""
    if c == TOP:
        return None
    if c[0] == "char":
        return (c[1],)
    if c[0] == "sel" and len(c) == 4:
        a, b = _char_tokens(c[2]), _char_tokens(c[3])
        if a is None or b is None:
            return None
        return (("sel", c[1], a, b),)
    return None


@pmodel("std::string::String::push_str")
def _string_push_str(pe, st, args, t):
    r, x = args
    cur = _deref(pe, st, r)
    toks = _str_tokens(pe, st, x)
    if r == TOP or r[0] != "ref" or cur == TOP or cur[0] != "string" or toks is None:
        raise _Abort("top", "String::push_str on an unknown string")
    pe.store_ptr(st, r[1], ("string", cur[1] + toks))
    return UNIT


@pmodel("std::string::String::pop")
def _string_pop(pe, st, args, t):
    r = args[0]
    cur = _deref(pe, st, r)
    if r == TOP or r[0] != "ref" or cur == TOP or cur[0] != "string":
        raise _Abort("top", "String::pop on an unknown string")
    if not cur[1]:
        return NONE
    last = cur[1][-1]
    if not isinstance(last, int):
        raise _Abort("top", "String::pop of a symbolic character")
    pe.store_ptr(st, r[1], ("string", cur[1][:-1]))
    return some(("char", last))


def _seq_items(pe, v):
    """the elements of a concrete array / vector / slice view, else None"""
    if v == TOP:
        return None
    if v[0] == "array":
        return list(v[1])
    if v[0] == "harr":
        return [pe.heap.get(v, i) for i in range(pe.heap.length(v))]
    if v[0] == "hview":
        return [pe.heap.get(("harr", v[1]), i) for i in range(v[2], v[3])]
    return None


def _uncow(pe, st, v):
    """Cow::Borrowed(x) / Cow::Owned(x) -> x"""
    for _ in range(3):
        v = _deref_all(pe, st, v)
        if v != TOP and v[0] == "adt" and v[1] in ("std::borrow::Cow", "alloc::borrow::Cow") and len(v[4]) == 1:
            v = v[4][0]
        else:
            break
    return v


def _pystr(pe, st, v):
    """a fully known string (str constant or String of known code points) as a Python str, else None"""
    v = _uncow(pe, st, v)
    if v == TOP:
        return None
    if v[0] == "str":
        return v[1]
    if v[0] == "string" and all(isinstance(x, int) for x in v[1]):
        return "".join(chr(x) for x in v[1])
    if v[0] == "string":
        # Display holes of known numbers are rendered when the text itself is needed (bytes written to a file)
        out = []
        for x in v[1]:
            if isinstance(x, int):
                out.append(chr(x))
                continue
            txt = _render_disp(x)
            if txt is None and isinstance(x, tuple) and len(x) >= 2 and x[0] == "disp" and (len(x) < 5 or (x[2] in (None, 0, 0x20, 0xE0000020, 0x60000020) and x[3] in (None, 0) and x[4] in (None, 0))):
                # Display of a string-like value (a &str, a String, a Cow<str>, a reference to one) is its text
                inner = _deref_all(pe, st, x[1]) if x[1] != TOP else TOP
                txt = _pystr(pe, st, inner) if inner != TOP and inner[0] in ("str", "string", "adt", "ref") and inner is not v else None
            if txt is None:
                return None
            out.append(txt)
        return "".join(out)
    return None


def _render_disp(tok):
    """text of a ("disp", value[, flags, width, precision]) hole whose value is a known number, as Rust's Display prints it"""
    if not (isinstance(tok, tuple) and tok and tok[0] == "disp"):
        return None
    v = tok[1]
    flags, width, prec = (tok[2], tok[3], tok[4]) if len(tok) >= 5 else (None, None, None)
    if flags not in (None, 0):
        # packed FormattingOptions: fill char in bits 0..20, flags above; accept the default (fill ' ', alignment unset,
        # no sign/alternate/zero-pad, no width), with or without the precision-present bit
        if flags & ~((1 << 28) | (3 << 29) | (1 << 31)) != 0x20:
            return None
        if flags & (1 << 28) and prec is None:
            prec = 0  # the precision-present bit without a stored value is a precision of zero (`{:.0}`)
    if v == TOP or (width not in (None, 0)):
        return None
    if v[0] == "int" and prec is None:
        return str(v[2])
    if v[0] == "bool" and prec is None:
        return "true" if v[1] else "false"
    if v[0] == "float":
        x = float(v[1])
        if x != x:
            return "NaN"
        if x in (float("inf"), float("-inf")):
            return "inf" if x > 0 else "-inf"
        if prec is not None:
            return format(x, ".%df" % prec)
        if x == int(x) and abs(x) < 1e16:
            return ("-" if (x < 0 or (x == 0 and str(x).startswith("-"))) else "") + str(abs(int(x)))
        r = repr(x)
        return None if "e" in r or "E" in r else r
    return None


def _mkstring(s_):
    return ("string", tuple(ord(c) for c in s_))


def _pattern(pe, st, v):
    """a str/char pattern as a Python str"""
    v = _deref_all(pe, st, v)
    if v != TOP and v[0] == "char":
        return chr(v[1])
    return _pystr(pe, st, v)


@pmodel("core::str::<impl str>::starts_with", "core::str::<impl str>::ends_with", "core::str::<impl str>::contains")
def _str_starts_with(pe, st, args, t):
    s_, p_ = _pystr(pe, st, args[0]), _pattern(pe, st, args[1])
    if s_ is None or p_ is None:
        raise _Abort("top", "starts_with()/ends_with() on an unknown string or pattern")
    nm = (t.get("callee") or "").rsplit("::", 1)[-1]
    return mk_bool(s_.startswith(p_) if nm == "starts_with" else (s_.endswith(p_) if nm == "ends_with" else p_ in s_))


@pmodel("core::str::<impl str>::strip_prefix", "core::str::<impl str>::strip_suffix")
def _str_strip_prefix(pe, st, args, t):
    s_, p_ = _pystr(pe, st, args[0]), _pattern(pe, st, args[1])
    if s_ is None or p_ is None:
        raise _Abort("top", "strip_prefix() on an unknown string or pattern")
    if (t.get("callee") or "").endswith("strip_prefix"):
        return some(("ref", ("const", ("str", s_[len(p_):])))) if s_.startswith(p_) else NONE
    return some(("ref", ("const", ("str", s_[:len(s_) - len(p_)])))) if s_.endswith(p_) else NONE


@pmodel("core::str::<impl str>::trim_start_matches", "core::str::<impl str>::trim_end_matches")
def _str_trim_matches(pe, st, args, t):
    s_, p_ = _pystr(pe, st, args[0]), _pattern(pe, st, args[1])
    if s_ is None or not p_:
        raise _Abort("top", "trim_*_matches() on an unknown string or pattern")
    if (t.get("callee") or "").endswith("trim_start_matches"):
        while s_.startswith(p_):
            s_ = s_[len(p_):]
    else:
        while s_.endswith(p_):
            s_ = s_[:len(s_) - len(p_)]
    return ("ref", ("const", ("str", s_)))


@pmodel("std::string::String::remove")
def _string_remove(pe, st, args, t):
    r, i = args
    s_ = _pystr(pe, st, r)
    if r == TOP or r[0] != "ref" or s_ is None or i == TOP or i[0] != "int":
        raise _Abort("top", "String::remove on an unknown string/index")
    b = s_.encode()
    if i[2] >= len(b):
        raise _Abort("diverge", "String::remove(%d) on a string of %d bytes" % (i[2], len(b)))
    try:
        head = b[:i[2]].decode()
    except UnicodeDecodeError:
        raise _Abort("diverge", "String::remove(%d) not on a char boundary" % i[2])
    c = s_[len(head)]
    pe.store_ptr(st, r[1], _mkstring(head + s_[len(head) + 1:]))
    return ("char", ord(c))


@pmodel("<std::string::String as std::convert::From<&str>>::from", "<std::string::String as std::convert::From<&std::string::String>>::from",
        "<std::string::String as std::convert::From<&mut str>>::from", "alloc::str::<impl std::borrow::ToOwned for str>::to_owned",
        "std::str::<impl std::borrow::ToOwned for str>::to_owned", "<str as std::string::ToString>::to_string",
        "<std::string::String as std::convert::From<char>>::from", "std::borrow::ToOwned::to_owned")
def _string_from(pe, st, args, t):
    v = _deref_all(pe, st, args[0])
    toks = _str_tokens(pe, st, v)
    if toks is None:
        raise _Abort("top", "String::from of an unknown string")
    return ("string", tuple(toks))


@pmodel("std::string::String::is_empty", "core::str::<impl str>::is_empty")
def _string_is_empty(pe, st, args, t):
    v = _deref_all(pe, st, args[0])
    if v != TOP and v[0] == "string":
        if not v[1]:
            return mk_bool(True)
        if any(isinstance(x, int) for x in v[1]):
            return mk_bool(False)
    if v != TOP and v[0] == "str":
        return mk_bool(not v[1])
    raise _Abort("top", "is_empty() of an unknown string")


@pmodel("core::str::<impl str>::len")
def _str_len(pe, st, args, t):
    s_ = _pystr(pe, st, args[0])
    if s_ is None:
        raise _Abort("top", "len() of an unknown string")
    return mk_int("usize", len(s_.encode()))


@pmodel("core::str::from_utf8", "std::str::from_utf8")
def _from_utf8(pe, st, args, t):
    items = _seq_items(pe, _deref_all(pe, st, args[0]))
    if items is None or any(x == TOP or x[0] != "int" for x in items):
        raise _Abort("top", "from_utf8() of unknown bytes")
    try:
        s_ = bytes(x[2] for x in items).decode("utf-8")
    except UnicodeDecodeError:
        return ("adt", RESULT, 1, "Err", (("tok", "Utf8Error"),))
    return ("adt", RESULT, 0, "Ok", (("ref", ("const", ("str", s_))),))


@pmodel("std::result::Result::<T, E>::ok")
def _res_ok(pe, st, args, t):
    r = _known_adt(args[0], RESULT, "ok")
    return some(r[4][0]) if r[3] == "Ok" else NONE


@pmodel("std::result::Result::<T, E>::is_ok", "std::result::Result::<T, E>::is_err")
def _res_is_ok(pe, st, args, t):
    r = _known_adt(_deref_all(pe, st, args[0]), RESULT, "is_ok")
    return mk_bool((r[3] == "Ok") == (t.get("callee") or "").endswith("is_ok"))


def _from_str_radix(ty):
    from .fold import INT_BITS as IB
    def f(pe, st, args, t):
        s_, rad = _pystr(pe, st, args[0]), args[1]
        if s_ is None or rad == TOP or rad[0] != "int":
            raise _Abort("top", "from_str_radix() of an unknown string")
        if not 2 <= rad[2] <= 36:
            raise _Abort("diverge", "from_str_radix with radix %d" % rad[2])
        err = ("adt", RESULT, 1, "Err", (("tok", "ParseIntError"),))
        digits = s_
        signed = ty.startswith("i")
        neg = False
        if digits[:1] == "+" or (signed and digits[:1] == "-"):
            if len(digits) == 1:
                return err
            neg = digits[0] == "-"
            digits = digits[1:]
        if not digits:
            return err
        val = 0
        for c in digits:
            d = "0123456789abcdefghijklmnopqrstuvwxyz".find(c.lower()) if c.isascii() else -1
            if d < 0 or d >= rad[2]:
                return err
            val = val * rad[2] + d
        if neg:
            val = -val
        n = IB[ty] if ty in IB else 64
        lo, hi = (-(1 << (n - 1)), (1 << (n - 1)) - 1) if signed else (0, (1 << n) - 1)
        if not lo <= val <= hi:
            return err
        return ("adt", RESULT, 0, "Ok", (mk_int(ty, val),))
    return f


for _ty in ("u8", "u16", "u32", "u64", "u128", "usize", "i8", "i16", "i32", "i64", "i128", "isize"):
    PMODELS["core::num::<impl %s>::from_str_radix" % _ty] = _from_str_radix(_ty)


@pmodel("std::vec::Vec::<T, A>::push")
def _vec_push(pe, st, args, t):
    r, x = args
    v = _deref(pe, st, r)
    if r == TOP or r[0] != "ref" or v == TOP:
        raise _Abort("top", "push on an unknown vector")
    if v[0] == "harr":
        ent = pe.heap.arrs[v[1]]
        ent[2][ent[0]] = x
        ent[0] += 1
        pe.heap.version += 1
        return UNIT
    if v[0] == "array":
        pe.store_ptr(st, r[1], ("array", tuple(v[1]) + (x,)))
        return UNIT
    raise _Abort("top", "push on an unknown vector")


def _vec_set(pe, st, r, items):
    """replace the vector behind reference r by one holding items"""
    v = _deref(pe, st, r)
    if v != TOP and v[0] == "harr":
        ent = pe.heap.arrs[v[1]]
        ent[0] = len(items)
        ent[2] = dict(enumerate(items))
        pe.heap.version += 1
        return
    if r == TOP or r[0] != "ref" or r[1][0] != "place":
        raise _Abort("top", "update of a vector that is not in a known place")
    pe.store_ptr(st, r[1], _vec_of(pe, items))


@pmodel("<std::vec::Vec<T, A> as std::iter::Extend<T>>::extend", "<std::vec::Vec<T, A> as std::iter::Extend<&'a T>>::extend",
        "std::vec::Vec::<T, A>::extend_from_slice", "std::vec::Vec::<T, A>::append")
def _vec_extend(pe, st, args, t):
    r, src = args
    cur = _seq_items(pe, _deref(pe, st, r))
    nm = (t.get("callee") or "").rsplit("::", 1)[1]
    if cur is None:
        raise _Abort("top", "%s() on an unknown vector" % nm)
    if nm == "append":
        add = _seq_items(pe, _deref(pe, st, src))
        if add is None:
            raise _Abort("top", "append() of an unknown vector")
        _vec_set(pe, st, src, [])
    elif nm == "extend_from_slice":
        add = _seq_items(pe, _deref(pe, st, src))
        if add is None and _deref(pe, st, src) != TOP and _deref(pe, st, src)[0] in ("symvec", "symslice"):
            raise _Abort("top", "extend_from_slice of payload bytes is not modelled")
        if add is None:
            raise _Abort("top", "extend_from_slice() of an unknown slice")
    else:
        it = _as_iter(pe, st, src)
        if it is None or (len(it) > 3 and it[3] == ("cycle",)):
            raise _Abort("top", "extend() from an unknown iterator")
        add = list(it[1][it[2]:])
        if "Extend<&'a T>" in (t.get("callee") or ""):
            add = [_deref(pe, st, x) for x in add]
    _vec_set(pe, st, r, list(cur) + list(add))
    return UNIT


@pmodel("std::vec::Vec::<T, A>::pop", "std::vec::Vec::<T, A>::clear", "std::vec::Vec::<T, A>::truncate", "std::vec::Vec::<T, A>::insert",
        "std::vec::Vec::<T, A>::remove", "std::vec::Vec::<T, A>::swap_remove")
def _vec_edit(pe, st, args, t):
    r = args[0]
    nm = (t.get("callee") or "").rsplit("::", 1)[1]
    cur = _seq_items(pe, _deref(pe, st, r))
    if cur is None:
        raise _Abort("top", "%s() on an unknown vector" % nm)
    if nm == "pop":
        if not cur:
            return NONE
        _vec_set(pe, st, r, cur[:-1])
        return some(cur[-1])
    if nm == "clear":
        _vec_set(pe, st, r, [])
        return UNIT
    i = args[1]
    if i == TOP or i[0] != "int":
        raise _Abort("top", "%s() with an unknown index" % nm)
    if nm == "truncate":
        _vec_set(pe, st, r, cur[:i[2]])
        return UNIT
    if nm == "insert":
        if i[2] > len(cur):
            raise _Abort("diverge", "insert(%d) into a vector of length %d" % (i[2], len(cur)))
        _vec_set(pe, st, r, cur[:i[2]] + [args[2]] + cur[i[2]:])
        return UNIT
    if i[2] >= len(cur):
        raise _Abort("diverge", "%s(%d) on a vector of length %d" % (nm, i[2], len(cur)))
    x = cur[i[2]]
    if nm == "remove":
        _vec_set(pe, st, r, cur[:i[2]] + cur[i[2] + 1:])
    else:
        rest = list(cur)
        rest[i[2]] = rest[-1]
        _vec_set(pe, st, r, rest[:-1])
    return x


@pmodel("<std::string::String as std::iter::Extend<char>>::extend", "<std::string::String as std::iter::Extend<&'a str>>::extend",
        "<std::string::String as std::iter::Extend<std::string::String>>::extend", "<std::string::String as std::iter::Extend<&'a char>>::extend")
def _string_extend(pe, st, args, t):
    r, src = args
    cur = _deref(pe, st, r)
    it = _as_iter(pe, st, src)
    if r == TOP or r[0] != "ref" or cur == TOP or cur[0] != "string" or it is None or (len(it) > 3 and it[3] == ("cycle",)):
        raise _Abort("top", "String::extend on an unknown string/iterator")
    toks = list(cur[1])
    for x in it[1][it[2]:]:
        x = _deref_all(pe, st, x)
        tk = _str_tokens(pe, st, x)
        if tk is None:
            tk = _char_tokens(x)
        if tk is None:
            raise _Abort("top", "String::extend with unknown pieces")
        toks += list(tk)
    pe.store_ptr(st, r[1], ("string", tuple(toks)))
    return UNIT


@pmodel("std::vec::Vec::<T>::with_capacity")
def _vec_with_capacity(pe, st, args, t):
    return pe.heap.new(0, TOP)


@pmodel("core::str::<impl str>::chars")
def _str_chars(pe, st, args, t):
    v = _deref_all(pe, st, args[0])
    if v != TOP and v[0] == "str":
        return ("iter", tuple(("char", ord(c)) for c in v[1]), 0)
    if v != TOP and v[0] == "string" and all(isinstance(x, int) for x in v[1]):
        return ("iter", tuple(("char", x) for x in v[1]), 0)
    raise _Abort("top", "chars() of an unknown string")


def _char_model(name, fn, nargs=1):
    @pmodel("core::char::methods::<impl char>::%s" % name)
    def f(pe, st, args, t):
        xs = [_deref_all(pe, st, a) for a in args[:nargs]]
        if xs[0] == TOP or xs[0][0] != "char":
            raise _Abort("top", "char::%s of an unknown character" % name)
        return fn(pe, st, *xs)
    return f


_char_model("len_utf8", lambda pe, st, c: mk_int("usize", len(chr(c[1]).encode())))
_char_model("to_ascii_uppercase", lambda pe, st, c: ("char", ord(chr(c[1]).upper()) if c[1] < 128 else c[1]))
_char_model("to_ascii_lowercase", lambda pe, st, c: ("char", ord(chr(c[1]).lower()) if c[1] < 128 else c[1]))
_char_model("is_whitespace", lambda pe, st, c: mk_bool(chr(c[1]).isspace()))
_char_model("is_ascii_whitespace", lambda pe, st, c: mk_bool(chr(c[1]) in " \t\n\x0c\r"))
_char_model("is_ascii_hexdigit", lambda pe, st, c: mk_bool(chr(c[1]) in "0123456789abcdefABCDEF"))
_char_model("is_ascii_punctuation", lambda pe, st, c: mk_bool(c[1] < 128 and chr(c[1]) in "!\"#$%&'()*+,-./:;<=>?@[\\]^_`{|}~"))
_char_model("is_ascii_graphic", lambda pe, st, c: mk_bool(33 <= c[1] <= 126))
_char_model("is_ascii_control", lambda pe, st, c: mk_bool(c[1] < 32 or c[1] == 127))


def _char_to_digit(pe, st, c, radix):
    if radix == TOP or radix[0] != "int":
        raise _Abort("top", "to_digit with an unknown radix")
    if not 2 <= radix[2] <= 36:
        raise _Abort("diverge", "to_digit with radix %d" % radix[2])
    d = "0123456789abcdefghijklmnopqrstuvwxyz".find(chr(c[1]).lower()) if c[1] < 128 else -1
    return some(mk_int("u32", d)) if 0 <= d < radix[2] else NONE


_char_model("to_digit", _char_to_digit, 2)


@pmodel("core::str::<impl str>::to_lowercase", "core::str::<impl str>::to_uppercase", "core::str::<impl str>::to_ascii_lowercase",
        "core::str::<impl str>::to_ascii_uppercase", "core::str::<impl str>::trim", "core::str::<impl str>::trim_start",
        "core::str::<impl str>::trim_end", "alloc::str::<impl str>::to_lowercase", "alloc::str::<impl str>::to_uppercase")
def _str_case(pe, st, args, t):
    s_ = _pystr(pe, st, args[0])
    nm = (t.get("callee") or "").rsplit("::", 1)[1]
    if s_ is None:
        raise _Abort("top", "%s() of an unknown string" % nm)
    if nm.startswith("trim"):
        r = {"trim": s_.strip(), "trim_start": s_.lstrip(), "trim_end": s_.rstrip()}[nm]
        return ("ref", ("const", ("str", r)))
    if "ascii" in nm:
        r = "".join((c.lower() if "lower" in nm else c.upper()) if ord(c) < 128 else c for c in s_)
    else:
        if any(ord(c) >= 128 for c in s_):
            raise _Abort("top", "%s() of non-ASCII text (Unicode case tables not modelled)" % nm)
        r = s_.lower() if "lower" in nm else s_.upper()
    return _mkstring(r)


@pmodel("core::str::<impl str>::char_indices")
def _str_char_indices(pe, st, args, t):
    s_ = _pystr(pe, st, args[0])
    if s_ is not None:
        out, off = [], 0
        for c in s_:
            out.append(("tuple", (mk_int("usize", off), ("char", ord(c)))))
            off += len(c.encode())
        return ("iter", tuple(out), 0)
    raise _Abort("top", "char_indices() of an unknown string")


@pmodel("core::str::<impl str>::as_bytes", "core::str::<impl str>::bytes", "std::string::String::as_bytes")
def _str_as_bytes(pe, st, args, t):
    v = _deref_all(pe, st, args[0])
    if v != TOP and v[0] == "str":
        arr = ("array", tuple(mk_int("u8", b) for b in v[1].encode()))
        if (t.get("callee") or "").endswith("::bytes"):
            return ("iter", arr[1], 0)
        return ("ref", ("const", arr))
    s_ = _pystr(pe, st, v)
    if s_ is not None:
        arr = ("array", tuple(mk_int("u8", b) for b in s_.encode()))
        if (t.get("callee") or "").endswith("::bytes"):
            return ("iter", arr[1], 0)
        return ("ref", ("const", arr))
    raise _Abort("top", "as_bytes() of an unknown string")


@pmodel("std::string::String::into_bytes", "alloc::string::String::into_bytes", "core::str::<impl str>::into_boxed_bytes")
def _string_into_bytes(pe, st, args, t):
    s_ = _pystr(pe, st, args[0])
    if s_ is None:
        raise _Abort("top", "into_bytes() of an unknown string")
    return _vec_of(pe, [mk_int("u8", b) for b in s_.encode()])


@pmodel("core::str::traits::<impl std::ops::Index<I> for str>::index", "core::str::<impl str>::get_unchecked")
def _str_index(pe, st, args, t):
    v = _deref_all(pe, st, args[0])
    r = args[1]
    if v != TOP and v[0] == "string":
        s_ = _pystr(pe, st, v)
        if s_ is not None:
            v = ("str", s_)
    if v == TOP or v[0] != "str" or r == TOP or r[0] != "adt":
        raise _Abort("top", "slicing an unknown string")
    b = v[1].encode()
    nm = r[1].split("::")[-1]
    vals = [x[2] if (x != TOP and x[0] == "int") else None for x in r[4]]
    if nm == "Range":
        lo, hi = vals
    elif nm == "RangeFrom":
        lo, hi = vals[0], len(b)
    elif nm == "RangeTo":
        lo, hi = 0, vals[0]
    elif nm == "RangeFull":
        lo, hi = 0, len(b)
    else:
        raise _Abort("top", "unsupported string range")
    if lo is None or hi is None:
        raise _Abort("top", "string range with unknown bounds")
    if not (0 <= lo <= hi <= len(b)):
        raise _Abort("diverge", "string slice %d..%d out of range" % (lo, hi))
    try:
        return ("ref", ("const", ("str", b[lo:hi].decode())))
    except UnicodeDecodeError:
        raise _Abort("diverge", "string slice not on a char boundary")


@pmodel("std::string::String::len", "core::str::<impl str>::len")
def _string_len(pe, st, args, t):
    toks = _str_tokens(pe, st, args[0])
    if toks is None or not all(isinstance(x, int) for x in toks):
        return TOP
    return mk_int("usize", len("".join(chr(c) for c in toks).encode()))


@pmodel("<T as std::string::ToString>::to_string", "std::string::ToString::to_string", "<str as std::string::ToString>::to_string",
        "<std::string::String as std::string::ToString>::to_string", "<char as std::string::ToString>::to_string")
def _to_string(pe, st, args, t):
    v = _deref(pe, st, args[0])
    if v != TOP and v[0] == "int":
        return ("string", tuple(ord(c) for c in str(v[2])))
    if v != TOP and v[0] == "string":
        return v
    if v != TOP and v[0] == "str":
        return ("string", tuple(ord(c) for c in v[1]))
    return ("string", (("disp", v),))


@pmodel("std::str::<impl str>::replace")
def _str_replace(pe, st, args, t):
    src = _str_tokens(pe, st, args[0])
    pat = _str_tokens(pe, st, args[1])
    to = _str_tokens(pe, st, args[2])
    if src is None or pat is None or to is None or not pat or not all(isinstance(x, int) for x in pat):
        raise _Abort("top", "replace() on unknown strings")
    out = []
    i = 0
    n = len(pat)
    while i < len(src):
        if tuple(src[i:i + n]) == tuple(pat):
            out += list(to)
            i += n
        else:
            out.append(src[i])
            i += 1
    return ("string", tuple(out))


@pmodel("<std::string::String as std::clone::Clone>::clone")
def _string_clone(pe, st, args, t):
    v = _deref(pe, st, args[0])
    if v != TOP and v[0] == "string":
        return v
    raise _Abort("top", "clone of an unknown string")


@pmodel("<std::borrow::Cow<'_, B> as std::ops::Deref>::deref", "std::borrow::Cow::<'_, B>::into_owned", "std::borrow::Cow::<'_, B>::to_mut",
        "<std::borrow::Cow<'a, str> as std::convert::From<&'a str>>::from", "<std::borrow::Cow<'a, str> as std::convert::From<std::string::String>>::from")
def _cow_ops(pe, st, args, t):
    nm = (t.get("callee") or "").rsplit("::", 1)[1]
    if nm == "from":
        a = args[0]
        return ("adt", "std::borrow::Cow", 0 if (a != TOP and a[0] == "ref") else 1, "Borrowed" if (a != TOP and a[0] == "ref") else "Owned", (a,))
    v = _uncow(pe, st, args[0])
    if v == TOP:
        raise _Abort("top", "Cow::%s of an unknown value" % nm)
    if nm == "deref":
        return ("ref", ("const", v))
    if nm == "into_owned":
        toks = _str_tokens(pe, st, v)
        return ("string", tuple(toks)) if toks is not None else v
    raise _Abort("top", "Cow::to_mut is not modelled")


def _bytes_family():
    from .fold import INT_BITS as IB

    def mk(ty, how, endian):
        n = IB[ty] // 8

        def f(pe, st, args, t):
            a = args[0]
            if how == "from":
                items = _seq_items(pe, a) if a != TOP else None
                if items is None or len(items) != n or any(x == TOP or x[0] != "int" for x in items):
                    raise _Abort("top", "%s::from_%s_bytes of unknown bytes" % (ty, endian))
                bs = [x[2] for x in items]
                if endian == "le":
                    bs = bs[::-1]
                val = 0
                for b in bs:
                    val = (val << 8) | b
                if ty.startswith("i") and val >= 1 << (8 * n - 1):
                    val -= 1 << (8 * n)
                return mk_int(ty, val)
            if a == TOP or a[0] != "int":
                raise _Abort("top", "%s::to_%s_bytes of an unknown value" % (ty, endian))
            val = a[2] & ((1 << (8 * n)) - 1)
            bs = [(val >> (8 * (n - 1 - i))) & 0xFF for i in range(n)]
            if endian == "le":
                bs = bs[::-1]
            return ("array", tuple(mk_int("u8", b) for b in bs))
        return f
    for ty in ("u16", "u32", "u64", "u128", "usize", "i16", "i32", "i64"):
        for endian in ("be", "le", "ne"):
            e2 = "le" if endian == "ne" else endian  # the analysed target (x86_64) is little-endian
            PMODELS["core::num::<impl %s>::from_%s_bytes" % (ty, endian)] = mk(ty, "from", e2)
            PMODELS["core::num::<impl %s>::to_%s_bytes" % (ty, endian)] = mk(ty, "to", e2)


_bytes_family()


@pmodel("<std::string::String as std::ops::Deref>::deref", "std::string::String::as_str", "std::hint::must_use",
        "<std::vec::Vec<T, A> as std::ops::Deref>::deref", "std::vec::Vec::<T, A>::as_slice")
def _identity(pe, st, args, t):
    return args[0]


def _deref_all(pe, st, v):
    for _ in range(4):
        if v != TOP and v[0] == "ref":
            v = pe._load_ptr(st, v[1])
        else:
            break
    return v


@pmodel("std::fmt::Arguments::<'a>::from_str")
def _arguments_from_str(pe, st, args, t):
    v = _deref_all(pe, st, args[0])
    if v != TOP and v[0] == "str":
        return ("fmtargs", ((v[1],), ()))
    return ("tok", "fmt::Arguments")


@pmodel("<std::string::String as std::fmt::Write>::write_fmt", "std::fmt::Write::write_fmt", "<std::string::String as std::fmt::Write>::write_str",
        "<std::string::String as std::fmt::Write>::write_char")
def _string_write_fmt(pe, st, args, t):
    r, a = args
    cur = _deref(pe, st, r)
    nm = (t.get("callee") or t.get("declared") or "").rsplit("::", 1)[1]
    if r == TOP or r[0] != "ref" or cur == TOP or cur[0] != "string":
        raise _Abort("top", "write!() into something that is not a known String")
    if nm == "write_fmt":
        add = _fmt_format(pe, st, [a], t)[1]
    elif nm == "write_str":
        add = _str_tokens(pe, st, a)
    else:
        add = _char_tokens(a)
    if add is None:
        raise _Abort("top", "write!() of unknown text")
    pe.store_ptr(st, r[1], ("string", cur[1] + tuple(add)))
    return ("adt", RESULT, 0, "Ok", (UNIT,))


@pmodel("core::fmt::rt::Argument::<'_>::new_display")
def _new_display(pe, st, args, t):
    return ("fmtarg", _deref_all(pe, st, args[0]))


@pmodel("core::fmt::rt::Argument::<'_>::new_lower_hex")
def _new_lower_hex(pe, st, args, t):
    return ("fmtarg", _deref_all(pe, st, args[0]), "x")  # `{:x}` of a `&u8` formats the byte


@pmodel("std::fmt::Arguments::<'a>::new")
def _arguments_new(pe, st, args, t):
    tpl = _deref(pe, st, args[0])
    arr = _deref(pe, st, args[1])
    if tpl == TOP or tpl[0] != "array" or arr == TOP or arr[0] != "array":
        raise _Abort("top", "format arguments not constant")
    bs = []
    for b in tpl[1]:
        if b == TOP or b[0] != "int":
            raise _Abort("top", "format template not constant")
        bs.append(b[2])
    return ("fmtargs", tuple(bs), arr[1])


def _pad(txt, flags, width, numeric):
    """apply fill/alignment/width of a packed FormattingOptions word to an already rendered value"""
    width = width or 0
    if len(txt) >= width:
        return txt
    fill = chr(flags & 0x1FFFFF) if flags & 0x1FFFFF else " "
    if flags & (1 << 24) and numeric:
        # sign-aware zero padding: after the sign / radix prefix
        sign = ""
        body = txt
        if body[:1] in "+-":
            sign, body = body[0], body[1:]
        if body[:2] in ("0x", "0b", "0o"):
            sign, body = sign + body[:2], body[2:]
        return sign + body.rjust(width - len(sign), "0")
    align = (flags >> 29) & 3
    if align == 3:
        align = 1 if numeric else 0
    if align == 0:
        return txt.ljust(width, fill)
    if align == 1:
        return txt.rjust(width, fill)
    total = width - len(txt)
    return fill * (total // 2) + txt + fill * (total - total // 2)


@pmodel("core::fmt::rt::Argument::<'_>::new_upper_hex")
def _new_upper_hex(pe, st, args, t):
    return ("fmtarg", _deref_all(pe, st, args[0]), "X")


@pmodel("core::fmt::rt::Argument::<'_>::new_binary")
def _new_binary(pe, st, args, t):
    return ("fmtarg", _deref_all(pe, st, args[0]), "b")


@pmodel("core::fmt::rt::Argument::<'_>::new_octal")
def _new_octal(pe, st, args, t):
    return ("fmtarg", _deref_all(pe, st, args[0]), "o")


@pmodel("std::fmt::format")
def _fmt_format(pe, st, args, t):
    from .mir import decode_template
    a = args[0]
    if a == TOP or a[0] != "fmtargs":
        raise _Abort("top", "format of unknown arguments")
    out = []
    for piece in decode_template(list(a[1])):
        if piece[0] == "lit":
            out += [ord(c) for c in piece[1]]
        else:
            idx = piece[1]
            if idx >= len(a[2]) or a[2][idx] == TOP or a[2][idx][0] != "fmtarg":
                raise _Abort("top", "format placeholder without argument")
            v = a[2][idx][1]
            kind = a[2][idx][2] if len(a[2][idx]) > 2 else None
            if kind in ("x", "X", "b", "o") and v != TOP and v[0] == "int" and v[2] >= 0:
                txt = format(v[2], kind)
                fl = piece[2] or 0
                if fl & (1 << 23):
                    txt = {"x": "0x", "X": "0x", "b": "0b", "o": "0o"}[kind] + txt
                out += [ord(c) for c in _pad(txt, fl, piece[3], numeric=True)]
            elif v != TOP and v[0] == "int" and kind is None and (piece[2] is not None or piece[3] is not None) and piece[4] is None:
                fl = piece[2] or 0
                txt = str(v[2])
                if fl & (1 << 21) and v[2] >= 0:
                    txt = "+" + txt
                padded = _pad(txt, fl, piece[3], numeric=True)
                if padded is None:
                    out.append(("disp", v, piece[2], piece[3], piece[4]))
                else:
                    out += [ord(c) for c in padded]
            elif v != TOP and v[0] == "char":
                out.append(v[1])
            elif v != TOP and v[0] == "int" and piece[2] is None and piece[3] is None:
                out += [ord(c) for c in str(v[2])]
            elif v != TOP and v[0] == "string":
                out += list(v[1])
            elif v != TOP and v[0] == "str":
                out += [ord(c) for c in v[1]]
            else:
                out.append(("disp", v, piece[2], piece[3], piece[4]))
    return ("string", tuple(out))


# --------------------------------------------------------------------------
# helpers for rules
# --------------------------------------------------------------------------

def enum(path, name):
    return ("enum", path, name)


def module_bits(v):
    """abstract Module -> int (0..255) or None"""
    if v == TOP or v[0] != "adt" or not v[4]:
        return None
    x = v[4][0]
    return x[2] if x != TOP and x[0] == "int" else None


def matrix_sym(pe, qr_val):
    """like matrix_of, but cells are (byte, None) or (byte with bit 0 cleared, (j, k, negated))"""
    if qr_val == TOP or qr_val[0] != "adt":
        return None
    data, size = qr_val[4][0], qr_val[4][1]
    if data == TOP or data[0] != "harr" or size == TOP:
        return None
    n, d, cells = pe.heap.arrs[data[1]]

    def conv(v):
        b = module_bits(v)
        if b is not None:
            return (b, None)
        if v != TOP and v[0] == "adt" and v[4] and v[4][0] != TOP and v[4][0][0] == "tagint":
            return (v[4][0][2], v[4][0][3])
        return (None, None)
    return size[2], {i: conv(v) for i, v in cells.items()}, conv(d), n


def matrix_of(pe, qr_val):
    """(size, {index: module byte}, default byte) of an abstract QRCode value"""
    if qr_val == TOP or qr_val[0] != "adt":
        return None
    data, size = qr_val[4][0], qr_val[4][1]
    if data == TOP or data[0] != "harr" or size == TOP:
        return None
    n, d, cells = pe.heap.arrs[data[1]]
    return size[2], {i: module_bits(v) for i, v in cells.items()}, module_bits(d), n
