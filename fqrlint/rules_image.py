"""C13 (raster option plumbing) and the image half of C19."""
from .mir import subexprs, expr_str
from .rules_tables import anchor_fn, where_fn
from .rules_flow import contains, ret_points, strip_refs
from . import fold
from .fold import TOP, to_py, mk_int

IMGB = "convert::image::ImageBuilder"
SVGB = "convert::svg::SvgBuilder"
BUILDER_METHODS = ["margin", "module_color", "background_color", "shape", "shape_color", "image", "image_background_color",
                   "image_background_shape", "image_size", "image_gap", "image_position"]


def c13_r1(ctx, f):
    rid = "C13.R1"
    ctx.rule(rid, "every Builder option of ImageBuilder is forwarded unchanged to the inner SvgBuilder (11 methods)")
    n = 0
    for m in BUILDER_METHODS:
        path = "<%s as convert::Builder>::%s" % (IMGB, m)
        fn = anchor_fn(ctx, rid, f, path)
        if not fn:
            continue
        n += 1
        target = "<%s as convert::Builder>::%s" % (SVGB, m)
        cs = [c for c in fn.calls() if (c.callee or "").startswith("<%s as convert::Builder>::" % SVGB)]
        ctx.analysed(fn, len(cs))
        ok = len(cs) == 1 and cs[0].callee == target
        found = [c.callee for c in cs]
        if ok:
            c = cs[0]
            # receiver = &mut self.svg_builder
            r = fn.origins(c.args[0], c.point)
            ok = len(r) == 1 and r[0].kind == "ref" and any(isinstance(e, dict) and e.get("name") == "svg_builder" for e in r[0].info.rv["p"]["proj"])
            # remaining args = own params in order
            for i, a in enumerate(c.args[1:]):
                o = fn.origins(a, c.point)
                ok = ok and len(o) == 1 and o[0].kind == "param" and o[0].info == i + 2 and not o[0].proj
            ok = ok and len(c.args) == fn.arg_count
            # unconditional
            ok = ok and all(fn.dominates(c.block, r_[0]) for r_ in ret_points(fn))
        ctx.check(rid, ok, path + "/forward", where_fn(fn), fn.path, m,
                  "the option is not forwarded exactly once, with its own arguments in order, to the same method of the inner SVG builder",
                  expected=target, found=found, sample="ImageBuilder::%s -> svg_builder.%s(same args)" % (m, m))
    ctx.floor(rid, "forwarded Builder methods", n, 11)


def c13_t1(ctx, f):
    rid = "C13.T1"
    ctx.rule(rid, "fit requests by partial evaluation through the public setters: to_pixmap asks the rasteriser for the largest "
                  "square satisfying the latest fit_width/fit_height values (same request for size and rendering)")
    fn = anchor_fn(ctx, rid, f, IMGB + "::to_pixmap")
    dflt = "<%s as std::default::Default>::default" % IMGB
    setw, seth = IMGB + "::fit_width", IMGB + "::fit_height"
    if not fn:
        return
    for p_ in (dflt, setw, seth):
        if f.fn(p_) is None:
            ctx.abstain(rid, "%s not found (renamed or moved): fit requests cannot be driven through the public setters" % p_, where_fn(fn))
            return
    from . import peval

    def side(variant, payload):
        """the square side a FitTo request yields for a square document (None = original size): Width(w) and Height(w) are the
        same request there, Size(w, h) fits the square into the box"""
        if variant == "Original":
            return None
        if variant in ("Width", "Height") and len(payload) == 1:
            return payload[0]
        if variant == "Size" and len(payload) == 2:
            return min(payload)
        return ("?", variant, payload)

    programs = [[], [("w", 111)], [("h", 222)], [("w", 111), ("h", 222)], [("h", 222), ("w", 111)], [("w", 222), ("h", 111)],
                [("h", 111), ("w", 222)], [("w", 87), ("w", 348)], [("h", 348), ("h", 87)], [("w", 60), ("h", 90), ("w", 500)],
                [("h", 500), ("w", 90), ("h", 60)],
                # bounds that are close together (the same whole multiple of the document's side, which is given as ORIG below when
                # the code asks for it), equal bounds, bounds smaller than the document
                [("w", 333), ("h", 331)], [("h", 331), ("w", 333)], [("w", 331), ("h", 333)], [("w", 59), ("h", 58)], [("w", 58), ("h", 59)],
                [("w", 30), ("h", 29)], [("w", 100), ("h", 100)], [("w", 7), ("h", 20)], [("w", 20), ("h", 7)], [("w", 1), ("h", 1)]]
    ORIG = 29  # side of the parsed document (V01 with the default margin), for code that consults it before building the request
    import re as _re

    def getters(name, args, t):
        m = _re.search(r"(?:^|::)(ScreenSize|Size)::(width|height)$", name or "")
        if m:
            return mk_int("u32", ORIG) if m.group(1) == "ScreenSize" else ("float", float(ORIG))
        return None
    for prog in programs:
        inst = ".".join("fit_%s(%d)" % ("width" if k == "w" else "height", v) for k, v in prog) or "no fit request"
        F = peval.PEval(f, max_steps=600000)
        F.lenient = True       # usvg/resvg/tiny-skia calls are opaque
        F.opaque_hook = getters
        F.record_trace = False
        r0 = F.run(dflt, [])
        if r0.kind != "ret" or r0.value == TOP:
            ctx.abstain(rid, "%s: ImageBuilder::default does not fold (%s: %s)" % (inst, r0.kind, r0.why), where_fn(fn))
            continue
        b = r0.value
        okset = True
        for k, v in prog:
            rs = F.run(setw if k == "w" else seth, [("cell", 0), mk_int("u32", v)], cells=[b])
            if rs.kind != "ret":
                ctx.abstain(rid, "%s: setter does not fold (%s: %s)" % (inst, rs.kind, rs.why), where_fn(fn))
                okset = False
                break
            b = rs.cells[0]
        if not okset:
            continue
        F.record_trace = True
        F.summaries["convert::svg::SvgBuilder::to_str"] = lambda pe_, st_, a_, t_: TOP  # the document is decided by C12 rules
        r = F.run(fn.path, [("ref", ("const", b)), TOP])
        fits = []
        for e in r.trace:
            if e["depth"] != 1:
                continue
            if e["callee"].rsplit("::", 1)[-1] not in ("fit_to", "render", "render_node"):
                continue  # a FitTo value passed to a combinator (map_or's default, ...) is not a request to the rasteriser
            for a_ in e["dargs"]:
                if a_ != TOP and a_[0] == "adt" and a_[1].endswith("FitTo"):
                    fits.append((e["callee"], a_[3], [to_py(x) for x in a_[4]]))
        lw = [v for k, v in prog if k == "w"]
        lh = [v for k, v in prog if k == "h"]
        w, h = (lw[-1] if lw else None), (lh[-1] if lh else None)
        exp = min(w, h) if (w is not None and h is not None) else (w if w is not None else h)
        users = sorted({c.split("::")[-1] for c, _, _ in fits})
        agree = bool(fits) and all(side(v, p) == exp for _, v, p in fits)
        ok = agree and "render" in users and "fit_to" in users
        if not fits:
            # no FitTo value reached the rasteriser's calls in a form the evaluator knows (built by a combinator it cannot follow)
            ctx.abstain(rid, "%s: the fit request handed to the rasteriser is not a value the evaluation knows (%s: %s)" % (inst, r.kind, r.why), where_fn(fn))
            continue
        if (agree or not fits) and not ok and r.kind != "ret":
            ctx.abstain(rid, "%s: to_pixmap not folded up to the render call (%s: %s)" % (inst, r.kind, r.why), where_fn(fn))
            continue
        ctx.check(rid, ok, "%s/fit/%s" % (fn.path, "+".join(k for k, v in prog) or "none"), where_fn(fn), fn.path, inst,
                  "the fit request handed to the rasteriser is not the largest square satisfying the latest fit_width/fit_height "
                  "values (or size computation and rendering use different requests)",
                  expected="square side %s" % (exp if exp is not None else "original"),
                  found=[(c.split("::")[-1], v, p) for c, v, p in fits] or str(r),
                  sample="%s -> side %s via %s" % (inst, exp if exp is not None else "original", sorted({v for _, v, _ in fits})))


def c13_r2(ctx, f):
    rid = "C13.R2"
    ctx.rule(rid, "PNG bytes/file encode the unmodified pixmap of to_pixmap(self, qr); the SVG rendered is svg_builder.to_str(qr)")
    for path, enc in ((IMGB + "::to_bytes", "encode_png"), (IMGB + "::to_file", "save_png")):
        fn = anchor_fn(ctx, rid, f, path)
        if not fn:
            continue
        tp = fn.calls(IMGB + "::to_pixmap")
        ec = [c for c in fn.calls() if (c.name or "").endswith("::" + enc)]
        ctx.analysed(fn, len(tp) + len(ec))
        ok = len(tp) == 1 and len(ec) == 1
        if ok:
            for a in tp[0].args:
                o = fn.origins(a, tp[0].point)
                ok = ok and len(o) == 1 and o[0].kind == "param"
            o = fn.origins(ec[0].args[0], ec[0].point)
            ok = ok and len(o) == 1 and o[0].kind == "ref" and not o[0].info.rv["p"]["proj"]
            if ok:
                l = o[0].info.rv["p"]["l"]
                rd = fn.reaching(l, ec[0].point)
                ok = len(rd) == 1 and rd[0].kind == "calldest" and rd[0].point == tp[0].point
        ctx.check(rid, ok, path + "/pixmap", where_fn(fn), fn.path, enc + " input",
                  "the PNG is not encoded from the unmodified result of to_pixmap(self, qr)", sample="%s(&to_pixmap(self, qr))" % enc)
        if enc == "save_png" and len(ec) == 1:
            o = fn.origins(ec[0].args[1], ec[0].point)
            ctx.check(rid, len(o) == 1 and o[0].kind == "param", path + "/path", ec[0].where(), fn.path, "file path",
                      "the PNG is not saved at the caller's path", sample="save_png(file)")
    fn = anchor_fn(ctx, rid, f, IMGB + "::to_pixmap")
    if fn:
        ts = fn.calls(SVGB + "::to_str")
        fd = [c for c in fn.calls() if (c.name or "").endswith("Tree::from_data")]
        rn = [c for c in fn.calls() if (c.name or "").endswith("resvg::render") or (c.name or "") == "resvg::render"]
        ok = len(ts) == 1 and len(fd) == 1 and len(rn) == 1
        if not ok and len(ts) == 0 and len(fd) == 1 and len(rn) == 1:
            # the document may be produced through a crate helper (bytes of to_str): followed one level down, no further
            via = [c for c in fn.calls() if c.name and f.fn(c.name) is not None and len(f.fn(c.name).calls(SVGB + "::to_str")) == 1]
            if len(via) == 1:
                ctx.abstain(rid, "to_pixmap obtains the document through %s (which calls to_str once): the pipeline's data flow is not read "
                                 "across that helper" % via[0].name, where_fn(fn))
                return
        ctx.check(rid, ok, fn.path + "/pipeline", where_fn(fn), fn.path, "to_str -> from_data -> render", "raster pipeline calls not found once each",
                  found=dict(to_str=len(ts), from_data=len(fd), render=len(rn)), sample="to_str -> Tree::from_data -> render")
        if ok:
            r = fn.origins(ts[0].args[0], ts[0].point)
            q = fn.origins(ts[0].args[1], ts[0].point)
            ok1 = len(r) == 1 and r[0].kind == "ref" and any(isinstance(e, dict) and e.get("name") == "svg_builder" for e in r[0].info.rv["p"]["proj"]) \
                and len(q) == 1 and q[0].kind == "param"
            ctx.check(rid, ok1, fn.path + "/svg-source", ts[0].where(), fn.path, "SVG rendered", "the SVG rasterised is not self.svg_builder.to_str(qr)",
                      sample="svg_builder.to_str(qr)")
            tdef = [d for d in fn.defs()[0] if d.kind == "calldest" and d.point == ts[0].point][0]
            e = fn.canon(fd[0].args[0], fd[0].point)
            ctx.check(rid, contains(e, ("def", tdef.id)) and any(x[0] == "call" and x[1] == "as_bytes" for x in subexprs(e)) and
                      all(d.strong for d in fn.reaching(tdef.local, fd[0].point)), fn.path + "/parsed", fd[0].where(), fn.path, "bytes parsed",
                      "the tree is not parsed from the unmodified SVG string", found=expr_str(e, fn), sample="Tree::from_data(svg.as_bytes())")
            # returned pixmap is the one rendered into
            ro = [o for rp in ret_points(fn) for o in fn.origins({"k": "copy", "p": {"l": 0, "proj": []}}, rp, hide_weak=True)]
            sl = fn.deps(rn[0].args[3], rn[0].point)
            okp = bool(ro) and all(o.kind == "call" and o.info.id in sl.defs for o in ro)
            ctx.check(rid, okp, fn.path + "/returned", where_fn(fn), fn.path, "returned pixmap", "the pixmap returned is not the one rendered into",
                      found=[o.describe(fn) for o in ro], sample="returns the rendered pixmap")


def c19_image(ctx, f):
    from .rules_svg import c19_fn, c19_r4
    for path in (IMGB + "::to_file", IMGB + "::to_bytes"):
        fn = c19_fn(ctx, f, path, 1)
        if not fn:
            continue
        # the map_err closure keeps the error's text
        rid = "C19.R4"
        ctx.rule(rid, "conversions into ConvertError keep the payload and cannot panic")
        for c in fn.calls("std::result::Result::<T, E>::map_err"):
            o = fn.origins(c.args[1], c.point)
            if len(o) == 1 and o[0].kind == "agg" and o[0].info.rv.get("agg") == "closure":
                body = f.fn(o[0].info.rv["path"])
                if body is None:
                    continue
                ctx.analysed(body)
                rp = ret_points(body)
                sl = body.deps({"k": "copy", "p": {"l": 0, "proj": []}}, rp[0]) if rp else None
                ok = sl is not None and 2 in sl.params
                pan = [x.name for x in body.calls() if (x.name or "").startswith("core::panicking") or (x.name or "").endswith("::unwrap")]
                ctx.check(rid, ok and not pan, body.path + "/keeps-error", where_fn(body), body.path, "map_err closure",
                          "the error value built does not derive from the underlying error (or the closure can panic)", found=pan,
                          sample="%s builds the error from its argument" % body.path.split("::")[-2])
    c19_r4(ctx, f, [
        ("<convert::ConvertError as std::convert::From<convert::svg::SvgError>>::from", {"SvgError": "Svg", "IoError": "Io"}),
        ("<convert::ConvertError as std::convert::From<convert::image::ImageError>>::from",
         {"EncodingError": "Image", "ImageError": "Image", "IoError": "Io"}),
    ])
