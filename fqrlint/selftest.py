"""Self-test corpus runner (thorough tier): mutants must be reported by the named rule,
refactors must leave every check silent.  Filled in by selftest/ (see selftest/README.md)."""
import json
import os
import shutil
import subprocess
import tempfile

from . import facts as factsmod

SELFTEST = os.path.join(factsmod.VERIF, "selftest")


def corpus():
    out = []
    idx = os.path.join(SELFTEST, "corpus.json")
    if not os.path.exists(idx):
        return out
    with open(idx) as f:
        return json.load(f)


def run_for(ctx, prop):
    """run the corpus entries that name `prop`"""
    entries = [e for e in corpus() if prop in e.get("properties", [])]
    if not entries:
        return
    from . import core, props
    rid = prop + ".SELF"
    ctx.rule(rid, "checker self-test: seeded mutants are reported by the named rule, behaviour-preserving refactors are not")
    for e in entries:
        patch = os.path.join(SELFTEST, e["patch"])
        d = tempfile.mkdtemp(prefix="fqr-selftest-")
        try:
            wt = os.path.join(d, "repo")
            r = subprocess.run(["git", "-C", factsmod.REPO, "worktree", "add", "--detach", "-q", wt, "HEAD"], capture_output=True, text=True)
            if r.returncode != 0:
                raise factsmod.MachineryError("cannot create scratch worktree: " + r.stderr)
            # carry the working tree's uncommitted state too
            diff = subprocess.run(["git", "-C", factsmod.REPO, "diff", "HEAD"], capture_output=True, text=True).stdout
            if diff.strip():
                subprocess.run(["git", "-C", wt, "apply"], input=diff, text=True)
            a = subprocess.run(["git", "-C", wt, "apply", patch], capture_output=True, text=True)
            if a.returncode != 0:
                ctx.notes.append("self-test patch %s no longer applies: skipped" % e["patch"])
                continue
            factsmod.clear_cache()
            sub = core.Ctx(prop, "quick", 0, repo=wt)
            try:
                props.PROPS[prop](sub)
                keys = {v.key for v in sub.violations}
                err = None
            except factsmod.MachineryError as ex:
                keys = set()
                err = str(ex)[:200]
            known = {k["key"] for k in core.load_known().get("known", [])}
            keys -= known
            if e["kind"] == "mutant":
                hit = any(k.startswith(e["expect"]) for k in keys)
                ctx.check(rid, hit, "selftest/" + e["patch"], e["patch"], "selftest", e["patch"],
                          "seeded mutant not reported by %s (reported: %s%s)" % (e["expect"], sorted(keys)[:4], " / " + err if err else ""),
                          sample="%s -> %s" % (e["patch"], e["expect"]))
            else:
                ctx.check(rid, not keys and not err, "selftest/" + e["patch"], e["patch"], "selftest", e["patch"],
                          "behaviour-preserving refactor raised an alarm: %s %s" % (sorted(keys)[:4], err or ""),
                          sample="%s silent" % e["patch"])
        finally:
            subprocess.run(["git", "-C", factsmod.REPO, "worktree", "remove", "--force", os.path.join(d, "repo")], capture_output=True)
            subprocess.run(["git", "-C", factsmod.REPO, "worktree", "prune"], capture_output=True)
            shutil.rmtree(d, ignore_errors=True)
            factsmod.clear_cache()
