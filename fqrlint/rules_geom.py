"""Geometry rules decided by partial evaluation of configuration-determined code (engine E4, peval.py).

For each version (and level/mask where the code depends on them) the drawing helpers, the format-information writer
and the mask sweeps are partially evaluated over MIR with the configuration bound; the resulting module map is compared,
module by module, with the region map written from ISO/IEC 18004 in reference.py.  Payload never enters: the functions
analysed here take no payload-derived argument, and the rules assert (structurally) that the sweeps never read a module's
value bit, so the result holds for every payload.
"""
import multiprocessing
import os

from . import cache, fold, peval, reference as ref
from .fold import TOP, mk_enum, to_py
from .rules_tables import anchor_fn, where_fn, division_routine, VERSION, ECL, MASK, MTYPE

QUICK_PLACE_VERSIONS = list(range(1, 11)) + [14, 21, 27, 40]  # all alignment-grid shapes up to 4x4, version info, both count classes; the largest symbol (every index width)
QUICK_TERM_VERSIONS = [1, 2, 3, 4, 5, 6, 39, 40]  # smallest sizes plus the two largest (the synthetic border rows are 177 long)
QUICK_MASK_VERSIONS = list(range(1, 11)) + [25, 40]  # sizes 21..57: every residue of the size modulo 2, 3, 6 and 12 occurs; V25/V40: every coordinate up to 177 (beyond 64 and 128), different alignment grids
_G = {}


def _versions(ctx, what):
    if what == "masks" and ctx.tier != "thorough":
        return QUICK_MASK_VERSIONS
    if what == "place" and ctx.tier != "thorough":
        return QUICK_PLACE_VERSIONS
    return list(range(1, 41))


def _qr_with_clone(pe, qr):
    data = pe.heap.clone(qr[4][0])
    return qr[:4] + ((data,) + tuple(qr[4][1:]),)


def _grid(pe, qr_val):
    m = peval.matrix_of(pe, qr_val)
    if m is None:
        return None
    size, cells, d, n = m
    return {"size": size, "cells": cells, "default": d, "len": n}


_RM = {}


def _region_cache(v):
    if v not in _RM:
        _RM[v] = ref.region_map(v)
    return _RM[v]


_FORMAT_COMBOS = {}


def _job(job):
    """one part of the geometry of one version, in a worker process: ("base", format-combination rule | None) = the blank symbol
    and the format writer; "place" = codeword placement; ("mask", m) = one mask sweep.  Parts are independent jobs so that no single
    job dominates the wall time and so that each is memoised on its own (cache.pmap_each)"""
    f = _G["facts"]
    v, part = job
    want = {}
    only_masks = []
    if part[0] == "base":
        if part[1] is not None:
            want["format"] = _FORMAT_COMBOS[part[1]]
    elif part[0] == "place":
        want["place"] = {v}
    else:
        want["masks"] = {v}
        only_masks = [part[1]]
    out = {"v": v, "part": part}
    pe = peval.PEval(f)
    r = pe.call("default::create_matrix", [mk_enum(VERSION, "V%02d" % v)])
    out["blank_status"] = (r.kind, r.why)
    out["blank_calls"] = dict(pe.calls_seen)
    if r.kind != "ret":
        return out
    qr = r.value
    g = _grid(pe, qr)
    if g is None:
        out["blank_status"] = ("top", "result is not a QRCode with a known matrix")
        return out
    out["blank"] = g
    if "format" in want:
        res = {}
        for (l, mk) in want["format"](v):
            q2 = _qr_with_clone(pe, qr)
            pe.calls_seen = {}
            r2 = pe.run("default::create_matrix_format_info", [("cell", 0), mk_enum(ECL, l), mk_enum(MASK, mk)], cells=[q2])
            if r2.kind != "ret":
                res[(l, mk)] = {"status": (r2.kind, r2.why)}
                continue
            g2 = _grid(pe, r2.cells[0])
            diff = {i: b for i, b in g2["cells"].items() if g["cells"].get(i, g["default"]) != b or i not in g["cells"]}
            # every cell the writer stored into, including stores of an unchanged value
            res[(l, mk)] = {"status": ("ret", None), "after": g2["cells"], "diff": diff}
            # the writer runs after placement (and possibly after masking): the same on a symbol whose encoding region is dark, and
            # on one with a dark/light chequered encoding region - what it writes must not depend on the data modules around it
            for vname, pred in (("dark", lambda r_, c_: True), ("chequered", lambda r_, c_: (r_ + c_) % 2 == 0)):
                q3 = _qr_with_clone(pe, qr)
                h3 = q3[4][0]
                n_ = g["size"]
                rm = _region_cache(v)
                base = {}
                for (r_, c_), (reg, _val) in rm.items():
                    if reg == ref.DATA and pred(r_, c_):
                        i = r_ * n_ + c_
                        b = g["cells"].get(i, g["default"])
                        if isinstance(b, int):
                            base[i] = b | 1
                            pe.heap.put(h3, i, ("adt", "module::Module", 0, "Module", (fold.mk_int("u8", b | 1),)))
                pe.calls_seen = {}
                r3 = pe.run("default::create_matrix_format_info", [("cell", 0), mk_enum(ECL, l), mk_enum(MASK, mk)], cells=[q3])
                if r3.kind != "ret":
                    res[(l, mk)][vname] = {"status": (r3.kind, r3.why)}
                    continue
                g3 = _grid(pe, r3.cells[0])
                if g3 is None:
                    res[(l, mk)][vname] = {"status": ("top", "result is not a known matrix")}
                    continue
                d3 = {i: b for i, b in g3["cells"].items() if base.get(i, g["cells"].get(i, g["default"])) != b}
                res[(l, mk)][vname] = {"status": ("ret", None), "after": g3["cells"], "diff": d3}
        out["format"] = res
    if "place" in want and v in want["place"]:
        q2 = _qr_with_clone(pe, qr)
        pe.calls_seen = {}
        # the bit string placement::create_matrix hands over: 8 x total codewords + remainder bits long (C01.R2 checks that hand-off)
        nbits = 8 * ref.total_codewords(v) + ref.remainder_bits(v)
        cq = ("adt", "compact::CompactQR", 0, "CompactQR", (fold.mk_int("usize", nbits), ("symvec",)))
        pfn = f.fn("placement::place_on_matrix_data")
        if pfn is not None and (pfn.raw.get("inputs") or [None, None])[1] in ("&[u8]", "&std::vec::Vec<u8>"):
            cq = ("symvec", (nbits + 7) // 8)  # the stage takes the codeword bytes themselves
        r2 = pe.run("placement::place_on_matrix_data", [("cell", 0), ("ref", ("const", cq))], cells=[q2])
        if r2.kind != "ret":
            out["place"] = {"status": (r2.kind, r2.why)}
        else:
            size, cells, d, n = peval.matrix_sym(pe, r2.cells[0])
            out["place"] = {"status": ("ret", None), "after": cells, "default": d, "calls": sorted(pe.calls_seen)}
    if "masks" in want and v in want["masks"]:
        res = {}
        # the value bit of every module is a free symbol (its own coordinate): the result shows, per module, whether the sweep
        # negates it - for every payload at once; a sweep that consults a value either merges back or is refused
        n_ = g["size"]
        base = _qr_with_clone(pe, qr)
        hb = base[4][0]
        for i in range(n_ * n_):
            b = g["cells"].get(i, g["default"])
            pe.heap.put(hb, i, ("adt", "module::Module", 0, "Module", (("tagint", "u8", b & ~1, (i // n_, i % n_, bool(b & 1))),)))
        for mk in only_masks:
            q2 = _qr_with_clone(pe, base)
            pe.calls_seen = {}
            r2 = pe.run("datamasking::mask", [("cell", 0), mk_enum(MASK, mk)], cells=[q2])
            if r2.kind != "ret":
                res[mk] = {"status": (r2.kind, r2.why)}
                continue
            sz, cells, d, ln = peval.matrix_sym(pe, r2.cells[0])
            after = {}
            for i, (b, tag) in cells.items():
                if i >= n_ * n_:
                    after[i] = ("outside", b, tag)
                    continue
                b0 = g["cells"].get(i, g["default"])
                if tag is None:
                    after[i] = ("const", b, None)  # the module lost its symbol: overwritten with a constant
                elif (tag[0], tag[1]) != (i // n_, i % n_):
                    after[i] = ("moved", b, tag)
                else:
                    after[i] = ("sym", b | (b0 & 1), tag[2] != bool(b0 & 1))  # (label bits kept?, negated?)
            res[mk] = {"status": ("ret", None), "after": after, "calls": sorted(pe.calls_seen)}
        out["masks"] = res
    return out


def _run_jobs(f, versions, want):
    _G["facts"] = f
    fmt = want.get("format")
    fmt_name = getattr(fmt, "__name__", None) if fmt is not None else None
    jobs = []
    for v in sorted(versions, reverse=True):
        jobs.append((v, ("base", fmt_name)))
        if "place" in want and v in want["place"]:
            jobs.append((v, ("place",)))
        if "masks" in want and v in want["masks"]:
            jobs += [(v, ("mask", mk)) for mk in ref.MASKS]
    # largest first so that the pool drains evenly
    jobs.sort(key=lambda j: -(j[0] * (1 if j[1][0] != "base" else 0.2)))
    res = cache.pmap_each(f, "geometry", _job, jobs)
    merged = {}
    for r in res:
        if r["part"][0] == "base":
            merged[r["v"]] = dict(r)
    for r in res:
        if r["part"][0] == "base":
            continue
        m = merged[r["v"]]
        if "place" in r:
            m["place"] = r["place"]
        if "masks" in r:
            m["masks"] = dict(m.get("masks", {}), **r["masks"])
        if r["blank_status"][0] != "ret" and m["blank_status"][0] == "ret":
            m["blank_status"] = r["blank_status"]
    return sorted(merged.values(), key=lambda r: r["v"])


def _format_combos_quick(v):
    """quick tier: every (level, mask) on V01, V07 and V40; elsewhere two complementary words per version"""
    allc = [(l, m) for l in ref.LEVELS for m in ref.MASKS]
    if v in (1, 7, 40):
        return allc
    a = allc[(v * 5) % 32]
    # the word whose bits differ most from a's: pick the combination with maximal Hamming distance
    wa = ref.format_word(a[0], ref.MASKS.index(a[1]))
    b = max(allc, key=lambda c: bin(ref.format_word(c[0], ref.MASKS.index(c[1])) ^ wa).count("1"))
    return [a, b]


def _format_combos_all(v):
    return [(l, m) for l in ref.LEVELS for m in ref.MASKS]


_FORMAT_COMBOS.update({"_format_combos_quick": _format_combos_quick, "_format_combos_all": _format_combos_all})


def geometry(ctx, f, need):
    """run (once per check) the partial evaluation jobs a property needs; cached on the facts object"""
    key = (tuple(sorted(need)), ctx.tier)
    cache = getattr(f, "_geom_cache", None)
    if cache is None:
        cache = f._geom_cache = {}
    for (k_need, k_tier), val in cache.items():
        if k_tier == ctx.tier and set(need) <= set(k_need):
            return val
    if os.environ.get("FQR_GEOM_ALL"):
        need = set(need) | {"blank", "format", "masks", "place"}
        key = (tuple(sorted(need)), ctx.tier)
    want = {}
    if "format" in need:
        want["format"] = _format_combos_all if ctx.tier == "thorough" else _format_combos_quick
    if "masks" in need:
        want["masks"] = set(_versions(ctx, "masks"))
    if "place" in need:
        want["place"] = set(_versions(ctx, "place"))
    res = _run_jobs(f, list(range(1, 41)), want)
    cache[key] = res
    return res


def _decoder(ctx, rid, f):
    """byte -> (label, value) through the crate's own accessors (C15.T1 checks them against each other)"""
    fty = anchor_fn(ctx, rid, f, "module::Module::module_type", ["module::Module"], MTYPE)
    fval = anchor_fn(ctx, rid, f, "module::Module::value", ["module::Module"], "bool")
    if not (fty and fval):
        return None
    F = peval.PEval(f, max_steps=100000)
    table = {}
    probe_t = F.run(fty.path, [("adt", "module::Module", 0, "Module", (("int", "u8", 0),))])
    probe_v = F.run(fval.path, [("adt", "module::Module", 0, "Module", (("int", "u8", 0),))])
    if probe_t.kind != "ret" or probe_v.kind != "ret":
        bad = probe_t if probe_t.kind != "ret" else probe_v
        ctx.abstain(rid, "the module accessors module_type()/value() do not fold (%s: %s): module bytes cannot be decoded" % (bad.kind, bad.why),
                    where_fn(fty))
        return None

    def dec(b):
        if b is None:
            return (None, None)  # a module whose byte the evaluator does not know
        if b not in table:
            m = ("adt", "module::Module", 0, "Module", (("int", "u8", b),))
            t = F.run(fty.path, [m])
            x = F.run(fval.path, [m])
            table[b] = (to_py(t.value) if t.kind == "ret" else None, to_py(x.value) if x.kind == "ret" else None)
        return table[b]
    return dec


def _rel(x, n):
    """coordinate relative to the nearer edge, so that the same slip on different versions groups together"""
    return str(x) if x < (n + 1) // 2 else "n-%d" % (n - x)


def _relp(p, n):
    return "(%s,%s)" % (_rel(p[0], n), _rel(p[1], n))


class _Groups:
    """violations of one rule grouped by a configuration-independent key: one report per distinct defect,
    listing the configurations it shows in"""

    def __init__(self):
        self.g = {}

    def add(self, key, inst, expected, found):
        e = self.g.setdefault(key, {"insts": [], "expected": expected, "found": found})
        e["insts"].append(inst)

    def emit(self, ctx, rid, prefix, where, fnpath, reason):
        for key, e in sorted(self.g.items()):
            ctx.fail(rid, "%s/%s" % (prefix, key), where, fnpath, "%s in %d configuration(s): %s%s" % (
                key, len(e["insts"]), ", ".join(e["insts"][:6]), " ..." if len(e["insts"]) > 6 else ""),
                reason, expected=e["expected"], found=e["found"])


class _Und:
    """abstentions grouped by reason: one UNDECIDED line per reason, every instance counted"""

    def __init__(self):
        self.r = {}
        self.count = 0

    def add(self, reason, inst):
        self.r.setdefault(str(reason)[:200], []).append(inst)
        self.count += 1

    def emit(self, ctx, rid, what, where):
        for why, insts in sorted(self.r.items()):
            ctx.abstain(rid, "%s not foldable for %s%s: %s" % (what, ", ".join(insts[:4]), " ..." if len(insts) > 4 else "", why), where)
            r = ctx.rules[rid]
            r["obligations"] += len(insts) - 1
            r["undecided"] += len(insts) - 1


def _cell(g, r, c):
    return g["cells"].get(r * g["size"] + c, g["default"])


# ---------------------------------------------------------------------------------------------------------------------
# C03.R3 / C15.R2: the blank symbol, every module of every version
# ---------------------------------------------------------------------------------------------------------------------

def c03_r3(ctx, f, rid="C03.R3", labels_only=False):
    ctx.rule(rid, "blank symbol by partial evaluation: every module's region label and fixed value = ISO region map, V01..V40; "
                  "nothing written outside size x size")
    fn = anchor_fn(ctx, rid, f, "default::create_matrix", [VERSION], "qr::QRCode")
    if not fn:
        return
    dec = _decoder(ctx, rid, f)
    if dec is None:
        return
    res = geometry(ctx, f, {"blank"} if ctx.tier != "thorough" else {"blank"})
    helpers = set()
    groups = _Groups()
    und = _Und()
    for job in res:
        v = job["v"]
        name = "V%02d" % v
        st = job["blank_status"]
        if st[0] != "ret":
            # not configuration-determined (branch on an unknown) or a panic on this version
            if st[0] == "diverge":
                ctx.fail(rid, "default::create_matrix/%s/diverges" % name, where_fn(fn), fn.path, name,
                         "building the blank symbol panics for this version: %s" % st[1])
            else:
                und.add(st[1], name)
            continue
        helpers |= {c for c in job["blank_calls"] if c.startswith("default::")}
        g = job["blank"]
        n = ref.side(v)
        ctx.check(rid, g["size"] == n, "default::create_matrix/%s/size" % name, where_fn(fn), fn.path, name,
                  "symbol side is not 17+4v", expected=n, found=g["size"], sample="%s: side %d" % (name, n))
        if g["size"] != n:
            continue
        # no module outside the square
        outside = sorted(i for i in g["cells"] if i >= n * n)
        ctx.check(rid, not outside, "default::create_matrix/%s/outside" % name, where_fn(fn), fn.path, name,
                  "a module outside the size x size square of the backing array is written", found=outside[:6],
                  sample="%s: %d stores, all inside the %dx%d square" % (name, len(g["cells"]), n, n))
        dd = dec(g["default"])
        ctx.check(rid, dd == ("Data", False), "default::create_matrix/%s/default" % name, where_fn(fn), fn.path, name,
                  "unwritten modules are not light data modules", expected=("Data", False), found=dd)
        rm = ref.region_map(v)
        overlap = ref.alignment_on_timing(v)
        by_region = {}
        bad = {}
        for (r, c), (reg, val) in rm.items():
            lab, got = dec(_cell(g, r, c))
            ok_label = lab == reg or ((r, c) in overlap and lab in (ref.ALIGNMENT, ref.TIMING))
            if reg == ref.DATA:
                ok_val = got is False or labels_only
            elif val is None:
                ok_val = True  # format modules: placeholder value, overwritten by the format writer (C04.R3)
            else:
                ok_val = got is val or labels_only
            by_region[reg] = by_region.get(reg, 0) + 1
            if not (ok_label and ok_val):
                bad.setdefault(reg, []).append(((r, c), (lab, got), (reg, val)))
        # where an alignment pattern sits on a timing line the coordinate belongs to both regions and either label is accepted -
        # but a label is given by region, not by colour: the overlapped cells of one pattern carry one label
        if overlap:
            cs_ = ref.ALIGN_TABLE[v - 1]
            for r0 in cs_:
                for c0 in cs_:
                    cells_ = sorted(p for p in overlap if abs(p[0] - r0) <= 2 and abs(p[1] - c0) <= 2)
                    labs_ = {p: dec(_cell(g, p[0], p[1])) for p in cells_}
                    if len({lv[0] for lv in labs_.values()}) > 1:
                        bad.setdefault(ref.ALIGNMENT, []).append((cells_[0], tuple(sorted({lv[0] for lv in labs_.values()})),
                                                                  ("one label for the cells an alignment pattern shares with a timing line", None)))
        for reg in sorted(by_region):
            b = bad.get(reg, [])
            if not b:
                ctx.ok(rid, "%s: %d %s modules labelled and valued as in the ISO region map" % (name, by_region[reg], reg))
            else:
                x = b[0]
                groups.add("%s/%s/%s" % (reg, _relp(x[0], n), "-".join(str(t) for t in x[1])), name,
                           [y[2] for y in b[:3]], [(y[0], y[1]) for y in b[:3]])
        # label counts: data modules = 8 x codewords + remainder bits
        ndata = sum(1 for r in range(n) for c in range(n) if dec(_cell(g, r, c))[0] == ref.DATA)
        ctx.check(rid, ndata == 8 * ref.total_codewords(v) + ref.remainder_bits(v), "default::create_matrix/%s/data-count" % name,
                  where_fn(fn), fn.path, name, "number of modules labelled data differs from 8 x total codewords + remainder bits",
                  expected=8 * ref.total_codewords(v) + ref.remainder_bits(v), found=ndata)
    groups.emit(ctx, rid, "default::create_matrix", where_fn(fn), fn.path,
                "module(s) of this region carry another label or value than ISO/IEC 18004 prescribes (first offending module shown)")
    for h in sorted(helpers):
        ctx.analysed(f.fn(h))
    und.emit(ctx, rid, "blank-symbol construction", where_fn(fn))
    decided = not und.count
    ctx.floor(rid, "versions evaluated", sum(1 for j in res if j["blank_status"][0] in ("ret", "diverge")) + und.count, 40)
    if not und.count:
        ctx.floor(rid, "drawing helpers reached from create_matrix", len(helpers), 1)
    return decided


# ---------------------------------------------------------------------------------------------------------------------
# C04.R3: the format-information writer
# ---------------------------------------------------------------------------------------------------------------------

def prepare(ctx, f, need):
    """compute everything a property will ask for in one pass over the 40 versions"""
    geometry(ctx, f, need)


def c04_r3(ctx, f, rid="C04.R3", only_outside=False):
    if only_outside:
        ctx.rule(rid, "the format writer (the only writer of function modules after placement) stores into format positions only, "
                      "for every version, level and mask")
    else:
        ctx.rule(rid, "format writer by partial evaluation: stores exactly the 30 ISO positions, bit k of the BCH word at both "
                      "copies, nothing else")
    fn = anchor_fn(ctx, rid, f, "default::create_matrix_format_info", ["&mut qr::QRCode", ECL, MASK], "()")
    if not fn:
        return
    dec = _decoder(ctx, rid, f)
    if dec is None:
        return
    res = geometry(ctx, f, {"blank", "format"})
    if ctx.tier != "thorough":
        ctx.subset(rid, "format writer evaluated on 168 of the 1280 (version, level, mask) cells (all in the thorough tier)")
    runs = 0
    groups = _Groups()
    und = _Und()
    for job in res:
        v = job["v"]
        name = "V%02d" % v
        if job["blank_status"][0] != "ret" or "format" not in job:
            und.add("blank symbol not available (%s)" % (job["blank_status"][1],), name)
            continue
        g = job["blank"]
        n = g["size"]
        pos = ref.format_positions(n)
        where_bit = {}
        for k, ps in pos.items():
            for p in ps:
                where_bit[p] = k
        for (l, mk), r in sorted(job["format"].items()):
            inst = "%s/%s/%s" % (name, l, mk)
            if r["status"][0] != "ret":
                if r["status"][0] == "diverge":
                    ctx.fail(rid, "default::create_matrix_format_info/%s/diverges" % inst, where_fn(fn), fn.path, inst,
                             "the format writer panics: %s" % r["status"][1])
                else:
                    und.add(r["status"][1], inst)
                continue
            runs += 1
            word = ref.format_word(l, ref.MASKS.index(mk))
            after = r["after"]
            problems = []
            # (a) every ISO position holds its bit, labelled format
            for p, k in sorted(where_bit.items()):
                lab, got = dec(after.get(p[0] * n + p[1], g["default"]))
                exp = bool((word >> k) & 1)
                if only_outside:
                    # the outside clause: whatever the writer leaves at a format position is a format-labelled (function) module
                    if lab != ref.FORMAT:
                        problems.append(("label at %s" % _relp(p, n), ref.FORMAT, lab))
                    continue
                if lab != ref.FORMAT or got is not exp:
                    problems.append(("bit %d at %s" % (k, _relp(p, n)), (ref.FORMAT, exp), (lab, got)))
            # (b) nothing else differs from the blank symbol
            for i, b in sorted(r["diff"].items()):
                p = (i // n, i % n)
                if p not in where_bit:
                    problems.append(("store outside the format positions at %s" % _relp(p, n), dec(_cell(g, p[0], p[1])), dec(b)))
            for vname in ("dark", "chequered"):
                rv = r.get(vname)
                if rv is None:
                    continue
                if rv["status"][0] == "diverge":
                    problems.append(("panics when the encoding region is %s" % vname, "no panic", rv["status"][1]))
                    continue
                if rv["status"][0] != "ret":
                    und.add("with a %s encoding region: %s" % (vname, rv["status"][1]), inst)
                    continue
                for p, k in sorted(where_bit.items()):
                    lab, got = dec(rv["after"].get(p[0] * n + p[1], g["default"]))
                    exp = bool((word >> k) & 1)
                    if only_outside:
                        if lab != ref.FORMAT:
                            problems.append(("label at %s when the encoding region is %s" % (_relp(p, n), vname), ref.FORMAT, lab))
                        continue
                    if lab != ref.FORMAT or got is not exp:
                        problems.append(("bit %d at %s when the encoding region is %s" % (k, _relp(p, n), vname), (ref.FORMAT, exp), (lab, got)))
                for i, b in sorted(rv["diff"].items()):
                    p = (i // n, i % n)
                    if p not in where_bit:
                        problems.append(("store outside the format positions at %s when the encoding region is %s" % (_relp(p, n), vname),
                                         "unchanged", dec(b)))
            if not problems:
                ctx.ok(rid, "%s: word %s at both copies, 30 positions, nothing else touched" % (inst, format(word, "015b")))
            else:
                for x in problems[:4]:
                    groups.add(x[0].replace(" ", "_"), inst, x[1], x[2])
    groups.emit(ctx, rid, "default::create_matrix_format_info", where_fn(fn), fn.path,
                "format information is not the BCH(15,5) word of (level, mask) at the ISO positions, or the writer touches another module")
    und.emit(ctx, rid, "format writer", where_fn(fn))
    decided = not und.count
    ctx.floor(rid, "(version, level, mask) cells evaluated", runs + und.count + sum(len(e["insts"]) for e in groups.g.values()),
              40 * 2 if ctx.tier != "thorough" else 1280)
    return decided


# ---------------------------------------------------------------------------------------------------------------------
# C08.R4: the mask sweeps
# ---------------------------------------------------------------------------------------------------------------------

SWEEP_CALLEES_OK = (
    "<qr::QRCode as std::ops::IndexMut<usize>>::index_mut", "<qr::QRCode as std::ops::Index<usize>>::index",
    "module::Module::module_type", "module::Module::toggle", "<module::ModuleType as std::cmp::PartialEq>::eq",
    "<module::ModuleType as std::convert::From<u8>>::from", "std::cmp::PartialEq::ne",
)


def c08_r4(ctx, f, tbl=None, rid="C08.R4"):
    ctx.rule(rid, "mask sweeps by partial evaluation: toggled set = ISO Table 10 condition on data modules, function modules "
                  "untouched, at every coordinate")
    fn = anchor_fn(ctx, rid, f, "datamasking::mask", ["&mut qr::QRCode", MASK], "()")
    if not fn:
        return
    dec = _decoder(ctx, rid, f)
    if dec is None:
        return
    discr = dict(f.enum_variants(MASK) or [])
    res = geometry(ctx, f, {"blank", "masks"})
    versions = _versions(ctx, "masks")
    if len(versions) < 40:
        ctx.subset(rid, "mask sweeps evaluated for versions %s of 40 (all 40 in the thorough tier)" % versions)
    runs = 0
    seen_callees = set()
    groups = _Groups()
    und = _Und()
    for job in res:
        v = job["v"]
        if v not in versions:
            continue
        name = "V%02d" % v
        if job["blank_status"][0] != "ret" or "masks" not in job:
            und.add("blank symbol not available (%s)" % (job["blank_status"][1],), name)
            continue
        g = job["blank"]
        n = g["size"]
        for mk, r in sorted(job["masks"].items()):
            inst = "%s/%s" % (name, mk)
            if r["status"][0] != "ret":
                if r["status"][0] == "diverge":
                    ctx.fail(rid, "datamasking::mask/%s/diverges" % inst, where_fn(fn), fn.path, inst,
                             "the sweep panics on the blank symbol: %s" % r["status"][1])
                else:
                    und.add(r["status"][1], inst)
                continue
            runs += 1
            seen_callees |= set(r["calls"])
            k = discr.get(mk)
            after = r["after"]
            wrong = []
            ndata = 0
            for rr in range(n):
                for cc in range(n):
                    i = rr * n + cc
                    b0 = g["cells"].get(i, g["default"])
                    lab0, v0 = dec(b0)
                    kind, b1, neg = after.get(i, ("sym", b0, False))
                    if kind != "sym":
                        wrong.append(((rr, cc), "module %s" % kind, lab0, str(neg)))
                        continue
                    lab1 = dec(b1)[0]
                    if lab0 != lab1:
                        wrong.append(((rr, cc), "label changed", lab0, lab1))
                    elif lab0 == ref.DATA:
                        ndata += 1
                        exp = ref.mask_cond(k, rr, cc) if k is not None else None
                        if neg is not exp:
                            wrong.append(((rr, cc), "data module", "toggled" if exp else "kept", "toggled" if neg else "kept"))
                    elif neg:
                        wrong.append(((rr, cc), "function module toggled", lab0, "toggled"))
            outside = [i for i in after if i >= n * n]
            if not wrong and not outside:
                ctx.ok(rid, "%s: pattern %s negates exactly the ISO set on %d data modules, whatever their values" % (inst, k, ndata))
            else:
                kind = wrong[0][1].replace(" ", "_") if wrong else "store_outside_the_square"
                groups.add("%s/%s" % (mk, kind), name, [(w[0], w[2]) for w in wrong[:4]],
                           [(w[0], w[1], w[3]) for w in wrong[:4]] or outside[:4])
    groups.emit(ctx, rid, "datamasking::mask", where_fn(fn), fn.path,
                "the sweep for this mask does not toggle exactly the data modules satisfying its ISO Table 10 condition, or changes a "
                "function module (first offending modules of the first configuration shown)")
    und.emit(ctx, rid, "mask sweep", where_fn(fn))
    ctx.floor(rid, "(version, mask) sweeps evaluated", runs + und.count + sum(len(e["insts"]) for e in groups.g.values()), 8 * len(versions))
    return not und.count


def _direct_module_reads(f, paths):
    out = []
    for p in paths:
        fn = f.fn(p)
        if fn is None:
            continue
        mod_locals = {l["id"] for l in fn.raw["locals"] if l["ty"] in ("module::Module", "&mut module::Module", "&module::Module")}

        def uses(place):
            return place["l"] in mod_locals and any(isinstance(e, dict) and "f" in e for e in place["proj"])
        for b in fn.blocks:
            if b["cleanup"]:
                continue
            for s in b["stmts"]:
                if s["k"] != "assign":
                    continue
                rv = s["rv"]
                for key in ("op", "a", "b"):
                    o = rv.get(key)
                    if isinstance(o, dict) and o.get("k") in ("copy", "move") and uses(o["p"]):
                        out.append("%s:%s" % (p, s.get("line")))
                if uses(s["p"]):
                    out.append("%s:%s (store)" % (p, s.get("line")))
    return out


# ---------------------------------------------------------------------------------------------------------------------
# C01.R5: codeword placement with symbolic payload bits
# ---------------------------------------------------------------------------------------------------------------------

def c01_r5(ctx, f, rid="C01.R5"):
    ctx.rule(rid, "placement by partial evaluation with symbolic codeword bits: the i-th data module of the ISO zig-zag order "
                  "holds bit i (most significant first) of the codeword sequence; nothing else is written")
    fn = anchor_fn(ctx, rid, f, "placement::place_on_matrix_data", ["&mut qr::QRCode", "&compact::CompactQR"], "()")
    if not fn:
        return
    dec = _decoder(ctx, rid, f)
    if dec is None:
        return
    res = geometry(ctx, f, {"blank", "place"})
    versions = _versions(ctx, "place")
    if len(versions) < 40:
        ctx.subset(rid, "placement evaluated for versions %s of 40 (all 40 in the thorough tier)" % versions)
    groups = _Groups()
    und = _Und()
    runs = 0
    for job in res:
        v = job["v"]
        if v not in versions:
            continue
        name = "V%02d" % v
        if job["blank_status"][0] != "ret" or "place" not in job:
            und.add("blank symbol not available (%s)" % (job["blank_status"][1],), name)
            continue
        r = job["place"]
        if r["status"][0] != "ret":
            if r["status"][0] == "diverge":
                groups.add("diverges", name, None, r["status"][1])
            else:
                und.add(r["status"][1], name)
            continue
        runs += 1
        g = job["blank"]
        n = g["size"]
        after = r["after"]
        order = ref.placement_order(v)
        pos_of = {p: i for i, p in enumerate(order)}
        wrong = []
        for rr in range(n):
            for cc in range(n):
                i = rr * n + cc
                b0 = g["cells"].get(i, g["default"])
                b1, tag = after.get(i, (b0, None)) if i in after else (b0, None)
                if (rr, cc) in pos_of:
                    k = pos_of[(rr, cc)]
                    exp = (k // 8, 7 - k % 8, False)
                    if tag != exp or dec(b1)[0] != ref.DATA:
                        wrong.append(((rr, cc), "bit %d = byte %d bit %d" % (k, exp[0], exp[1]), tag if tag is not None else dec(b1)))
                else:
                    if tag is not None or b1 != b0:
                        wrong.append(((rr, cc), dec(b0), tag if tag is not None else dec(b1)))
        outside = [i for i in after if i >= n * n]
        if not wrong and not outside:
            ctx.ok(rid, "%s: %d data modules hold bits 0..%d in ISO order, %d function modules untouched" % (
                name, len(order), len(order) - 1, n * n - len(order)))
        else:
            w = wrong[0] if wrong else None
            key = "order/%s" % _relp(w[0], n) if w else "store_outside_the_square"
            groups.add(key, name, [(x[0], x[1]) for x in wrong[:4]], [(x[0], x[2]) for x in wrong[:4]] or outside[:4])
    groups.emit(ctx, rid, "placement::place_on_matrix_data", where_fn(fn), fn.path,
                "codeword bits are not placed in the ISO zig-zag order / bit order, or a function module is written "
                "(first offending modules of the first configuration shown; tags are (byte, bit, negated))")
    und.emit(ctx, rid, "placement", where_fn(fn))
    ctx.floor(rid, "versions evaluated", runs + und.count + sum(len(e["insts"]) for e in groups.g.values()), len(versions))
    return not und.count


# ---------------------------------------------------------------------------------------------------------------------
# C02.R4: block slicing and interleaving with symbolic data codewords, all 160 (version, level) cells
# ---------------------------------------------------------------------------------------------------------------------

def _div_summary(pe, st, args, t):
    """the block division (block, generator) -> [u8; N], or (block, generator, &mut [u8; N]): opaque here (decided by C07.R3/R4: the
    remainder occupies the last len(g)-1 cells).  Cell i of the result is the symbol rembuf(block lo, block hi, i)."""
    a = peval._deref(pe, st, args[0])
    if a == TOP or a[0] != "symslice":
        raise fold._Abort("top", "division called on something other than a slice of the data codewords")
    n = _G.get("div_n", 255)
    buf = ("array", tuple(("rembuf", a[1], a[2], i) for i in range(n)))
    if len(args) == 3:
        if args[2] == TOP or args[2][0] != "ref":
            raise fold._Abort("top", "division called with an unknown output buffer")
        pe.store_ptr(st, args[2][1], buf)
        return peval.UNIT
    return buf


def _structure_job(v):
    f = _G["facts"]
    out = {"v": v, "cells": {}}
    for l in ref.LEVELS:
        pe = peval.PEval(f)
        pe.summaries[_G.get("div_path", "polynomials::division")] = _div_summary
        n = ref.data_codewords(v, l)
        r = pe.call("polynomials::structure", [("ref", ("const", ("symvec", n))), mk_enum(ECL, l), mk_enum(VERSION, "V%02d" % v)])
        if r.kind != "ret":
            out["cells"][l] = {"status": (r.kind, r.why)}
            continue
        val = r.value
        if val != TOP and val[0] == "harr":
            ln, d, cells = pe.heap.arrs[val[1]]
            seq = {i: c for i, c in cells.items()}
            out["cells"][l] = {"status": ("ret", None), "len": ln, "default": d, "seq": seq}
        elif val != TOP and val[0] == "array":
            out["cells"][l] = {"status": ("ret", None), "len": len(val[1]), "default": None, "seq": dict(enumerate(val[1]))}
        else:
            out["cells"][l] = {"status": ("top", "result is not an array")}
    return out


def c02_r4(ctx, f, rid="C02.R4"):
    ctx.rule(rid, "interleaving by partial evaluation with symbolic data codewords: output = ISO interleave of data blocks, then of "
                  "EC blocks (remainder cells 256-len(g)+j of the block's own division), zero after, for all 160 cells")
    fn = anchor_fn(ctx, rid, f, "polynomials::structure", ["&[u8]", ECL, VERSION], None) or f.fn("polynomials::structure")
    if not fn:
        return
    dv = division_routine(ctx, rid, f)
    if dv is None:
        return
    _G["facts"] = f
    _G["div_path"], _G["div_n"] = dv[0].path, dv[2]
    versions = list(range(1, 41))
    res = cache.pmap(f, "structure", _structure_job, sorted(versions, reverse=True), params=(dv[0].path, dv[1], dv[2]))
    groups = _Groups()
    und = _Und()
    runs = 0
    for job in sorted(res, key=lambda r: r["v"]):
        v = job["v"]
        for l in ref.LEVELS:
            inst = "%s/V%02d" % (l, v)
            r = job["cells"][l]
            if r["status"][0] != "ret":
                if r["status"][0] == "diverge":
                    groups.add("diverges", inst, None, r["status"][1])
                else:
                    und.add(r["status"][1], inst)
                continue
            runs += 1
            s1, l1, s2, l2 = ref.layout(v, l)
            ec = ref.ec_per_block(v, l)
            blocks = []
            lo = 0
            for _ in range(s1):
                blocks.append((lo, lo + l1))
                lo += l1
            for _ in range(s2):
                blocks.append((lo, lo + l2))
                lo += l2
            exp = []
            for i in range(max(l1, l2)):
                for (a, b) in blocks:
                    if i < b - a:
                        exp.append(("sbyte", a + i))
            for j in range(ec):
                for (a, b) in blocks:
                    exp.append(("rembuf", a, b, 255 - ec + j))
            total = ref.total_codewords(v)
            seq = r["seq"]
            dflt = r["default"]
            bad = None
            if len(exp) != total:
                bad = ("reference", "layout does not add up", len(exp), total)
            for k in range(r["len"]):
                got = seq.get(k, dflt)
                want = exp[k] if k < len(exp) else ("int", "u8", 0)
                if got != want and bad is None:
                    part = "data" if k < lo else ("ec" if k < total else "tail")
                    bad = (part, k, want, got)
            ctx.check(rid, r["len"] >= total + 1 or ref.remainder_bits(v) == 0, "polynomials::structure/buffer/%s" % inst, where_fn(fn), fn.path,
                      inst, "the codeword buffer has no zero byte after the last codeword to supply the remainder bits",
                      expected=total + 1, found=r["len"]) if ref.remainder_bits(v) else None
            if bad is None:
                ctx.ok(rid, "%s: %d data + %d EC codewords interleaved over %d blocks as in ISO 7.6, zero after" % (
                    inst, lo, total - lo, len(blocks)))
            else:
                groups.add("%s-part" % bad[0], inst, "position %s: %s" % (bad[1], _sym(bad[2], ec)), _sym(bad[3], ec))
    groups.emit(ctx, rid, "polynomials::structure", where_fn(fn), fn.path,
                "the final codeword sequence is not the ISO interleave of the data blocks followed by the interleave of each block's "
                "own EC codewords (first differing position of the first configuration shown)")
    und.emit(ctx, rid, "structure()", where_fn(fn))
    ctx.floor(rid, "(version, level) cells evaluated", runs + und.count + sum(len(e["insts"]) for e in groups.g.values()), 160)
    return not und.count


def _sym(x, ec):
    if x == TOP:
        return "unknown"
    if x[0] == "sbyte":
        return "data[%d]" % x[1]
    if x[0] == "rembuf":
        return "EC codeword %d of block data[%d..%d] (remainder cell %d)" % (x[3] - (255 - ec), x[1], x[2], x[3])
    if x[0] == "int":
        return str(x[2])
    return str(x)


# ---------------------------------------------------------------------------------------------------------------------
# C16.R3: the terminal renderer with symbolic module values, all 40 sizes
# ---------------------------------------------------------------------------------------------------------------------

GLYPH = {(True, True): 0x20, (True, False): 0x2584, (False, True): 0x2580, (False, False): 0x2588}


def _tok_conds(tok, acc):
    if isinstance(tok, tuple) and tok and tok[0] == "sel":
        acc.add(tok[1])
        for x in tok[2]:
            _tok_conds(x, acc)
        for x in tok[3]:
            _tok_conds(x, acc)


def _tok_eval(tok, env):
    if isinstance(tok, int):
        return (tok,)
    if isinstance(tok, tuple) and tok and tok[0] == "sel":
        br = tok[2] if env[tok[1]] else tok[3]
        out = ()
        for x in br:
            out += _tok_eval(x, env)
        return out
    return (("?", str(tok)[:40]),)


def _tok_canon(tok):
    conds = set()
    _tok_conds(tok, conds)
    conds = sorted(conds, key=repr)
    if len(conds) > 4:
        return ("too-many-conditions", len(conds))
    table = {}
    for bits in range(1 << len(conds)):
        env = {c: bool((bits >> i) & 1) for i, c in enumerate(conds)}
        table[tuple(env[c] for c in conds)] = _tok_eval(tok, env)
    return (tuple(conds), tuple(sorted(table.items())))


def _term_job(v):
    f = _G["facts"]
    n = ref.side(v)
    pe = peval.PEval(f)
    r = pe.call("qr::QRCode::default", [fold.mk_int("usize", n)])
    if r.kind != "ret" or r.value == TOP or r.value[0] != "adt" or r.value[4][0] == TOP or r.value[4][0][0] != "harr":
        return {"v": v, "status": (r.kind, r.why or "QRCode::default does not fold")}
    qr = r.value
    h = qr[4][0]
    ln = pe.heap.length(h)
    for rr in range(n):
        for cc in range(n):
            pe.heap.put(h, rr * n + cc, ("adt", "module::Module", 0, "Module", (("tagint", "u8", 0, (rr, cc, False)),)))
    _ = ln
    r2 = pe.run("helpers::print_matrix_with_margin", [("ref", ("const", qr))])
    if r2.kind != "ret" or r2.value == TOP or r2.value[0] != "string":
        return {"v": v, "status": (r2.kind if r2.kind != "ret" else "top", r2.why or "result is not a string")}
    return {"v": v, "status": ("ret", None), "tokens": [_tok_canon(t) for t in r2.value[1]], "calls": sorted(pe.calls_seen)}


def _term_expected(n):
    def const(cp):
        return _tok_canon(cp)

    def cell(top, bottom):
        # top / bottom: ("m", r, c) | True (dark filler) | False (light border)
        def val(x, env):
            return env[x] if isinstance(x, tuple) else x
        conds = sorted({x for x in (top, bottom) if isinstance(x, tuple)}, key=repr)
        table = {}
        for bits in range(1 << len(conds)):
            env = {c: bool((bits >> i) & 1) for i, c in enumerate(conds)}
            table[tuple(env[c] for c in conds)] = (GLYPH[(val(top, env), val(bottom, env))],)
        return (tuple(conds), tuple(sorted(table.items())))
    out = []
    # first line: dark filler above, light border row below; the border columns likewise
    out += [const(0x2584)] + [cell(True, False) for _ in range(n)] + [const(0x2584), const(10)]
    for i in range(0, n - 1, 2):
        out += [const(0x2588)] + [cell((i, c), (i + 1, c)) for c in range(n)] + [const(0x2588), const(10)]
    out += [const(0x2588)] + [cell((n - 1, c), False) for c in range(n)] + [const(0x2588)]
    return out


def c16_r3(ctx, f, rid="C16.R3"):
    ctx.rule(rid, "terminal renderer by partial evaluation with symbolic module values: (size+1)/2+1 lines of size+2 glyphs, glyph "
                  "(top,bottom) = the two modules in place, light border all around, for all 40 sizes")
    fn = anchor_fn(ctx, rid, f, "helpers::print_matrix_with_margin", ["&qr::QRCode"], "std::string::String")
    if not fn:
        return
    _G["facts"] = f
    versions = list(range(1, 41)) if ctx.tier == "thorough" else QUICK_TERM_VERSIONS
    if len(versions) < 40:
        ctx.subset(rid, "terminal renderer evaluated for versions %s of 40 (all 40 in the thorough tier)" % versions)
    res = cache.pmap(f, "terminal", _term_job, sorted(versions, reverse=True))
    groups = _Groups()
    runs = 0
    undecided = {}
    for job in sorted(res, key=lambda r: r["v"]):
        v = job["v"]
        n = ref.side(v)
        name = "V%02d" % v
        if job["status"][0] != "ret":
            if job["status"][0] == "diverge":
                groups.add("panics", name, "a string", job["status"][1])
            else:
                undecided.setdefault(job["status"][1], []).append(name)
            continue
        runs += 1
        got = job["tokens"]
        exp = _term_expected(n)
        bad = None
        if len(got) != len(exp):
            bad = ("length", "%d glyphs and newlines" % len(exp), "%d" % len(got))
        else:
            for k, (a, b) in enumerate(zip(got, exp)):
                if a != b:
                    line, col = divmod(k, n + 3)
                    bad = ("line %s column %s" % (line if line < 2 else "k", col if col < 3 else ("c" if col < n else "n-%d" % (n + 2 - col))),
                           _show_tok(b), _show_tok(a) + " at line %d column %d" % (line, col))
                    break
        if bad is None:
            ctx.ok(rid, "%s: %d lines of %d glyphs, every module in place, light border" % (name, (n + 1) // 2 + 1, n + 2))
        else:
            groups.add(bad[0].replace(" ", "_"), name, bad[1], bad[2])
    groups.emit(ctx, rid, "helpers::print_matrix_with_margin", where_fn(fn), fn.path,
                "the text rendering does not encode the matrix faithfully with a one-module light border (first differing glyph of "
                "the first size shown; conditions are (row, column) of the modules consulted)")
    for why, names in sorted(undecided.items()):
        ctx.abstain(rid, "renderer not foldable for %s: %s" % (", ".join(names[:4]) + (" ..." if len(names) > 4 else ""), why), where_fn(fn))
    if not undecided:
        ctx.floor(rid, "sizes evaluated", runs + sum(len(e["insts"]) for e in groups.g.values() if False), len(versions) - sum(
            len(e["insts"]) for k, e in groups.g.items() if k == "panics"))
    return not undecided


def _show_tok(t):
    if t[0] == "too-many-conditions":
        return str(t)
    conds, table = t
    if not conds:
        return "U+%04X" % table[0][1][0] if table[0][1] and isinstance(table[0][1][0], int) else str(table[0][1])
    return "glyph of modules %s: %s" % (list(conds), {k: ["U+%04X" % c if isinstance(c, int) else c for c in v] for k, v in table})


# ---------------------------------------------------------------------------------------------------------------------
# C05.R3: the capacity gate of QRCode::new as an outcome table
# ---------------------------------------------------------------------------------------------------------------------

MODE = "encode::Mode"
OPT = "std::option::Option"


def _opt(v):
    return ("adt", OPT, 0, "None", ()) if v is None else ("adt", OPT, 1, "Some", (v,))


def _gate_lengths(mode, level):
    """lengths around every capacity threshold of the reference (and 0, and far beyond version 40)"""
    out = {0, 1}
    for v in range(1, 41):
        c = ref.capacity(v, level, mode)
        out |= {c, c + 1}
    out |= {ref.capacity(40, level, mode) + 1000, 1 << 40}
    return sorted(x for x in out if x >= 0)


def _gate_job(arg):
    mode, level = arg
    f = _G["facts"]
    out = []
    lens = _gate_lengths(mode, level)

    def cm_summary(pe, st, args, t):
        vals = {}
        for a, ty in zip(args, ("&[u8]", ECL, MODE, VERSION, "mask")):
            vals[ty] = a
        tok = ("qrtoken", to_py(vals[VERSION]), to_py(vals[ECL]), to_py(vals[MODE]),
               vals["&[u8]"] if vals["&[u8]"] == TOP else peval._deref(pe, st, vals["&[u8]"]))
        # the symbol as a QRCode value whose matrix is the token (so that `QRCode { field, ..symbol }` can be followed)
        q = _qr_make(f, ("tok", tok), TOP) if QRC in f.adts else None
        return q if q is not None else tok

    variants = [("forced-mode", _opt(mk_enum(MODE, mode)), None), ("auto-mode", _opt(None), mode)]
    level_variants = [("forced-level", _opt(mk_enum(ECL, level)))]
    if level == "Q":
        level_variants.append(("default-level", _opt(None)))
    for n in lens:
        need = None
        for v in range(1, 41):
            if n <= ref.capacity(v, level, mode):
                need = v
                break
        for forced in [None] + list(range(1, 41)):
            if forced not in (None, 1, 40) and need is not None and abs(forced - need) > 1 and forced % 13:
                continue  # forced versions: none, the extremes, the neighbours of the needed one, and a few in between
            for mname, mval, auto in variants:
                for lname, lval in level_variants:
                    pe = peval.PEval(f, max_steps=200000)
                    pe.summaries["placement::create_matrix"] = cm_summary
                    if auto is not None:
                        pe.summaries["encode::best_encoding"] = lambda pe_, st, a, t, m=auto: mk_enum(MODE, m)
                    else:
                        # a forced mode must win over whatever detection would say: let detection say something else
                        # (only answers consistent with the property's quantifier: the input is in the forced mode's alphabet, so
                        # detection can only say something at least as compact - here: all digits)
                        other = "Numeric"
                        pe.summaries["encode::best_encoding"] = lambda pe_, st, a, t, m=other: mk_enum(MODE, m)
                    args = [("ref", ("const", ("symvec", n))), lval,
                            _opt(None if forced is None else mk_enum(VERSION, "V%02d" % forced)), mval, _opt(None)]
                    r = pe.call("qr::QRCode::new", args)
                    if need is None:
                        exp = ("Err", "EncodedData")
                    elif forced is None:
                        exp = ("Ok", "V%02d" % need)
                    elif forced >= need:
                        exp = ("Ok", "V%02d" % forced)
                    else:
                        exp = ("Err", "SpecifiedVersion")
                    got = None
                    if r.kind == "ret" and r.value != TOP and r.value[0] == "adt":
                        okv = r.value[4][0] if r.value[3] == "Ok" and r.value[4] else TOP
                        if okv != TOP and okv[0] == "adt" and okv[1] == QRC:
                            d_ = _qr_get(f, okv, "data")
                            okv = d_[1] if d_ != TOP and d_[0] == "tok" else TOP
                        if r.value[3] == "Ok" and okv != TOP and okv[0] == "qrtoken":
                            tok = okv
                            got = ("Ok", tok[1]) if (tok[2], tok[3]) == (level, mode) and tok[4] == ("symvec", n) else ("Ok-other", tok[1:4])
                        elif r.value[3] == "Err":
                            got = ("Err", to_py(r.value[4][0]))
                    elif r.kind == "diverge":
                        got = ("panic", r.why)
                    else:
                        got = ("undecided", "%s: %s" % (r.kind, r.why))
                    if got is None:
                        got = ("undecided", "QRCode::new returns a value the rule cannot read (not the summarised symbol, not an error)")
                    if got != exp:
                        out.append(((mode, level, n, forced, mname, lname), exp, got))
                    else:
                        out.append(None)
    return (mode, level, out)


def c05_r3(ctx, f, rid="C05.R3"):
    ctx.rule(rid, "QRCode::new outcome table by partial evaluation: smallest sufficient version / forced version if large enough / "
                  "'specified version too small' / 'data too big', around every capacity threshold, forced and automatic mode, "
                  "given and default level; the payload is symbolic")
    fn = anchor_fn(ctx, rid, f, "qr::QRCode::new")
    if not fn:
        return None
    if f.fn("placement::create_matrix") is None or f.fn("version::Version::get") is None:
        ctx.anchor_missing(rid, "placement::create_matrix / version::Version::get")
        return None
    _G["facts"] = f
    jobs = [(m, l) for m in ref.MODES for l in ref.LEVELS]
    ctx.subset(rid, "outcome table at the lengths around every capacity threshold and a subset of forced versions (the thresholds "
                    "themselves are decided for all lengths by C05.T1)")
    res = cache.pmap(f, "gate", _gate_job, jobs, procs=12)
    groups = _Groups()
    undecided = {}
    n_ok = 0
    for mode, level, out in res:
        for item in out:
            if item is None:
                n_ok += 1
                continue
            (m, l, n, forced, mname, lname), exp, got = item
            inst = "%s/%s len=%d forced=%s %s %s" % (m, l, n, "none" if forced is None else "V%02d" % forced, mname, lname)
            if got[0] == "undecided":
                undecided.setdefault(got[1][:160], []).append(inst)
            else:
                groups.add("%s->%s" % ("-".join(str(x) for x in exp) if exp[0] == "Err" else "Ok", got[0] if got[0] != "Err" else "Err-" + str(got[1])),
                           inst, list(exp), list(got))
    if n_ok:
        ctx.ok(rid, "%d (mode, level, length, forced version, mode/level given or defaulted) cells give the documented outcome" % n_ok, n=n_ok)
    groups.emit(ctx, rid, "qr::QRCode::new", where_fn(fn), fn.path,
                "building does not choose the smallest sufficient version / honour a large-enough forced version / return the documented "
                "error (first configuration shown)")
    for why, insts in sorted(undecided.items()):
        ctx.abstain(rid, "QRCode::new not foldable (%s), e.g. %s" % (why, insts[0]), where_fn(fn))
    return not undecided


# ---------------------------------------------------------------------------------------------------------------------
# C18.R2 / R3: the embedded-image frame, numerically, from SvgBuilder::image
# ---------------------------------------------------------------------------------------------------------------------

SVGB = "convert::svg::SvgBuilder"
SHAPE = "convert::ImageBackgroundShape"


def _fopt(x):
    return _opt(None if x is None else ("float", float(x)))


def _image_eval(pe, f, n, margin, shape, size=None, gap=None, pos=None):
    adt = f.adts[SVGB]
    col = ("adt", "convert::Color", 0, "Color", (("string", tuple(ord(c) for c in "#abcdef")),))
    vals = {
        "commands": TOP, "command_colors": TOP, "margin": fold.mk_int("usize", margin), "background_color": col, "dot_color": col,
        "image": _opt(("string", (("disp", "IMG"),))), "image_background_color": col,
        "image_background_shape": mk_enum(SHAPE, shape), "image_size": _fopt(size), "image_gap": _fopt(gap),
        "image_position": _opt(None if pos is None else ("tuple", (("float", float(pos[0])), ("float", float(pos[1]))))),
    }
    names = [fl["name"] for fl in adt["variants"][0]["fields"]]
    if set(names) - set(vals):
        return ("top", "SvgBuilder has fields the rule does not know: %s" % sorted(set(names) - set(vals)))
    selfv = ("adt", SVGB, 0, "SvgBuilder", tuple(vals[nm] for nm in names))
    r = pe.run(SVGB + "::image", [("ref", ("const", selfv)), fold.mk_int("usize", n)])
    if r.kind != "ret":
        return (r.kind, r.why)
    v = r.value
    if v == TOP or v[0] != "string":
        return ("top", "image() does not return a known string")
    # text with numbered holes
    txt = ""
    holes = []
    for tok in v[1]:
        if isinstance(tok, int):
            txt += chr(tok)
        else:
            txt += "\x00%d\x00" % len(holes)
            holes.append(tok)
    import re

    def num(attr, el):
        m = re.search(r"<%s\b[^>]*?\b%s=\"\x00(\d+)\x00(px)?\"" % (el, attr), txt)
        if not m:
            return None
        h = holes[int(m.group(1))]
        val = h[1] if h[0] == "disp" else None
        return val[1] if val not in (None, TOP) and val[0] == "float" else None
    out = {}
    for el in ("rect", "image"):
        for attr in ("x", "y", "width", "height"):
            out[(el, attr)] = num(attr, el)
    out["n_rect"] = len(re.findall(r"<rect\b", txt))
    out["n_image"] = len(re.findall(r"<image\b", txt))
    return ("ret", out)


def _frame_job(v):
    f = _G["facts"]
    n = ref.side(v)
    out = {"v": v, "default": {}, "over": {}}
    pe = peval.PEval(f, max_steps=400000)
    pe.summaries["convert::svg::escape_attribute"] = lambda pe_, st, a, t: ("string", (("disp", "ESCAPED"),))
    for shape in ("Square", "Circle", "RoundedSquare"):
        for m in range(0, 17):
            out["default"][(shape, m)] = _image_eval(pe, f, n, m, shape)
    if v in _G["frame_over_versions"]:
        for shape in ("Square", "Circle"):
            for m in (0, 1, 4):
                for size in (None, 3.0, 4.5, 8.25, 10.0):
                    for gap in (None, 0.0, 1.0, 2.5, 0.3):
                        for pos in (None, (n / 2.0 + m, n / 2.0 + m), (10.25 + m, 7.5 + m), (float(m + 12), float(m + 9))):
                            if size is None and gap is None and pos is None:
                                continue
                            out["over"][(shape, m, size, gap, pos)] = _image_eval(pe, f, n, m, shape, size, gap, pos)
    # degenerate option values: the renderer must still return (whatever it draws); only a panic is judged here
    out["extreme"] = {}
    if v in (1, 40):
        nan, inf = float("nan"), float("inf")
        big = float(n + 40)
        for m in (0, 4):
            for size, gap, pos in ((nan, None, None), (inf, None, None), (big, None, None), (float(n + 2 * m), None, None), (0.0, None, None),
                                   (-3.0, None, None), (None, nan, None), (None, -1.0, None), (None, big, None), (5.0, inf, None),
                                   (None, None, (nan, nan)), (None, None, (-5.0, big)), (big, big, (big, big)), (1e-9, 1e-9, None)):
                out["extreme"][("Square" if m else "Circle", m, size, gap, pos)] = _image_eval(pe, f, n, m, "Square" if m else "Circle", size, gap, pos)
    return out


def c18_r2(ctx, f, rid="C18.R2"):
    ctx.rule(rid, "image frame by partial evaluation of SvgBuilder::image: default placement for 40 versions x 3 shapes x margins 0..16 "
                  "(centred, on module boundaries, side non-decreasing, < 40%, clear of finders, image centred inside and not larger); "
                  "explicit size/gap/position honoured on a lattice of overrides")
    fn = anchor_fn(ctx, rid, f, SVGB + "::image")
    if not fn:
        return
    if SVGB not in f.adts:
        ctx.anchor_missing(rid, SVGB)
        return
    _G["facts"] = f
    _G["frame_over_versions"] = {1, 2, 7, 20, 40} if ctx.tier != "thorough" else set(range(1, 41))
    ctx.subset(rid, "default placement enumerated completely (40 x 3 x 17); real-valued size/gap/position overrides on a lattice only")
    res = cache.pmap(f, "frame", _frame_job, list(range(40, 0, -1)), params=sorted(_G["frame_over_versions"]))
    res.sort(key=lambda r: r["v"])
    groups = _Groups()
    und = _Und()
    n_ok = 0
    eps = 1e-9
    sides = {}

    def geom(o):
        return [o[("rect", a)] for a in ("x", "y", "width", "height")] + [o[("image", a)] for a in ("x", "y", "width", "height")]

    for job in res:
        v = job["v"]
        n = ref.side(v)
        for (shape, m), (kind, o) in sorted(job["default"].items()):
            inst = "V%02d/%s/margin=%d" % (v, shape, m)
            if kind != "ret":
                (groups.add("panics", inst, "markup", o) if kind == "diverge" else und.add(o, inst))
                continue
            g = geom(o)
            if o["n_rect"] != 1 or o["n_image"] != 1 or any(x is None for x in g):
                und.add("frame/image element attributes not found as numbers in the markup", inst)
                continue
            x, y, w, h, ix, iy, iw, ih = g
            S = n + 2 * m
            bad = []
            if abs(w - h) > eps or abs(iw - ih) > eps:
                bad.append(("not-square", "w=h", (w, h, iw, ih)))
            if abs(x + w / 2 - S / 2) > eps or abs(y + h / 2 - S / 2) > eps:
                bad.append(("not-centred", "centre (%s,%s)" % (S / 2, S / 2), (x + w / 2, y + h / 2)))
            if abs(x - round(x)) > eps or abs(y - round(y)) > eps or abs(w - round(w)) > eps:
                bad.append(("off-module-boundaries", "integer x, y, side", (x, y, w)))
            if not w < 0.4 * n:
                bad.append(("too-large", "< %.1f" % (0.4 * n), w))
            if x - m < 8 - eps or (x - m) + w > n - 8 + eps:
                bad.append(("overlaps-finder-zone", "inside [8, %d]" % (n - 8), (x - m, x - m + w)))
            if abs(ix + iw / 2 - (x + w / 2)) > 0.005 + eps or abs(iy + ih / 2 - (y + h / 2)) > 0.005 + eps:
                bad.append(("image-not-centred-in-frame", (x + w / 2, y + h / 2), (ix + iw / 2, iy + ih / 2)))
            if iw > w + eps or iw <= 0:
                bad.append(("image-larger-than-frame", "0 < image <= %s" % w, iw))
            sides[(shape, m, v)] = w
            if v > 1 and (shape, m, v - 1) in sides and w < sides[(shape, m, v - 1)] - eps:
                bad.append(("side-shrinks-with-version", ">= %s" % sides[(shape, m, v - 1)], w))
            if bad:
                for b in bad[:2]:
                    groups.add("default/" + b[0], inst, b[1], b[2])
            else:
                n_ok += 1
        for key, (kind, o) in sorted(job["over"].items(), key=lambda kv: str(kv[0])):
            shape, m, size, gap, pos = key
            inst = "V%02d/%s/margin=%d/size=%s/gap=%s/pos=%s" % (v, shape, m, size, gap, pos)
            if kind != "ret":
                (groups.add("panics", inst, "markup", o) if kind == "diverge" else und.add(o, inst))
                continue
            g = geom(o)
            if any(x is None for x in g):
                und.add("frame/image element attributes not found as numbers in the markup", inst)
                continue
            x, y, w, h, ix, iy, iw, ih = g
            bad = []
            if size is not None and abs(iw - size) > eps:
                bad.append(("size-not-honoured", size, iw))
            if gap is not None:
                want = iw + 2 * gap
                if not (abs(w - want) <= eps or (pos is None and abs(w - (want - 1)) <= eps) or (pos is not None and abs(w - (want - 1)) <= eps)):
                    bad.append(("gap-not-honoured", "%s (or one less after alignment)" % want, w))
            if pos is not None and (abs(x + w / 2 - pos[0]) > eps or abs(y + h / 2 - pos[1]) > eps):
                bad.append(("not-centred-on-position", pos, (x + w / 2, y + h / 2)))
            if pos is None:
                # no position requested: the default placement applies, the frame is centred on the symbol
                tot = (ref.side(v) + 2 * m) / 2.0
                if abs(x + w / 2 - tot) > eps or abs(y + h / 2 - tot) > eps:
                    bad.append(("not-centred-on-symbol", (tot, tot), (x + w / 2, y + h / 2)))
            if abs(ix + iw / 2 - (x + w / 2)) > 0.005 + eps or abs(iy + ih / 2 - (y + h / 2)) > 0.005 + eps:
                bad.append(("image-not-centred-in-frame", (x + w / 2, y + h / 2), (ix + iw / 2, iy + ih / 2)))
            if abs(w - h) > eps or abs(iw - ih) > eps:
                bad.append(("not-square", "w=h", (w, h, iw, ih)))
            if bad:
                for b in bad[:2]:
                    groups.add("override/" + b[0], inst, b[1], b[2])
            else:
                n_ok += 1
        for key, (kind, o) in sorted(job.get("extreme", {}).items(), key=lambda kv: str(kv[0])):
            shape, m, size, gap, pos = key
            inst = "V%02d/%s/margin=%d/size=%s/gap=%s/pos=%s" % (v, shape, m, size, gap, pos)
            if kind == "diverge":
                groups.add("panics-on-degenerate-option-values", inst, "markup (any)", o)
            elif kind == "ret":
                n_ok += 1
            # anything else: the evaluator cannot follow this value (no verdict, not counted)
    if n_ok:
        ctx.ok(rid, "%d (version, shape, margin[, overrides]) placements satisfy every clause" % n_ok, n=n_ok)
    groups.emit(ctx, rid, SVGB + "::image", where_fn(fn), fn.path,
                "the image frame / image placement computed by SvgBuilder::image violates a clause of the documented placement "
                "(first configuration shown)")
    und.emit(ctx, rid, "SvgBuilder::image", where_fn(fn))
    ctx.floor(rid, "placements evaluated", n_ok + und.count + sum(len(e["insts"]) for e in groups.g.values()), 2040)
    return not und.count


# ---------------------------------------------------------------------------------------------------------------------
# C06.R3: push_bits / push_u8 are exact bit appenders;  C06.R2: the segment encoders emit the ISO 7.4 bit stream
# ---------------------------------------------------------------------------------------------------------------------

CQ = "compact::CompactQR"


def _u8(x):
    return fold.mk_int("u8", x)


def _bits_of_cell(c):
    """abstract byte -> list of 8 bit descriptors (index 0 = least significant)"""
    if c == TOP:
        return [None] * 8
    if c[0] == "int":
        return [(c[2] >> k) & 1 for k in range(8)]
    if c[0] == "bv":
        return list(c[2][:8])
    if c[0] == "sbyte":
        return [("b", ("sbyte", c[1]), k) for k in range(8)]
    return [None] * 8


def _key_canon(key):
    if isinstance(key, tuple) and key and key[0] == "lin":
        return ("lin", key[2], tuple(sorted(key[3], key=repr)))
    return ("atom", key)


def _bit_canon(b):
    if b in (0, 1) or b is None:
        return b
    return ("b", _key_canon(b[1]), b[2])


def c06_r3(ctx, f, rid="C06.R3"):
    ctx.rule(rid, "push_bits / push_u8 by partial evaluation on symbolic words: append exactly the low `len` bits, most significant "
                  "first, after the bits already present, for every alignment and width")
    fpb = anchor_fn(ctx, rid, f, CQ + "::push_bits", ["&mut " + CQ, "usize", "usize"], "()")
    fp8 = anchor_fn(ctx, rid, f, CQ + "::push_u8", ["&mut " + CQ, "u8"], "()")
    if not (fpb and fp8):
        return None
    groups = _Groups()
    und = _Und()
    n_ok = 0

    def prev(L, nbytes):
        out = []
        for i in range(nbytes):
            bits = tuple(("b", ("prev",), i * 8 + (7 - k)) if i * 8 + (7 - k) < L else 0 for k in range(8))
            out.append(("bv", "u8", bits) if any(b != 0 for b in bits) else _u8(0))
        return out

    def evaluate(path, L, w, val):
        pe = peval.PEval(f, max_steps=200000)
        pe.arith = True
        nbytes = (L + w) // 8 + 2
        h = pe.heap.new(nbytes, _u8(0))
        for i, b in enumerate(prev(L, nbytes)):
            pe.heap.put(h, i, b)
        cq = ("adt", CQ, 0, "CompactQR", (fold.mk_int("usize", L), h))
        args = [("cell", 0), val] + ([fold.mk_int("usize", w)] if path.endswith("push_bits") else [])
        r = pe.run(path, args, cells=[cq])
        if r.kind != "ret":
            return r.kind, r.why
        out = r.cells[0]
        if out == TOP or out[0] != "adt" or out[4][1] == TOP or out[4][1][0] != "harr":
            return "top", "CompactQR lost its shape"
        cells = [pe.heap.get(out[4][1], i) for i in range(pe.heap.length(out[4][1]))]
        problems = []
        if out[4][0] != fold.mk_int("usize", L + w):
            problems.append(("len", L + w, to_py(out[4][0])))
        for i, c in enumerate(cells):
            bits = _bits_of_cell(c)
            for k in range(8):
                pos = i * 8 + (7 - k)
                exp = ("b", ("prev",), pos) if pos < L else (("b", ("arg",), w - 1 - (pos - L)) if pos < L + w else 0)
                if bits[k] != exp:
                    problems.append(("stream bit %d" % pos, exp, bits[k]))
        return "ret", problems

    for L in range(0, 20):
        for w in range(0, 21):
            val = ("bv", "usize", tuple(("b", ("arg",), k) for k in range(64)))
            kind, res = evaluate(fpb.path, L, w, val)
            inst = "push_bits len%%8=%d (len=%d) width=%d" % (L % 8, L, w)
            if kind == "diverge":
                groups.add("push_bits/panics", inst, "appended", res)
            elif kind != "ret":
                und.add(res, inst)
            elif res:
                groups.add("push_bits/%s" % res[0][0].split()[0], inst, res[0][1], res[0][2])
            else:
                n_ok += 1
        val = ("bv", "u8", tuple(("b", ("arg",), k) for k in range(8)))
        kind, res = evaluate(fp8.path, L, 8, val)
        inst = "push_u8 len%%8=%d (len=%d)" % (L % 8, L)
        if kind == "diverge":
            groups.add("push_u8/panics", inst, "appended", res)
        elif kind != "ret":
            und.add(res, inst)
        elif res:
            groups.add("push_u8/%s" % res[0][0].split()[0], inst, res[0][1], res[0][2])
        else:
            n_ok += 1
    if n_ok:
        ctx.ok(rid, "%d (alignment, width) cells: exactly the low `width` bits appended MSB-first, earlier bits kept, length advanced" % n_ok, n=n_ok)
    groups.emit(ctx, rid, CQ, where_fn(fpb), fpb.path, "the bit appender does not append exactly the requested bits in order "
                "(first configuration shown; `arg` bit k is bit k of the pushed value, `prev` the bits already stored)")
    und.emit(ctx, rid, "bit appender", where_fn(fpb))
    ctx.floor(rid, "(alignment, width) cells", n_ok + und.count + sum(len(e["insts"]) for e in groups.g.values()), 440)
    return not und.count


MODE_IND = {"Numeric": 0b0001, "Alphanumeric": 0b0010, "Byte": 0b0100}


def _expected_stream(mode, v, l, n):
    """ISO/IEC 18004 7.4: list of bit descriptors (0 | 1 | ('b', canon key, k)) of the data codewords"""
    bits = []

    def const(val, w):
        for k in range(w - 1, -1, -1):
            bits.append((val >> k) & 1)

    def expr(c0, terms, w, maxv):
        terms = tuple(sorted(((a, c) for a, c in terms if c), key=repr))
        if c0 == 0 and len(terms) == 1 and terms[0][1] == 1:
            key = ("atom", terms[0][0])
        else:
            key = ("lin", c0, terms)
        width = max(1, maxv.bit_length())
        for k in range(w - 1, -1, -1):
            bits.append(("b", key, k) if k < width else 0)

    const(MODE_IND[mode], 4)
    const(n, ref.cci_bits(v, mode))
    if mode == "Numeric":
        i = 0
        while i + 3 <= n:
            expr(-48 * 111, [(("sbyte", i), 100), (("sbyte", i + 1), 10), (("sbyte", i + 2), 1)], 10, 999)
            i += 3
        if n - i == 2:
            expr(-48 * 11, [(("sbyte", i), 10), (("sbyte", i + 1), 1)], 7, 99)
        elif n - i == 1:
            expr(-48, [(("sbyte", i), 1)], 4, 9)
    elif mode == "Alphanumeric":
        i = 0
        while i + 2 <= n:
            expr(0, [(("alnum", i), 45), (("alnum", i + 1), 1)], 11, 44 * 45 + 44)
            i += 2
        if n - i == 1:
            expr(0, [(("alnum", i), 1)], 6, 44)
    else:
        for i in range(n):
            expr(0, [(("sbyte", i), 1)], 8, 255)
    cap = 8 * ref.data_codewords(v, l)
    if len(bits) > cap:
        return None  # over capacity: not a configuration the gate admits
    bits += [0] * min(4, cap - len(bits))
    bits += [0] * ((8 - len(bits) % 8) % 8)
    k = 0
    while len(bits) < cap:
        const(0xEC if k % 2 == 0 else 0x11, 8)
        k += 1
    return bits


def _encode_job(cfg):
    mode, v, l, n = cfg
    f = _G["facts"]
    pe = peval.PEval(f, max_steps=20_000_000)
    pe.arith = True
    if mode == "Numeric":
        pe.atom_ranges = {"sbyte": (48, 57)}
        pe.summaries["core::num::<impl u8>::is_ascii_digit"] = lambda pe_, st, a, t: fold.mk_bool(True)
    elif mode == "Alphanumeric":
        pe.atom_ranges = {"sbyte": (0, 255), "alnum": (0, 44)}

        def a2a(pe_, st, a, t):
            c = a[0]
            if c != TOP and c[0] == "sbyte":
                return ("lin", "usize", 0, ((("alnum", c[1]), 1),))
            raise fold._Abort("top", "ascii_to_alphanumeric called on something other than a payload byte")
        pe.summaries["encode::ascii_to_alphanumeric"] = a2a
    else:
        pe.atom_ranges = {"sbyte": (0, 255)}
    r = pe.call("encode::encode", [("ref", ("const", ("symvec", n))), mk_enum(ECL, l), mk_enum(MODE, mode), mk_enum(VERSION, "V%02d" % v)])
    if r.kind == "top":
        # control flow that depends on payload values (e.g. a width chosen from a group's value): the symbolic evaluation stops;
        # fall back to concrete payloads that exhaust the values of the last group and vary the first
        c = _encode_concrete(cfg)
        return (cfg, r.kind, r.why) if c is None else c
    if r.kind != "ret":
        return cfg, r.kind, r.why
    cq = r.value
    if cq == TOP or cq[0] != "adt" or len(cq[4]) < 2 or cq[4][1] == TOP or cq[4][1][0] != "harr":
        return cfg, "top", "encode() does not return a CompactQR with a known vector"
    h = cq[4][1]
    nb = ref.data_codewords(v, l)
    if pe.heap.length(h) < nb:
        return cfg, "ret", [("length", nb, pe.heap.length(h))]
    exp = _expected_stream(mode, v, l, n)
    problems = []
    for i in range(nb):
        got = [_bit_canon(b) for b in _bits_of_cell(pe.heap.get(h, i))]
        for k in range(8):
            pos = i * 8 + (7 - k)
            if got[k] != exp[pos]:
                problems.append(("bit %d (codeword %d)" % (pos, i), exp[pos], got[k]))
                if len(problems) >= 3:
                    return cfg, "ret", problems
    return cfg, "ret", problems


def _concrete_payloads(mode, n):
    """payloads of length n in the mode's alphabet: extremes, a ramp, every value of the last group, a spread of first groups"""
    if mode == "Numeric":
        alpha, grp = [ord(c) for c in "0123456789"], 3
    elif mode == "Alphanumeric":
        alpha, grp = [ord(c) for c in ref.ALNUM], 2
    else:
        alpha, grp = list(range(256)), 1
    if n == 0:
        return [[]]
    ramp = [alpha[(3 * i + 1) % len(alpha)] for i in range(n)]
    out = [[alpha[0]] * n, [alpha[-1]] * n, ramp]
    tail = n % grp or grp
    tail = min(tail, n)
    import itertools
    limit = 120 if n <= 64 else 12
    combos = list(itertools.product(alpha, repeat=tail))
    step = max(1, len(combos) // limit)
    for cmb in combos[::step]:
        out.append(ramp[:n - tail] + list(cmb))
    for a in alpha[::max(1, len(alpha) // 10)]:
        out.append([a] + ramp[1:])
    seen, uniq = set(), []
    for p_ in out:
        if tuple(p_) not in seen:
            seen.add(tuple(p_))
            uniq.append(p_)
    return uniq


def _encode_concrete(cfg):
    mode, v, l, n = cfg
    f = _G["facts"]
    exp = _expected_stream(mode, v, l, n)
    if exp is None:
        return None
    nb = ref.data_codewords(v, l)

    def value(key, payload):
        def atom(a):
            b = payload[a[1]]
            return b if a[0] == "sbyte" else ref.ALNUM.index(chr(b))
        if key[0] == "atom":
            return atom(key[1])
        return key[1] + sum(c * atom(a) for a, c in key[2])
    n_done = 0
    for payload in _concrete_payloads(mode, n):
        pe = peval.PEval(f, max_steps=20_000_000)
        arr = ("array", tuple(fold.mk_int("u8", b) for b in payload))
        r = pe.call("encode::encode", [("ref", ("const", arr)), mk_enum(ECL, l), mk_enum(MODE, mode), mk_enum(VERSION, "V%02d" % v)])
        shown = bytes(payload[-6:]).decode("latin-1")
        if r.kind == "diverge":
            return cfg, "diverge", "%s (payload ending %r)" % (r.why, shown)
        if r.kind != "ret":
            return None
        cq = r.value
        if cq == TOP or cq[0] != "adt" or len(cq[4]) < 2 or cq[4][1] == TOP or cq[4][1][0] != "harr":
            return None
        h = cq[4][1]
        if pe.heap.length(h) < nb:
            return cfg, "ret", [("length", nb, pe.heap.length(h))]
        for i in range(nb):
            cell = pe.heap.get(h, i)
            if cell == TOP or cell[0] != "int":
                return None
            for k in range(8):
                pos = i * 8 + (7 - k)
                e = exp[pos]
                want = e if e in (0, 1) else (value(e[1], payload) >> e[2]) & 1
                if (cell[2] >> k) & 1 != want:
                    return cfg, "ret", [("bit %d (codeword %d) for a payload ending %r" % (pos, i, shown), e, (cell[2] >> k) & 1)]
        n_done += 1
    return cfg, "ret", []


def _encode_configs(tier):
    cfgs = []
    small = list(range(0, 8))
    # every payload length from empty to capacity on small symbols (every residue of the length and of the free space after the
    # payload, modulo anything up to the symbol's capacity)
    every = [(v, l) for v in (1, 2, 3) for l in ref.LEVELS] + [(5, "L")]
    if tier == "thorough":
        every = [(v, l) for v in range(1, 9) for l in ref.LEVELS]
    for mode in ref.MODES:
        for v, l in every:
            for n in range(ref.capacity(v, l, mode) + 1):
                cfgs.append((mode, v, l, n))
    if tier == "thorough":
        vs = list(range(1, 41))
        for mode in ref.MODES:
            for v in vs:
                for l in ref.LEVELS:
                    cap = ref.capacity(v, l, mode)
                    for n in sorted(set(small + [cap - 1, cap])):
                        if 0 <= n <= cap:
                            cfgs.append((mode, v, l, n))
    else:
        for mode in ref.MODES:
            for i, v in enumerate((1, 2, 9, 10, 26, 27)):
                l = ref.LEVELS[i % 4]
                for n in small:
                    if n <= ref.capacity(v, l, mode):
                        cfgs.append((mode, v, l, n))
            for v in (1, 2, 3):
                for l in ref.LEVELS:
                    cap = ref.capacity(v, l, mode)
                    for n in (cap - 2, cap - 1, cap):
                        if n >= 0:
                            cfgs.append((mode, v, l, n))
            # long payloads: lengths around every power of two from 2^8 to 2^12 (narrowed counters, casts, shifted widths) in the
            # smallest version that holds them, the full capacity of the largest symbol at every level, and the capacity on both
            # sides of the two count-width class boundaries
            for p in (8, 9, 10, 11, 12):
                for n in ((1 << p) - 1, 1 << p, (1 << p) + 1):
                    v = next((v for v in range(1, 41) if ref.capacity(v, "L", mode) >= n), None)
                    if v is not None:
                        cfgs.append((mode, v, "L", n))
            for l in ref.LEVELS:
                cfgs.append((mode, 40, l, ref.capacity(40, l, mode)))
                # the largest symbols nearly empty and half full: the whole pad run, up to the last data codeword
                for v_ in (40, 39):
                    for n in (0, 1, ref.capacity(v_, l, mode) // 2):
                        cfgs.append((mode, v_, l, n))
            for v in (9, 10, 26, 27):
                cfgs.append((mode, v, "M", ref.capacity(v, "M", mode)))
    return sorted(set(cfgs))


def c06_r2(ctx, f, rid="C06.R2"):
    ctx.rule(rid, "segment encoders by partial evaluation with symbolic payload bytes: the data codewords are the ISO 7.4 bit stream "
                  "(mode indicator, count, digit triples/pairs/bytes as value expressions, terminator, bit padding, pad codewords); "
                  "where control flow depends on payload values the evaluation falls back to concrete payloads that exhaust the last "
                  "group's values")
    fn = anchor_fn(ctx, rid, f, "encode::encode", ["&[u8]", ECL, MODE, VERSION], CQ)
    if not fn:
        return None
    _G["facts"] = f
    cfgs = _encode_configs(ctx.tier)
    ctx.subset(rid, "encoders evaluated on %d (mode, version, level, length) cells: every length 0..capacity on small symbols (quick: V01-V03 "
                    "at every level and V05-L; thorough: V01-V08), lengths around 2^8..2^12, the capacity of every level of V40 and of "
                    "the count-width class boundaries - the lengths of larger symbols are not enumerated" % len(cfgs))
    # longest first
    order = sorted(cfgs, key=lambda c: -(ref.total_codewords(c[1]) + c[3]))
    res = cache.pmap(f, "encode", _encode_job, order, chunksize=8)
    groups = _Groups()
    und = _Und()
    n_ok = 0
    for cfg, kind, out in sorted(res):
        inst = "%s/V%02d/%s/len=%d" % cfg
        if kind == "diverge":
            groups.add("panics", inst, "a bit stream", out)
        elif kind != "ret":
            und.add(out, inst)
        elif out:
            p0 = out[0]
            what = "length" if p0[0] == "length" else ("header" if int(p0[0].split()[1]) < 4 + ref.cci_bits(cfg[1], cfg[0]) else "payload-or-padding")
            groups.add("%s/%s" % (cfg[0], what), inst, "%s: %s" % (p0[0], _show_bit(p0[1])), _show_bit(p0[2]))
        else:
            n_ok += 1
    if n_ok:
        ctx.ok(rid, "%d (mode, version, level, length) cells: data codewords equal the ISO 7.4 stream bit for bit" % n_ok, n=n_ok)
    groups.emit(ctx, rid, "encode::encode", where_fn(fn), fn.path,
                "the data codewords are not the ISO/IEC 18004 7.4 encoding of the input (first differing bit of the first configuration "
                "shown; a bit is 0, 1 or bit k of a value expression over payload bytes)")
    und.emit(ctx, rid, "encode()", where_fn(fn))
    ctx.floor(rid, "(mode, version, level, length) cells", n_ok + und.count + sum(len(e["insts"]) for e in groups.g.values()), len(cfgs))
    return not und.count


def _show_bit(b):
    if b in (0, 1, None):
        return str(b)
    key = b[1]
    if key[0] == "atom":
        e = "%s[%d]" % ("byte" if key[1][0] == "sbyte" else "alnum_value", key[1][1])
    else:
        e = " + ".join(["%d" % key[1]] + ["%d*%s[%d]" % (c, "byte" if a[0] == "sbyte" else "alnum_value", a[1]) for a, c in key[2]])
    return "bit %d of (%s)" % (b[2], e)


# ---------------------------------------------------------------------------------------------------------------------
# C09.R3: automatic mode selection over all class patterns of short inputs
# ---------------------------------------------------------------------------------------------------------------------

def _scan_job(n):
    import itertools
    f = _G["facts"]
    out = []
    for pat in itertools.product("dao", repeat=n):  # d = digit, a = alphanumeric but not digit, o = other
        pe = peval.PEval(f, max_steps=100000)

        def cls(pe_, st, a, t, want, pat=pat):
            c = peval._deref(pe_, st, a[0])
            if c == TOP or c[0] != "sbyte":
                raise fold._Abort("top", "classifier called on something other than a payload byte")
            return fold.mk_bool(pat[c[1]] in want)
        pe.summaries["core::num::<impl u8>::is_ascii_digit"] = lambda pe_, st, a, t: cls(pe_, st, a, t, "d")
        pe.summaries["encode::is_qr_alphanumeric"] = lambda pe_, st, a, t: cls(pe_, st, a, t, "da")
        r = pe.call("encode::best_encoding", [("ref", ("const", ("symvec", n)))])
        exp = "Numeric" if all(c == "d" for c in pat) else ("Alphanumeric" if all(c in "da" for c in pat) else "Byte")
        got = to_py(r.value) if r.kind == "ret" else "%s: %s" % (r.kind, r.why)
        if got != exp:
            out.append(("".join(pat), exp, got, r.kind))
    return n, 3 ** n, out


def c09_r3(ctx, f, rid="C09.R3"):
    ctx.rule(rid, "best_encoding by partial evaluation over every class pattern (digit / alphanumeric-only / other) of inputs up to "
                  "length 8: Numeric iff all digits (incl. empty), Alphanumeric iff all in the set and not all digits, else Byte")
    fn = anchor_fn(ctx, rid, f, "encode::best_encoding", ["&[u8]"], MODE)
    if not fn:
        return None
    if f.fn("encode::is_qr_alphanumeric") is None:
        ctx.abstain(rid, "classifier encode::is_qr_alphanumeric not found (renamed or inlined): class patterns cannot be driven", where_fn(fn))
        return None
    _G["facts"] = f
    maxn = 8 if ctx.tier == "thorough" else 7
    ctx.subset(rid, "class patterns enumerated completely up to length %d; longer inputs are not enumerated" % maxn)
    res = cache.pmap(f, "scan", _scan_job, list(range(maxn, -1, -1)), procs=maxn + 1)
    groups = _Groups()
    und = _Und()
    n_ok = 0
    for n, total, bad in sorted(res):
        n_ok += total - len(bad)
        for pat, exp, got, kind in bad:
            if kind in ("top", "loop"):
                und.add(got, "pattern '%s'" % pat)
            else:
                groups.add("%s->%s" % (exp, str(got).split(":")[0]), "pattern '%s'" % pat, exp, got)
    if n_ok:
        ctx.ok(rid, "%d class patterns give the most compact mode that can represent the input" % n_ok, n=n_ok)
    groups.emit(ctx, rid, "encode::best_encoding", where_fn(fn), fn.path,
                "automatic mode is not Numeric / Alphanumeric / Byte as the classes of the input bytes require (d = digit, a = other "
                "alphanumeric, o = other byte; first pattern shown)")
    und.emit(ctx, rid, "best_encoding", where_fn(fn))
    return not und.count


def _c09_inputs():
    """concrete inputs for best_encoding: every byte value alone and next to / between members of each class, every triple over
    class representatives and their aliases modulo 128 and 64, long inputs with one deviating byte far from the start"""
    A = ref.ALNUM.encode()
    ins = [[]]
    for b in range(256):
        ins.append([b])
        for x in (ord("7"), ord("K"), ord(":")):
            ins.append([b, x])
            ins.append([x, b])
        ins.append([ord("5"), b, ord("5")])
        ins.append([ord("Q"), b, ord("3")])
    reps = [ord("0"), ord("9"), ord("A"), ord("Z"), ord(" "), ord(":"), ord("a"), ord("@"), 0x00, 0x7f, 0x80, 0x80 + ord("0"), 0x80 + ord("A"),
            0xff, ord("/") + 1, ord("[")]
    import itertools
    for t3 in itertools.product(reps, repeat=3):
        ins.append(list(t3))
    for n in (300, 2953, 2954, 4296, 4297, 7089, 7090):
        d = [ord("0") + (i * 7) % 10 for i in range(n)]
        a = [A[(i * 11) % len(A)] for i in range(n)]
        ins.append(d)
        ins.append(a)
        for pos in (0, n // 2, n - 1):
            for dev in (ord("A"), ord("a"), 0x80 + ord("1")):
                x = list(d)
                x[pos] = dev
                ins.append(x)
            for dev in (ord("a"), 0x80 + ord("B"), ord("_")):
                x = list(a)
                x[pos] = dev
                ins.append(x)
    return ins


def _c09_expected(bs):
    A = set(ref.ALNUM.encode())
    if all(48 <= b <= 57 for b in bs):
        return "Numeric"
    if all(b in A for b in bs):
        return "Alphanumeric"
    return "Byte"


def _c09_conc_job(chunk):
    f = _G["facts"]
    pe = peval.PEval(f, max_steps=3_000_000)
    out = []
    for bs in chunk:
        pe.memo = {}
        r = pe.call("encode::best_encoding", [("ref", ("const", ("array", tuple(fold.mk_int("u8", b) for b in bs))))])
        got = to_py(r.value) if r.kind == "ret" and r.value != TOP else "%s: %s" % (r.kind if r.kind != "ret" else "top", r.why)
        exp = _c09_expected(bs)
        if got != exp:
            out.append((bs if len(bs) <= 8 else ("%d bytes, deviating %r" % (len(bs), [(i, b) for i, b in enumerate(bs) if _c09_expected([b]) != _c09_expected(bs[:1] if bs[0] != b else bs[1:2])][:2])), exp, got, r.kind))
    return len(chunk), out


def c09_r4(ctx, f, rid="C09.R4"):
    ctx.rule(rid, "best_encoding evaluated on concrete inputs: every byte value alone, next to and between members of each class, every "
                  "triple over class representatives and their aliases modulo 128, inputs of up to 7 090 bytes with one deviating "
                  "byte at the start, middle or end: Numeric iff all digits, Alphanumeric iff all in the ISO set and not all digits, "
                  "else Byte")
    fn = anchor_fn(ctx, rid, f, "encode::best_encoding", ["&[u8]"], MODE)
    if not fn:
        return None
    _G["facts"] = f
    ins = _c09_inputs()
    ncpu = min(16, os.cpu_count() or 1)
    chunks = [ins[i::ncpu * 2] for i in range(ncpu * 2)]
    res = cache.pmap(f, "scan-concrete", _c09_conc_job, chunks, procs=ncpu)
    groups = _Groups()
    und = _Und()
    n_ok = 0
    for n, bad in res:
        n_ok += n - len(bad)
        for bs, exp, got, kind in bad:
            shown = bytes(bs).decode("latin-1").encode("unicode_escape").decode() if isinstance(bs, list) else bs
            if kind in ("top", "loop") or str(got).startswith(("top:", "loop:")):
                und.add(got, "input '%s'" % shown)
            elif kind == "diverge":
                groups.add("panics", "input '%s'" % shown, exp, got)
            else:
                groups.add("%s->%s" % (exp, str(got).split(":")[0]), "input '%s'" % shown, exp, got)
    if n_ok:
        ctx.ok(rid, "%d concrete inputs give the most compact mode that can represent the input" % n_ok, n=n_ok)
    groups.emit(ctx, rid, "encode::best_encoding", where_fn(fn), fn.path,
                "automatic mode is not the most compact mode that can represent this input (first input shown, bytes escaped)")
    und.emit(ctx, rid, "best_encoding", where_fn(fn))
    return bool(n_ok) and not und.count


# ---------------------------------------------------------------------------------------------------------------------
# C12.R7: the SVG document, with every module value symbolic
# ---------------------------------------------------------------------------------------------------------------------

SHAPES6 = ["square", "circle", "rounded_square", "vertical", "horizontal", "diamond"]


def _color(sv):
    return ("adt", "convert::Color", 0, "Color", (("string", tuple(ord(c) for c in sv)),))


def _svg_builder(f, margin, layers, bg, dot):
    cmds = tuple(("fn", "convert::Shape::" + sh) for sh, c in layers)
    cols = tuple(_opt(None if c is None else _color(c)) for sh, c in layers)
    vals = {"commands": ("array", cmds), "command_colors": ("array", cols), "margin": fold.mk_int("usize", margin),
            "background_color": _color(bg), "dot_color": _color(dot), "image": _opt(None), "image_background_color": _color("#010203"),
            "image_background_shape": mk_enum(SHAPE, "Square"), "image_size": _opt(None), "image_gap": _opt(None), "image_position": _opt(None)}
    names = [fl["name"] for fl in f.adts[SVGB]["variants"][0]["fields"]]
    if set(names) - set(vals):
        return None
    return ("adt", SVGB, 0, "SvgBuilder", tuple(vals[nm] for nm in names))


def _svg_programs():
    progs = [[]]
    progs += [[(sh, None)] for sh in SHAPES6]
    progs += [[("circle", None), ("rounded_square", "#c10000")], [("diamond", "#00c200"), ("square", None)],
              [("rounded_square", None), ("vertical", "#0000c3"), ("horizontal", "#c4c400")]]
    return progs


def _svg_concrete(cfg, why):
    """the same document with concrete module values (two complementary chequered symbols): used when the symbolic evaluation cannot
    follow the renderer.  Every module is dark in exactly one of the two symbols: it must be drawn there and not in the other."""
    v, margin, pi = cfg
    import re
    f = _G["facts"]
    n = ref.side(v)
    layers = _svg_programs()[pi]
    bg, dot = "#b1b2b3", "#d1d2d3"
    S = n + 2 * margin
    problems = []
    for phase in (0, 1):
        pe = peval.PEval(f, max_steps=200_000_000)
        r = pe.call("qr::QRCode::default", [fold.mk_int("usize", n)])
        if r.kind != "ret" or r.value == TOP or r.value[4][0] == TOP or r.value[4][0][0] != "harr":
            return cfg, "top", "QRCode::default does not fold"
        qr = r.value
        h = qr[4][0]
        dark = lambda rr, cc: ((rr * 3 + cc * 5 + (rr * cc) % 7) % 2) == phase
        for rr in range(n):
            for cc in range(n):
                pe.heap.put(h, rr * n + cc, ("adt", "module::Module", 0, "Module", (fold.mk_int("u8", 1 if dark(rr, cc) else 0),)))
        b = _svg_builder(f, margin, layers, bg, dot)
        if b is None:
            return cfg, "top", "SvgBuilder has fields the rule does not know"
        r2 = pe.run(SVGB + "::to_str", [("ref", ("const", b)), ("ref", ("const", qr))])
        if r2.kind == "diverge":
            return cfg, "diverge", r2.why
        txt = peval._pystr(pe, None, r2.value) if r2.kind == "ret" and r2.value != TOP else None
        if txt is None:
            return cfg, "top", "%s; with concrete modules: %s" % (why, r2.why or "to_str does not return a known string")
        m = re.match(r'^<svg viewBox="0 0 (\d+) (\d+)" xmlns="http://www.w3.org/2000/svg"><rect width="(\d+)px" height="(\d+)px" fill="([^"]*)"/>(.*)</svg>$', txt, re.S)
        if not m:
            return cfg, "ret", [("skeleton", "<svg viewBox=.. xmlns=..><rect width height fill/>..</svg>", txt[:120])]
        if not (m.group(1) == m.group(2) == m.group(3) == m.group(4) == str(S)):
            problems.append(("side", S, m.group(1, 2, 3, 4)))
        if m.group(5) != bg:
            problems.append(("background fill", bg, m.group(5)))
        paths = re.findall(r'<path d="([^"]*)"((?: [a-z-]+="[^"]*")*)/>', m.group(6))
        if re.sub(r'<path d="[^"]*"(?: [a-z-]+="[^"]*")*/>', "", m.group(6)):
            problems.append(("extra markup", "", re.sub(r'<path d="[^"]*"(?: [a-z-]+="[^"]*")*/>', "", m.group(6))[:80]))
        want_layers = layers or [("square", None)]
        if len(paths) != len(want_layers):
            problems.append(("layer count", len(want_layers), len(paths)))
        want_cells = [(rr, cc) for rr in range(n) for cc in range(n) if dark(rr, cc)]
        for li, ((d, attrs), (shape, colr)) in enumerate(zip(paths, want_layers)):
            subs = re.findall(r"M(\d+(?:\.\d+)?),(\d+(?:\.\d+)?)[^M]*", d)
            if len(subs) != len(want_cells):
                problems.append(("layer %d: sub-path count" % li, len(want_cells), len(subs)))
                continue
            for (a, bb), (y, x) in zip(subs, want_cells):
                a, bb = float(a), float(bb)
                if not (x + margin <= a <= x + margin + 1 and y + margin <= bb <= y + margin + 1):
                    problems.append(("layer %d: module (%d,%d)" % (li, y, x), "a sub-path M in [%d,%d]x[%d,%d]" % (
                        x + margin, x + margin + 1, y + margin, y + margin + 1), "M%s,%s" % (a, bb)))
                    break
            want = colr or dot
            am = dict(re.findall(r' ([a-z-]+)="([^"]*)"', attrs))
            if am.get("fill") != want:
                problems.append(("layer %d: fill" % li, want, am.get("fill")))
        if problems:
            break
    return cfg, "ret-concrete", problems


def _svg_job(cfg):
    r_ = _svg_job_sym(cfg)
    if r_[1] == "top":
        return _svg_concrete(cfg, r_[2])
    return r_


def _svg_job_sym(cfg):
    v, margin, pi = cfg
    import re
    f = _G["facts"]
    n = ref.side(v)
    layers = _svg_programs()[pi]
    bg, dot = "#b1b2b3", "#d1d2d3"
    pe = peval.PEval(f, max_steps=30_000_000)
    r = pe.call("qr::QRCode::default", [fold.mk_int("usize", n)])
    if r.kind != "ret" or r.value == TOP or r.value[4][0] == TOP or r.value[4][0][0] != "harr":
        return cfg, "top", "QRCode::default does not fold"
    qr = r.value
    h = qr[4][0]
    for rr in range(n):
        for cc in range(n):
            pe.heap.put(h, rr * n + cc, ("adt", "module::Module", 0, "Module", (("tagint", "u8", 0, (rr, cc, False)),)))
    b = _svg_builder(f, margin, layers, bg, dot)
    if b is None:
        return cfg, "top", "SvgBuilder has fields the rule does not know"
    r2 = pe.run(SVGB + "::to_str", [("ref", ("const", b)), ("ref", ("const", qr))])
    if r2.kind != "ret":
        return cfg, r2.kind, r2.why
    if r2.value == TOP or r2.value[0] != "string":
        return cfg, "top", "to_str does not return a known string"
    toks = r2.value[1]
    # flatten: literal text with numbered holes for select tokens
    txt = ""
    holes = []
    for tk in toks:
        if isinstance(tk, int):
            txt += chr(tk)
        elif tk[0] == "sel":
            txt += "\x01%d\x01" % len(holes)
            holes.append(tk)
        else:
            return cfg, "top", "unknown text in the document: %s" % str(tk)[:80]
    S = n + 2 * margin
    problems = []
    m = re.match(r'^<svg viewBox="0 0 (\d+) (\d+)" xmlns="http://www.w3.org/2000/svg"><rect width="(\d+)px" height="(\d+)px" fill="([^"]*)"/>(.*)</svg>$', txt, re.S)
    if not m:
        return cfg, "ret", [("skeleton", "<svg viewBox=.. xmlns=..><rect width height fill/>..</svg>", txt[:120])]
    if not (m.group(1) == m.group(2) == m.group(3) == m.group(4) == str(S)):
        problems.append(("side", S, m.group(1, 2, 3, 4)))
    if m.group(5) != bg:
        problems.append(("background fill", bg, m.group(5)))
    body = m.group(6)
    paths = re.findall(r'<path d="([^"]*)"((?: [a-z-]+="[^"]*")*)/>', body)
    rest = re.sub(r'<path d="[^"]*"(?: [a-z-]+="[^"]*")*/>', "", body)
    if rest:
        problems.append(("extra markup", "", rest[:80]))
    want_layers = layers or [("square", None)]
    if len(paths) != len(want_layers):
        problems.append(("layer count", len(want_layers), len(paths)))
    for li, ((d, attrs), (shape, colr)) in enumerate(zip(paths, want_layers)):
        ids = re.findall(r"\x01(\d+)\x01", d)
        if re.sub(r"\x01\d+\x01", "", d):
            problems.append(("layer %d: unconditional path data" % li, "", re.sub(r"\x01\d+\x01", "", d)[:60]))
        if len(ids) != n * n:
            problems.append(("layer %d: sub-path slots" % li, n * n, len(ids)))
        for k, hid in enumerate(ids[:n * n]):
            tk = holes[int(hid)]
            y, x = divmod(k, n)
            then = "".join(chr(c) if isinstance(c, int) else "\x02" for c in tk[2])
            other = tk[3]
            mm = re.match(r"^M(\d+(?:\.\d+)?),(\d+(?:\.\d+)?)([^M\"<>&\x02]*)$", then)
            ok = tk[1] == (y, x) and not other and mm is not None
            if ok:
                a, bb = float(mm.group(1)), float(mm.group(2))
                ok = x + margin <= a <= x + margin + 1 and y + margin <= bb <= y + margin + 1
            if not ok:
                problems.append(("layer %d: module (%d,%d)" % (li, y, x), "dark -> one sub-path M in [%d,%d]x[%d,%d]; light -> nothing" % (
                    x + margin, x + margin + 1, y + margin, y + margin + 1), (tk[1], then[:40], "else:%d" % len(other))))
                break
        want = colr or dot
        am = dict(re.findall(r' ([a-z-]+)="([^"]*)"', attrs))
        if am.get("fill") != want:
            problems.append(("layer %d: fill" % li, want, am.get("fill")))
        if "stroke" in am and am["stroke"] != want:
            problems.append(("layer %d: stroke" % li, want, am.get("stroke")))
    return cfg, "ret", problems


def _img_job(job):
    """SvgBuilder::to_str on a symbol of light modules with the image option set to `probe` -> the document text"""
    if isinstance(job, tuple):
        probe, ver, margin = job
    else:
        probe, ver, margin = job, 1, 4
    f = _G["facts"]
    n = ref.side(ver)
    pe = peval.PEval(f, max_steps=30_000_000)
    r = pe.call("qr::QRCode::default", [fold.mk_int("usize", n)])
    if r.kind != "ret" or r.value == TOP:
        return probe, "top", "QRCode::default does not fold"
    b = _svg_builder(f, margin, [], "#ffffff", "#000000")
    if b is None:
        return probe, "top", "SvgBuilder has fields the rule does not know"
    names = [fl["name"] for fl in f.adts[SVGB]["variants"][0]["fields"]]
    i = names.index("image")
    b = b[:4] + (b[4][:i] + (_opt(("string", tuple(ord(c) for c in probe))),) + b[4][i + 1:],)
    r2 = pe.run(SVGB + "::to_str", [("ref", ("const", b)), ("ref", ("const", r.value))])
    if r2.kind != "ret":
        return probe, r2.kind, r2.why
    s_ = peval._pystr(pe, None, r2.value) if r2.value != TOP else None
    if s_ is None:
        return probe, "top", "to_str does not return a known string"
    return probe, "ret", s_


def c12_r9(ctx, f, rid="C12.R9"):
    ctx.rule(rid, "the embedded image end to end: SvgBuilder::to_str with the image option set to each probe string (every printable "
                  "ASCII character, quotes, angle brackets, ampersands, data URIs with quoted parameters and hostile tails, URLs, "
                  "paths, non-ASCII text) returns a well-formed XML document with exactly one <image> element whose href, decoded by "
                  "an XML parser, is the probe string itself")
    fn = anchor_fn(ctx, rid, f, SVGB + "::to_str")
    if not fn:
        return None
    from .rules_svg import ESC_PROBES
    import xml.etree.ElementTree as ET
    _G["facts"] = f
    probes = [p_ for p_ in ESC_PROBES if p_]
    # ... and a plain image on other symbols and margins (odd and even, the smallest and the largest symbol): the element is there
    # whatever the geometry (a panic in the frame arithmetic is met here too)
    geo = [("logo.png", v_, m_) for v_ in (1, 2, 7, 40) for m_ in (0, 1, 4, 9)]
    res = cache.pmap(f, "image-href", _img_job, probes + geo, params=f.config)
    res = [((r_[0][0] + " on V%02d margin %d" % r_[0][1:], r_[0][0]) if isinstance(r_[0], tuple) else (r_[0], r_[0]), r_[1], r_[2]) for r_ in res]
    n_ok = 0
    und = _Und()
    groups = _Groups()
    for (label, probe), kind, out in res:
        shown = label.encode("unicode_escape").decode()[:60]
        if kind == "diverge":
            groups.add("panics", "image %r" % shown, "a document", out)
            continue
        if kind != "ret":
            und.add(out, "image %r" % shown)
            continue
        try:
            root = ET.fromstring(out)
        except ET.ParseError as e:
            groups.add("ill-formed", "image %r" % shown, "a well-formed document", "%s near ...%s" % (e, out[max(0, out.find("<image") - 10):][:120]))
            continue
        imgs = [el for el in root.iter() if el.tag.rsplit("}", 1)[-1] == "image"]
        if len(imgs) != 1:
            groups.add("image-count", "image %r" % shown, 1, len(imgs))
            continue
        hrefs = [v for k, v in imgs[0].attrib.items() if k.rsplit("}", 1)[-1] == "href"]
        if hrefs != [probe]:
            groups.add("href", "image %r" % shown, probe[:80], [h[:80] for h in hrefs])
            continue
        extra = [el.tag for el in root.iter() if el.tag.rsplit("}", 1)[-1] not in ("svg", "rect", "path", "image", "circle", "g", "defs", "clipPath")]
        if extra:
            groups.add("injected-elements", "image %r" % shown, "none", extra[:3])
            continue
        n_ok += 1
    if n_ok:
        ctx.ok(rid, "%d image strings: one <image>, href decodes to the string, document well-formed" % n_ok, n=n_ok)
    groups.emit(ctx, rid, SVGB + "::to_str", where_fn(fn), fn.path,
                "with this image string the document is ill-formed, has no or several image elements, or the href does not designate "
                "the configured image (first string shown)")
    und.emit(ctx, rid, "to_str with an image", where_fn(fn))
    return bool(n_ok) and not und.count


def c12_r7(ctx, f, rid="C12.R7"):
    ctx.rule(rid, "SVG document by partial evaluation with symbolic module values: square viewBox/background of side size+2*margin in "
                  "the background colour, one <path> per layer with exactly one sub-path slot per module, taken iff the module is dark "
                  "and anchored in the module's cell, filled with the layer's colour")
    fn = anchor_fn(ctx, rid, f, SVGB + "::to_str")
    if not fn:
        return None
    if SVGB not in f.adts:
        ctx.anchor_missing(rid, SVGB)
        return None
    _G["facts"] = f
    progs = _svg_programs()
    cfgs = []
    versions = (1, 2) if ctx.tier != "thorough" else (1, 2, 3, 7)
    ctx.subset(rid, "SVG document evaluated on a lattice of (version, margin, layer program) configurations, every matrix content each")
    for v in versions:
        for margin in ((0, 4) if ctx.tier != "thorough" else (0, 1, 4, 9)):
            for pi in range(len(progs)):
                cfgs.append((v, margin, pi))
    # coordinates beyond 255 and 256 (a large symbol with a large margin; the margin is a free option): default layer only
    cfgs += [(1, 250, 0), (2, 240, 1), (1, 65530, 2)] if ctx.tier != "thorough" else [(1, 250, 0), (2, 240, 1), (1, 65530, 2), (27, 131, 0), (40, 100, 1)]
    res = cache.pmap(f, "svg-doc", _svg_job, sorted(cfgs, reverse=True), params=f.config)
    groups = _Groups()
    und = _Und()
    n_ok = n_conc = 0
    for cfg, kind, out in sorted(res):
        inst = "V%02d/margin=%d/layers=%s" % (cfg[0], cfg[1], "+".join(sh for sh, c in progs[cfg[2]]) or "default")
        if kind == "diverge":
            groups.add("panics", inst, "a document", out)
        elif kind not in ("ret", "ret-concrete"):
            und.add(out, inst)
        elif out:
            p0 = out[0]
            groups.add(re_key(p0[0]), inst, p0[1], p0[2])
        else:
            n_ok += 1
            if kind == "ret-concrete":
                n_conc += 1
    if n_conc:
        ctx.subset(rid, "%d document(s) were decided on two complementary concrete symbols (every module dark in exactly one), because the "
                        "symbolic evaluation could not follow the renderer" % n_conc)
    if n_ok:
        ctx.ok(rid, "%d (version, margin, layer program) documents satisfy every clause for every matrix content" % n_ok, n=n_ok)
    groups.emit(ctx, rid, SVGB + "::to_str", where_fn(fn), fn.path,
                "the SVG document violates a clause of the documented rendering (first configuration shown; module conditions are "
                "(row, column))")
    und.emit(ctx, rid, "SvgBuilder::to_str", where_fn(fn))
    ctx.floor(rid, "documents evaluated", n_ok + und.count + sum(len(e["insts"]) for e in groups.g.values()), len(cfgs))
    return not und.count


def re_key(s_):
    import re
    return re.sub(r"\d+", "N", s_).replace(" ", "_")


# ---------------------------------------------------------------------------------------------------------------------
# C11.R8: mask selection with the stages summarised and the penalties supplied by an oracle
# C01.R6: composition of the pipeline in placement::create_matrix
# ---------------------------------------------------------------------------------------------------------------------

QRC = "qr::QRCode"


def _qr_fields(f):
    return [fl["name"] for fl in f.adts[QRC]["variants"][0]["fields"]]


def _qr_make(f, data, size):
    vals = {"data": data, "size": size, "version": peval.NONE, "ecl": peval.NONE, "mask": peval.NONE, "mode": peval.NONE}
    names = _qr_fields(f)
    if set(names) - set(vals):
        return None
    return ("adt", QRC, 0, "QRCode", tuple(vals[n] for n in names))


def _qr_get(f, q, name):
    return q[4][_qr_fields(f).index(name)]


def _qr_set(f, q, name, v):
    i = _qr_fields(f).index(name)
    return q[:4] + (q[4][:i] + (v,) + q[4][i + 1:],)


def _stream_of(bits):
    """the codeword stream a stage is handed: a CompactQR (length, bytes) or the bytes themselves (a slice / vector / token)
    -> (length value | None, bytes value | None)"""
    if bits == TOP:
        return None, None
    if bits[0] == "adt" and bits[1] == CQ and len(bits[4]) >= 2:
        return bits[4][0], bits[4][1]
    if bits[0] in ("tok", "array", "harr", "hview", "vec"):
        return None, bits
    if bits[0] == "adt" and "Vec" in bits[1]:
        return None, bits
    return None, None


def _selection_run(f, version, ecl, forced, oracle, adversarial=False):
    """-> (kind, info): info = dict(result data token, result.mask, out mask, scored list)"""
    pe = peval.PEval(f, max_steps=400000)
    scored = []
    cq_tok = ("tok", ("codewords",))
    cq = ("adt", CQ, 0, "CompactQR", (TOP, cq_tok))

    def upd(pe_, st, ref_, fn_):
        q = peval._deref(pe_, st, ref_)
        if q == TOP or q[0] != "adt" or q[1] != QRC:
            raise fold._Abort("top", "stage called on something other than a QRCode")
        pe_.store_ptr(st, ref_[1], _qr_set(f, q, "data", ("tok", fn_(_qr_get(f, q, "data")))))
        return peval.UNIT

    def s_blank(pe_, st, a, t):
        return _qr_make(f, ("tok", ("blank", to_py(a[0]))), fold.mk_int("usize", ref.side(version)))

    def s_place(pe_, st, a, t):
        bits = peval._deref(pe_, st, a[1])
        return upd(pe_, st, a[0], lambda d: ("placed", d, _stream_of(bits)[1]))

    def s_transpose(pe_, st, a, t):
        q = peval._deref(pe_, st, a[0])
        return _qr_set(f, q, "data", ("tok", ("transpose", _qr_get(f, q, "data"))))

    def s_mask(pe_, st, a, t):
        return upd(pe_, st, a[0], lambda d: ("masked", d, to_py(a[1])))

    def s_format(pe_, st, a, t):
        return upd(pe_, st, a[0], lambda d: ("format", d, to_py(a[1]), to_py(a[2])))

    def s_score(pe_, st, a, t):
        x, y = peval._deref(pe_, st, a[0]), peval._deref(pe_, st, a[1])
        dx, dy = _qr_get(f, x, "data"), _qr_get(f, y, "data")
        scored.append((dx, dy))
        m = dx[1][2] if dx != TOP and dx[0] == "tok" and dx[1][0] == "masked" else None
        tot = oracle.get(m, 999)
        if adversarial and len(a) == 3 and a[2] != TOP and a[2][0] == "int" and tot >= a[2][2]:
            # a scorer that may cut at the bound it is given: the least it may return is the bound itself
            tot = a[2][2]
        return fold.mk_int("u32", tot)

    pe.summaries.update({"default::create_matrix": s_blank, "placement::place_on_matrix_data": s_place, "default::transpose": s_transpose,
                         "datamasking::mask": s_mask, "default::create_matrix_format_info": s_format, "score::score": s_score})
    mopt = _opt(None if forced is None else mk_enum(MASK, forced))
    ins = (f.fn("placement::place_on_matrix").raw.get("inputs") or [])
    by_value = len(ins) == 4 and not ins[3].startswith("&")
    r = pe.run("placement::place_on_matrix", [("ref", ("const", cq)), mk_enum(ECL, ecl), mk_enum(VERSION, "V%02d" % version),
                                              mopt if by_value else ("cell", 0)], cells=[mopt])
    if r.kind != "ret":
        return r.kind, r.why
    q = r.value
    if q == TOP or q[0] != "adt" or q[1] != QRC:
        return "top", "place_on_matrix does not return a QRCode"
    return "ret", {"data": _qr_get(f, q, "data"), "mask": to_py(_qr_get(f, q, "mask")), "out": None if by_value else to_py(r.cells[0]),
                   "scored": scored}


def c11_r8(ctx, f, rid="C11.R8", report_d1=False):
    ctx.rule(rid, "mask selection by partial evaluation with the stages summarised and penalties supplied by an oracle: all eight "
                  "candidates are the placed matrix masked once, the emitted mask has minimal penalty unless one is forced, and it is "
                  "the mask written to the format information, applied, reported and returned")
    fn = anchor_fn(ctx, rid, f, "placement::place_on_matrix")
    if not fn:
        return None
    if QRC not in f.adts or _qr_make(f, TOP, TOP) is None:
        ctx.abstain(rid, "QRCode has fields the rule does not know", where_fn(fn))
        return None
    version, ecl = 5, "Q"
    ctx.subset(rid, "18 oracle scenarios on one (version, level): the selection code does not depend on either beyond passing them on")
    placed = ("tok", ("placed", ("tok", ("blank", "V%02d" % version)), ("tok", ("codewords",))))
    groups = _Groups()
    und = _Und()
    n_ok = 0
    d1_seen = False
    runs = []
    for k, mk in enumerate(ref.MASKS):
        runs.append(("min=%s" % mk, None, {m: (10 if m == mk else 100 + i) for i, m in enumerate(ref.MASKS)}, {mk}))
    runs.append(("all-equal", None, {m: 50 for m in ref.MASKS}, set(ref.MASKS)))
    runs.append(("two-minima", None, {m: (10 if m in ("DiagonalLines", "Meadow") else 70) for m in ref.MASKS}, {"DiagonalLines", "Meadow"}))
    for k, mk in enumerate(ref.MASKS):
        other = ref.MASKS[(k + 3) % 8]
        runs.append(("forced=%s,min=%s" % (mk, other), mk, {m: (10 if m == other else 100 + i) for i, m in enumerate(ref.MASKS)}, {mk}))
    sc_in = (f.fn("score::score").raw.get("inputs") or []) if f.fn("score::score") else []
    if len(sc_in) == 3 and ctx.inventory.get("score_contract") == "bound":
        # C11.R9 found that score(candidate, transposed, bound) may return a cut (bound <= result <= total): every scenario is also
        # played with a scorer that cuts as early and as low as that contract allows
        runs = runs + [(name + " [scorer cuts at its bound]", forced, oracle, accept, True) for name, forced, oracle, accept in runs]
    for run_ in runs:
        name, forced, oracle, accept = run_[:4]
        kind, info = _selection_run(f, version, ecl, forced, oracle, adversarial=len(run_) > 4)
        if kind == "diverge":
            groups.add("panics", name, "a symbol", info)
            continue
        if kind != "ret":
            und.add(info, name)
            continue
        bad = []
        cands = [dx for dx, dy in info["scored"]]
        want_c = [("tok", ("masked", placed, m)) for m in ref.MASKS]
        # when a mask is imposed the search is immaterial: it may be skipped altogether (no candidate scored)
        if sorted(map(repr, cands)) != sorted(map(repr, want_c)) and not (forced is not None and not cands):
            bad.append(("candidates", "the placed matrix masked once with each of the 8 patterns", [str(c)[:90] for c in cands if c not in want_c][:2] or
                        "%d candidates" % len(cands)))
        for dx, dy in info["scored"]:
            if dy != ("tok", ("transpose", dx)):
                d1_seen = True
        dat = info["data"]
        chosen = dat[1][2] if dat != TOP and dat[0] == "tok" and dat[1][0] == "masked" else None
        if chosen not in accept:
            bad.append(("choice", sorted(accept), chosen))
        exp = ("tok", ("masked", ("tok", ("format", placed, ecl, chosen)), chosen))
        if dat != exp:
            bad.append(("final-symbol", "format information for (level, chosen mask) written on the placed matrix, then that mask applied once",
                        str(dat)[:160]))
        sm = {"variant": "Some", "fields": [chosen]}
        if ctx.inventory.get("c04_r5_decided"):
            # what the public constructor reports is decided end to end by C04.R5; the out-parameter and the field of the value
            # place_on_matrix returns are internal hand-offs
            pass
        elif info["mask"] != sm or (info["out"] is not None and info["out"] != sm):
            bad.append(("reported-mask", chosen, (info["mask"], info["out"])))
        if bad:
            for b in bad[:2]:
                groups.add(b[0], name, b[1], b[2])
        else:
            n_ok += 1
    if n_ok:
        ctx.ok(rid, "%d selection scenarios (unique minimum at each pattern, ties, each pattern forced) behave as documented" % n_ok, n=n_ok)
    groups.emit(ctx, rid, "placement::place_on_matrix", where_fn(fn), fn.path,
                "the mask selection does not try the eight patterns on the same placed codewords / emit a minimal-penalty mask / honour a "
                "forced mask / record and apply the same mask (first scenario shown)")
    und.emit(ctx, rid, "place_on_matrix", where_fn(fn))
    try:
        ctx.inventory["c11_r8_unmasked_transpose_scored"] = bool(d1_seen)
    except Exception:  # noqa: BLE001
        pass
    if report_d1:
        c11_d1_if_missing(ctx, f, d1_seen)
    return not und.count


def c11_d1_if_missing(ctx, f, d1_seen=None):
    """the column half of the penalty is computed on a copy that was never masked (known finding D1): reported under the key of
    C11.R2, once, whichever rule saw it"""
    if d1_seen is None:
        d1_seen = ctx.inventory.get("c11_r8_unmasked_transpose_scored")
    if not d1_seen or any(v.key == "C11.R2/placement::place_on_matrix/score.arg1" for v in ctx.violations):
        return
    fn = f.fn("placement::place_on_matrix")
    if "C11.R2" not in ctx.rules:
        ctx.rule("C11.R2", "each candidate is ranked by its own penalty (every score argument depends on the masked candidate)")
    ctx.fail("C11.R2", "placement::place_on_matrix/score.arg1", where_fn(fn), fn.path, "arg#1 of score::score",
             "the transposed matrix handed to the scorer is the transpose of the unmasked placed matrix, not of the candidate",
             expected="transpose(masked candidate)", found="transpose(placed)")


def _new_run(f, n_in, ecl, version, mode, forced, oracle, detected):
    """QRCode::new end to end with every stage summarised as a token (as C11.R8 and C01.R6 do) and the penalties from an oracle
    -> (kind, info)"""
    pe = peval.PEval(f, max_steps=600000)
    seen = {"scored": []}

    def upd(pe_, st, ref_, fn_):
        q = peval._deref(pe_, st, ref_)
        if q == TOP or q[0] != "adt" or q[1] != QRC:
            raise fold._Abort("top", "stage called on something other than a QRCode")
        pe_.store_ptr(st, ref_[1], _qr_set(f, q, "data", ("tok", fn_(_qr_get(f, q, "data")))))
        return peval.UNIT

    def s_blank(pe_, st, a, t):
        v = to_py(a[0])
        return _qr_make(f, ("tok", ("blank", v)), fold.mk_int("usize", ref.side(int(v[1:]))) if isinstance(v, str) and v[1:].isdigit() else TOP)

    def s_place(pe_, st, a, t):
        bits = peval._deref(pe_, st, a[1])
        return upd(pe_, st, a[0], lambda d: ("placed", d, _stream_of(bits)[1]))

    def s_transpose(pe_, st, a, t):
        q = peval._deref(pe_, st, a[0])
        return _qr_set(f, q, "data", ("tok", ("transpose", _qr_get(f, q, "data"))))

    def s_mask(pe_, st, a, t):
        return upd(pe_, st, a[0], lambda d: ("masked", d, to_py(a[1])))

    def s_format(pe_, st, a, t):
        return upd(pe_, st, a[0], lambda d: ("format", d, to_py(a[1]), to_py(a[2])))

    def s_score(pe_, st, a, t):
        x = peval._deref(pe_, st, a[0])
        dx = _qr_get(f, x, "data")
        m = dx[1][2] if dx != TOP and dx[0] == "tok" and dx[1][0] == "masked" else None
        return fold.mk_int("u32", oracle.get(m, 999))

    def s_encode(pe_, st, a, t):
        seen["encode"] = (peval._deref(pe_, st, a[0]), to_py(a[1]), to_py(a[2]), to_py(a[3]))
        return ("adt", CQ, 0, "CompactQR", (TOP, ("tok", ("encoded",))))

    def s_structure(pe_, st, a, t):
        return ("tok", ("structured",))

    def s_to_vec(pe_, st, a, t):
        return peval._deref(pe_, st, a[0])

    pe.summaries.update({"default::create_matrix": s_blank, "placement::place_on_matrix_data": s_place, "default::transpose": s_transpose,
                         "datamasking::mask": s_mask, "default::create_matrix_format_info": s_format, "score::score": s_score,
                         "encode::encode": s_encode, "polynomials::structure": s_structure, "std::slice::<impl [T]>::to_vec": s_to_vec,
                         "encode::best_encoding": lambda pe_, st, a, t: mk_enum(MODE, detected)})
    args = [("ref", ("const", ("symvec", n_in))), _opt(None if ecl is None else mk_enum(ECL, ecl)),
            _opt(None if version is None else mk_enum(VERSION, "V%02d" % version)), _opt(None if mode is None else mk_enum(MODE, mode)),
            _opt(None if forced is None else mk_enum(MASK, forced))]
    r = pe.call("qr::QRCode::new", args)
    if r.kind != "ret":
        return r.kind, r.why
    v = r.value
    if v == TOP or v[0] != "adt" or v[3] != "Ok" or not v[4] or v[4][0] == TOP or v[4][0][0] != "adt" or v[4][0][1] != QRC:
        return "top", "QRCode::new does not return Ok(QRCode) the rule can read"
    q = v[4][0]
    return "ret", {"data": _qr_get(f, q, "data"), "mask": to_py(_qr_get(f, q, "mask")), "ecl": to_py(_qr_get(f, q, "ecl")),
                   "version": to_py(_qr_get(f, q, "version")), "mode": to_py(_qr_get(f, q, "mode")), "encode": seen.get("encode")}


def c04_r5(ctx, f, rid="C04.R5"):
    ctx.rule(rid, "what QRCode::new reports is what the symbol carries, end to end (every stage a token, penalties from an oracle): the "
                  "returned symbol is the placed codewords with the format information of (level used, mask m) written and mask m applied "
                  "once, m = the forced mask else a minimal-penalty one; mask, level, version and mode reported are exactly those values "
                  "(level defaults to Q, version to the smallest sufficient one, mode to the detected one)")
    fn = anchor_fn(ctx, rid, f, "qr::QRCode::new")
    if not fn:
        return None
    if QRC not in f.adts or _qr_make(f, TOP, TOP) is None:
        ctx.abstain(rid, "QRCode has fields the rule does not know", where_fn(fn))
        return None
    groups = _Groups()
    und = _Und()
    n_ok = 0
    n_in = 5
    scen = []
    for k, mk in enumerate(ref.MASKS):
        other = ref.MASKS[(k + 3) % 8]
        scen.append(("auto mask, minimum at %s" % mk, None, {m: (10 if m == mk else 100 + i) for i, m in enumerate(ref.MASKS)}, {mk}))
        scen.append(("mask %s forced, minimum at %s" % (mk, other), mk, {m: (10 if m == other else 100 + i) for i, m in enumerate(ref.MASKS)}, {mk}))
    opts = [("Q", None, "Byte", "Numeric"), (None, None, None, "Alphanumeric"), ("H", 7, "Numeric", "Numeric"), ("L", 40, None, "Byte"),
            (None, 2, "Alphanumeric", "Numeric"), ("M", None, None, "Numeric")]
    for si, (sname, forced, oracle, accept) in enumerate(scen):
        for ecl, version, mode, detected in (opts if si < 4 else opts[si % len(opts):si % len(opts) + 2]):
            lvl = ecl or "Q"
            md = mode or detected
            need = next(v for v in range(1, 41) if n_in <= ref.capacity(v, lvl, md))
            ver = version if version is not None else need
            inst = "%s; level %s, version %s, mode %s (detected %s)" % (sname, ecl or "default", version or "auto", mode or "auto", detected)
            kind, info = _new_run(f, n_in, ecl, version, mode, forced, oracle, detected)
            if kind == "diverge":
                groups.add("panics", inst, "a symbol", info)
                continue
            if kind != "ret":
                und.add(info, inst)
                continue
            vv = "V%02d" % ver
            placed = ("tok", ("placed", ("tok", ("blank", vv)), ("tok", ("structured",))))
            dat = info["data"]
            chosen = dat[1][2] if dat != TOP and dat[0] == "tok" and dat[1][0] == "masked" else None
            bad = []
            if chosen not in accept:
                bad.append(("mask-applied", sorted(accept), chosen))
            exp = ("tok", ("masked", ("tok", ("format", placed, lvl, chosen)), chosen))
            if dat != exp and not bad:
                bad.append(("symbol", "format information of (%s, %s) on the placed codewords of %s, then that mask once" % (lvl, chosen, vv), str(dat)[:200]))
            some = lambda x: {"variant": "Some", "fields": [x]}
            for field, want in (("mask", chosen), ("ecl", lvl), ("version", vv), ("mode", md)):
                if info[field] != some(want):
                    bad.append(("reported-%s" % field, want, info[field]))
            if info["encode"] is not None and info["encode"][1:] != (lvl, md, vv):
                bad.append(("encoded-with", (lvl, md, vv), info["encode"][1:]))
            if bad:
                for b in bad[:2]:
                    groups.add(b[0], inst, b[1], b[2])
            else:
                n_ok += 1
    if n_ok:
        ctx.ok(rid, "%d end-to-end scenarios: the symbol carries, and QRCode::new reports, the mask/level/version/mode in effect" % n_ok, n=n_ok)
    groups.emit(ctx, rid, "qr::QRCode::new", where_fn(fn), fn.path,
                "the mask / level / version / mode reported by the returned QRCode is not the one the symbol was built with, or a forced "
                "option is not the one in effect (first scenario shown)")
    und.emit(ctx, rid, "QRCode::new", where_fn(fn))
    decided = bool(n_ok) and not und.count
    try:
        ctx.inventory["c04_r5_decided"] = decided
    except Exception:  # noqa: BLE001
        pass
    return decided


def c01_r6(ctx, f, rid="C01.R6", report_fields=True):
    ctx.rule(rid, "pipeline composition by partial evaluation with the stages summarised: the symbol is place_on_matrix(structure(encode("
                  "input, level, mode, version), level, version) as an 8*codewords+remainder bit string, level, version, mask), reporting "
                  "the same level, mode and version (3 x 4 x 40 configurations)")
    fn = anchor_fn(ctx, rid, f, "placement::create_matrix", ["&[u8]", ECL, MODE, VERSION, "&mut std::option::Option<datamasking::Mask>"], QRC)
    if not fn:
        return None
    if QRC not in f.adts or _qr_make(f, TOP, TOP) is None:
        ctx.abstain(rid, "QRCode has fields the rule does not know", where_fn(fn))
        return None
    groups = _Groups()
    und = _Und()
    n_ok = 0
    sfn = f.fn("polynomials::structure")
    m_ = __import__("re").match(r"^\[u8; (\d+)\]$", (sfn.raw.get("output") or "") if sfn else "")
    slen = int(m_.group(1)) if m_ else 0
    for mode in ref.MODES:
        for l in ref.LEVELS:
            for v in range(1, 41):
                inst = "%s/%s/V%02d" % (mode, l, v)
                seen = {}

                def s_encode(pe_, st, a, t):
                    seen["encode"] = (peval._deref(pe_, st, a[0]), to_py(a[1]), to_py(a[2]), to_py(a[3]))
                    return ("adt", CQ, 0, "CompactQR", (TOP, ("tok", ("encoded",))))

                total = ref.total_codewords(v)
                rich = {"on": True}

                def s_structure(pe_, st, a, t):
                    seen["structure"] = (peval._deref(pe_, st, a[0]), to_py(a[1]), to_py(a[2]))
                    if not rich["on"]:
                        return ("tok", ("structured",))
                    # the codeword sequence as an array of free bytes followed by the zero tail C02.R4 establishes (the length of
                    # the array is the function's own return type)
                    h = pe_.heap.new(slen, fold.mk_int("u8", 0))
                    for j in range(total):
                        pe_.heap.put(h, j, ("sbyte", j))
                    return h

                def s_to_vec(pe_, st, a, t):
                    return peval._deref(pe_, st, a[0])

                def s_pom(pe_, st, a, t):
                    bits = peval._deref(pe_, st, a[0])
                    seen["place"] = (bits, to_py(a[1]), to_py(a[2]), peval._deref(pe_, st, a[3]))
                    ln_, by_ = _stream_of(bits)
                    seen["stream"] = (ln_, by_)
                    if rich["on"] and by_ is not None and by_ != TOP:
                        seen["bytes"] = peval._seq_items(pe_, peval._deref_all(pe_, st, by_))
                    return _qr_make(f, ("tok", ("symbol",)), fold.mk_int("usize", ref.side(v)))

                def run_once():
                    pe = peval.PEval(f, max_steps=2_000_000)
                    pe.arith = True
                    pe.atom_ranges = {"sbyte": (0, 255)}
                    sm = {"encode::encode": s_encode, "polynomials::structure": s_structure, "placement::place_on_matrix": s_pom}
                    if not rich["on"]:
                        sm["std::slice::<impl [T]>::to_vec"] = s_to_vec
                    pe.summaries.update(sm)
                    return pe.run(fn.path, [("ref", ("const", ("symvec", 5))), mk_enum(ECL, l), mk_enum(MODE, mode), mk_enum(VERSION, "V%02d" % v),
                                            ("cell", 0)], cells=[_opt(None)])
                r = run_once() if slen else None
                if r is None or r.kind not in ("ret", "diverge") or seen.get("bytes") is None:
                    # the bit string is built in a way the byte-level evaluation cannot follow: the codeword sequence as one token
                    rich["on"] = False
                    seen.clear()
                    r = run_once()
                if r.kind == "diverge":
                    groups.add("panics", inst, "a symbol", r.why)
                    continue
                if r.kind != "ret" or r.value == TOP or r.value[0] != "adt":
                    und.add(r.why or "result unknown", inst)
                    continue
                bad = []
                vv = "V%02d" % v
                if seen.get("encode") != (("symvec", 5), l, mode, vv):
                    bad.append(("encode-arguments", ("input", l, mode, vv), str(seen.get("encode"))[:120]))
                if seen.get("structure") != (("tok", ("encoded",)), l, vv):
                    bad.append(("structure-arguments", ("encode(..).data", l, vv), str(seen.get("structure"))[:120]))
                pl = seen.get("place")
                nbits = 8 * ref.total_codewords(v) + ref.remainder_bits(v)
                ln_, by_ = seen.get("stream", (None, None))
                # a stage that takes the bytes without a length (a slice) has no length to check: the bytes are the clause
                len_ok = ln_ is None and by_ is not None or ln_ == fold.mk_int("usize", nbits)
                if rich["on"]:
                    bs = seen.get("bytes") or []
                    need_b = (nbits + 7) // 8
                    ok_bits = pl is not None and len_ok and len(bs) >= need_b and all(bs[j] == ("sbyte", j) for j in range(total)) and \
                        all(bs[j] == fold.mk_int("u8", 0) for j in range(total, need_b))
                    if not ok_bits and pl is not None:
                        wrong = [j for j in range(min(len(bs), need_b)) if bs[j] != (("sbyte", j) if j < total else fold.mk_int("u8", 0))]
                        pl = (("%s bits" % (to_py(ln_) if ln_ not in (None, TOP) else "?"),
                               "codeword(s) %s altered" % wrong[:4] if wrong else "%d bytes" % len(bs)),) + tuple(pl[1:])
                else:
                    ok_bits = pl is not None and len_ok and by_ == ("tok", ("structured",))
                if not ok_bits or pl[1:3] != (l, vv):
                    bad.append(("placement-arguments", ("structure(..) as %d bits" % nbits, l, vv), str(pl)[:160]))
                q = r.value
                rep = (to_py(_qr_get(f, q, "mode")), to_py(_qr_get(f, q, "ecl")), to_py(_qr_get(f, q, "version")), _qr_get(f, q, "data"))
                want = ({"variant": "Some", "fields": [mode]}, {"variant": "Some", "fields": [l]}, {"variant": "Some", "fields": [vv]},
                        ("tok", ("symbol",)))
                if rep[3] != want[3]:
                    bad.append(("returned-matrix", "the matrix place_on_matrix built", str(rep[3])[:160]))
                elif rep != want and report_fields and not ctx.inventory.get("c04_r5_decided"):
                    # which stage fills in the mode / level / version fields is an internal matter: what the public constructor
                    # reports is decided end to end by C04.R5 when that rule has run and decided
                    bad.append(("reported-fields", "mode/level/version used, matrix of place_on_matrix", str(rep)[:160]))
                if bad:
                    groups.add(bad[0][0], inst, bad[0][1], bad[0][2])
                else:
                    n_ok += 1
    if n_ok:
        ctx.ok(rid, "%d configurations: stages chained on the same level/mode/version, bit string of 8*codewords+remainder bits" % n_ok, n=n_ok)
    groups.emit(ctx, rid, fn.path, where_fn(fn), fn.path, "the pipeline stages are not chained on the same input / level / mode / version, or "
                "the reported fields differ from the values used (first configuration shown)")
    und.emit(ctx, rid, "placement::create_matrix", where_fn(fn))
    ctx.floor(rid, "configurations", n_ok + und.count + sum(len(e["insts"]) for e in groups.g.values()), 480)
    return not und.count
