"""GF(2^8)-linear symbolic domain for the partial evaluator (used by C07.R4).

A block of payload bytes is given to `polynomials::division` as the free symbols d_0 .. d_{n-1}.  Every byte the routine then
computes is carried as a *linear form over GF(2^8)/0x11D*

    ("gfl", ty, c0, ((k, coef), ..))      value = c0  xor  XOR_k gf_mul(coef, d_k)        (at least one term; else it is an int)

Only the operations a log/antilog-table long division applies have a meaning here:

    form == 0 / form != 0      ("gfz", (c0, terms), negated)     a symbolic boolean; a branch on it is evaluated both ways up to
                               the immediate post-dominator; in the branch where the form is non-zero that fact is recorded; the
                               two states are merged when every difference between them is a constant multiple of the form (so
                               that both describe the same values when the form is zero), else the evaluation aborts (abstain)
    T[form]                    with T a constant table whose cells 1..255 are the discrete logarithm: ("gflog", ty, form, 0, True)
                               = log(form), an integer in 0..254 -- only for a form known to be non-zero on the current path
    k + log, log + k           ("gflog", ty, form, k', False)
    (..) % 255                 ("gflog", ty, form, k' mod 255, True)   (the value is the exponent reduced modulo 255)
    T[gflog]                   with T a constant table whose cells over the index range are alpha^(i mod 255): the form times alpha^k
    a ^ b                      sum of forms
    casts between unsigned integer types that keep the value

Anything else is TOP, which makes the caller abstain.  No payload byte is ever given a concrete value.
"""
from .fold import TOP, mk_int, mk_bool, _Abort, INT_BITS, fits
from . import reference as ref

GFK = ("gfl", "gflog", "gfz")
_EXP, _LOG = ref.gf_tables()


def gmul(a, b):
    if a == 0 or b == 0:
        return 0
    return _EXP[(_LOG[a] + _LOG[b]) % 255]


def gdiv(a, b):
    if a == 0:
        return 0
    return _EXP[(_LOG[a] - _LOG[b]) % 255]


def atoms(n, ty="u8"):
    """the n free block bytes"""
    return tuple(("gfl", ty, 0, ((k, 1),)) for k in range(n))


def norm(ty, c0, d):
    t = tuple(sorted((k, c) for k, c in d.items() if c))
    if not t:
        return mk_int(ty, c0)
    return ("gfl", ty, c0, t)


def form_of(v):
    """(c0, terms) of an int or gfl value, else None"""
    if v == TOP:
        return None
    if v[0] == "int":
        return (v[2], ())
    if v[0] == "gfl":
        return (v[2], v[3])
    return None


def xor_forms(fa, fb):
    d = dict(fa[1])
    for k, c in fb[1]:
        x = d.get(k, 0) ^ c
        if x:
            d[k] = x
        else:
            d.pop(k, None)
    return fa[0] ^ fb[0], d


def scale(f, c):
    if c == 0:
        return (0, ())
    if c == 1:
        return f
    lc = _LOG[c]
    return (gmul(f[0], c), tuple((k, _EXP[(_LOG[x] + lc) % 255]) for k, x in f[1]))


def multiple_of(diff, L):
    """is the form `diff` a constant multiple of the form L (non-constant)?"""
    if not diff[1] and diff[0] == 0:
        return True
    if not L[1]:
        return False
    k0, l0 = L[1][0]
    dd = dict(diff[1])
    c = gdiv(dd.get(k0, 0), l0)
    if c == 0:
        return False
    s = scale(L, c)
    return s[0] == diff[0] and tuple(sorted(s[1])) == tuple(sorted(diff[1]))


class GF:
    def __init__(self):
        self.nonzero = []  # forms known to be non-zero on the current path
        self.branches = 0
        self.lookups = 0
        self.tables = {}  # id of table tuple -> classification


def known_nonzero(pe, f):
    if not f[1]:
        return f[0] != 0
    for L in pe.gf.nonzero:
        if multiple_of(f, L):
            return True
    return False


def _table_ints(v):
    if v == TOP or v[0] != "array":
        return None
    out = []
    for x in v[1]:
        if x == TOP or x[0] != "int":
            return None
        out.append(x[2])
    return out


def lookup(pe, table, idx):
    """table[idx] for a symbolic index"""
    ints = _table_ints(table)
    if ints is None:
        return TOP
    pe.gf.lookups += 1
    if idx[0] == "gfl":
        f = (idx[2], idx[3])
        if len(ints) < 256:
            # the index ranges over all byte values unless the form is constrained: an out-of-range panic is possible
            raise _Abort("top", "table of %d cells indexed by a block byte" % len(ints))
        if not known_nonzero(pe, f):
            raise _Abort("top", "discrete-log table read at a block byte that may be zero")
        if all(ints[x] == _LOG[x] for x in range(1, 256)):
            return ("gflog", "u8", f, 0, True)
        raise _Abort("top", "table indexed by a block byte is not the discrete-log table of GF(2^8)/0x11D")
    if idx[0] == "gflog":
        _, _, f, k, red = idx
        lo, hi = (0, 254) if red else (k, k + 254)
        if red and k:
            # (log + k) mod 255 takes every value 0..254
            pass
        if hi >= len(ints):
            raise _Abort("top", "exponent table of %d cells indexed up to %d" % (len(ints), hi))
        if all(ints[e] == _EXP[e % 255] for e in range(lo, hi + 1)):
            c0, d = scale(f, _EXP[k % 255]), None
            return norm("u8", c0[0], dict(c0[1]))
        raise _Abort("top", "table indexed by an exponent is not the antilog table of GF(2^8)/0x11D on %d..%d" % (lo, hi))
    return TOP


def _range(v):
    if v[0] == "int":
        return (v[2], v[2])
    if v[0] == "gfl":
        return (0, 255)
    if v[0] == "gflog":
        return (0, 254) if v[4] else (v[3], v[3] + 254)
    return None


def binop(pe, op, a, b):
    ovf = op.endswith("WithOverflow")
    base = op[:-len("WithOverflow")] if ovf else op
    if base.endswith("Unchecked"):
        base = base[:-len("Unchecked")]
    if a == TOP or b == TOP:
        return TOP

    def res(v, o=False):
        return ("tuple", (v, mk_bool(o))) if ovf else v

    if base == "BitXor":
        fa, fb = form_of(a), form_of(b)
        if fa is None or fb is None:
            return TOP
        ty = a[1] or b[1]
        c0, d = xor_forms(fa, fb)
        return norm(ty, c0, d)
    if base in ("Eq", "Ne") and (a[0] == "gfl" or b[0] == "gfl"):
        fa, fb = form_of(a), form_of(b)
        if fa is None or fb is None:
            return TOP
        c0, d = xor_forms(fa, fb)
        f = norm("u8", c0, d)
        if f[0] == "int":
            return mk_bool((f[2] == 0) == (base == "Eq"))
        ff = (f[2], f[3])
        if known_nonzero(pe, ff):
            return mk_bool(base == "Ne")
        return ("gfz", ff, base == "Ne")
    if base in ("Lt", "Le", "Gt", "Ge", "Eq", "Ne"):
        ra, rb = _range(a), _range(b)
        if ra is None or rb is None:
            return TOP
        if ra[1] < rb[0]:
            return mk_bool(base in ("Ne", "Lt", "Le"))
        if ra[0] > rb[1]:
            return mk_bool(base in ("Ne", "Gt", "Ge"))
        if ra[1] <= rb[0] and base in ("Le", "Gt"):
            return mk_bool(base == "Le")
        if ra[0] >= rb[1] and base in ("Ge", "Lt"):
            return mk_bool(base == "Ge")
        return TOP
    if base == "Add" and (a[0] == "gflog" or b[0] == "gflog"):
        if a[0] == "int":
            a, b = b, a
        if a[0] != "gflog" or b[0] != "int" or b[2] < 0:
            return TOP
        ty = a[1] or b[1]
        lo, hi = _range(a)
        k = b[2]
        if not fits(ty, hi + k):
            return ("tuple", (TOP, TOP)) if ovf else TOP
        if a[4]:
            # reduced exponent e in 0..254 plus k: as an exponent this is log + (a[3] + k), but the *integer* is e + k
            if a[3] != 0:
                return TOP
            return res(("gflog", ty, a[2], k, False))
        return res(("gflog", ty, a[2], a[3] + k, False))
    if base == "Rem" and a[0] == "gflog" and b[0] == "int":
        if b[2] == 255:
            if a[4]:
                return a
            return ("gflog", a[1], a[2], a[3] % 255, True)
        return TOP
    return TOP


def cast(pe, v, ty):
    if ty not in INT_BITS or ty.startswith("i"):
        return TOP
    if v[0] == "gfl":
        return ("gfl", ty) + v[2:]
    if v[0] == "gflog":
        lo, hi = _range(v)
        if fits(ty, hi):
            return ("gflog", ty) + v[2:]
    return TOP


def _mergeable(x, y, L):
    """can the two values stand for the same run-time value whenever the form L is zero?  -> merged value or None"""
    if x == y:
        return x
    if x == TOP or y == TOP:
        return None
    if x[0] in ("array", "tuple") and y[0] == x[0] and len(x[1]) == len(y[1]):
        out = []
        for p, q in zip(x[1], y[1]):
            m = _mergeable(p, q, L)
            if m is None:
                return None
            out.append(m)
        return (x[0], tuple(out))
    fx, fy = form_of(x), form_of(y)
    if fx is None or fy is None or (x[1] != y[1]):
        return None
    c0, d = xor_forms(fx, fy)
    if multiple_of((c0, tuple(sorted(d.items()))), L):
        return x
    return None


def switch(pe, st, t, v):
    """branch on `form == 0`"""
    _, L, neg = v
    fr = st.frames[-1]
    fn = fr[0]
    depth = len(st.frames)
    J = pe._ipdom(fn, fr[2])
    if J is None or J < 0:
        raise _Abort("top", "branch on a block byte without a join point in %s" % fn.path)
    if len(t["arms"]) != 1 or t["arms"][0][0] != 0:
        raise _Abort("top", "block byte in a non-boolean switch")
    tgt_false, tgt_true = t["arms"][0][1], t["otherwise"]
    # v is true  <=>  (L == 0) != neg
    tgt_zero, tgt_nonzero = (tgt_true, tgt_false) if not neg else (tgt_false, tgt_true)
    pe.gf.branches += 1
    outs = []
    for tgt, nz in ((tgt_nonzero, True), (tgt_zero, False)):
        s2 = st.clone()
        hv = pe.heap.version
        if nz:
            pe.gf.nonzero.append(L)
        try:
            pe._enter_block(s2, tgt)
            while not (len(s2.frames) == depth and s2.frames[-1][2] == J and s2.frames[-1][3] == 0):
                pe.sym_steps += 1
                if pe.sym_steps > pe.max_steps:
                    raise _Abort("top", "step budget exhausted under a branch on a block byte")
                if len(s2.frames) < depth:
                    raise _Abort("top", "function returns under a branch on a block byte")
                if pe._step(s2) is not None:
                    raise _Abort("top", "evaluation ends under a branch on a block byte")
        finally:
            if nz:
                pe.gf.nonzero.pop()
        if pe.heap.version != hv:
            raise _Abort("top", "heap written under a branch on a block byte")
        outs.append(s2)
    a, b = outs  # a: L != 0, b: L == 0
    for i in range(depth):
        la, lb = a.frames[i][1], b.frames[i][1]
        merged = {}
        for k in set(la) | set(lb):
            x, y = la.get(k, TOP), lb.get(k, TOP)
            m = _mergeable(x, y, L)
            merged[k] = TOP if m is None else m
        st.frames[i][1] = merged
    st.assumed = a.assumed + [x for x in b.assumed if x not in a.assumed]
    st.frames[-1][2] = J
    st.frames[-1][3] = 0
